(* C08: the initialisation handshake and feature gating of the eleven driver constructors.       *)
(* Transcribed from src/transport/mod.rs (Transport::begin_init, finish_init, read_consistent),   *)
(* src/queue.rs (VirtQueue::new up to queue_set, should_notify), src/queue/owning.rs              *)
(* (OwningQueue::new) and the `new` of src/device/{blk,console,gpu/mod,input,net/dev_raw,net/dev, *)
(* rng,rtc,socket/vsock,sound,virtio_9p}.rs, plus the feature-gated methods blk flush/readonly,   *)
(* console size/emergency_write, gpu get_edid, net fill_buffer_header/send, rng request_entropy.  *)
(*                                                                                                *)
(* A constructor is `begin_init(SUPPORTED_FEATURES)` followed by a straight-line body. The body   *)
(* of each driver is written down as a list of `stmt`s (one stmt = one statement of `new`), and   *)
(* `exec_step` gives each kind of statement its meaning as (continue | stop with a result,        *)
(* ordered events). Everything the driver does not control is in `env`: the offered feature word, *)
(* the config-space bytes, the answers to read_config_generation, and per created queue the       *)
(* answers of queue_used / max_queue_size / Hal::dma_alloc and the notification-suppression words *)
(* the device has written (used.flags, avail_event).                                              *)
From VD Require Import Base.Words Model.Layout.

Definition bit (f k : N) : bool := N.testbit f k.

(* ---------- feature bits (src/device/common.rs and the per-device bitflags) ---------- *)
Definition B_INDIRECT : N := 28.
Definition B_EVENT_IDX : N := 29.
Definition B_VERSION_1 : N := 32.
Definition B_ACCESS_PLATFORM : N := 33.

(* RING_INDIRECT_DESC | RING_EVENT_IDX | VERSION_1 | ACCESS_PLATFORM *)
Definition RING_FEATURES : N := 0x10000000 + 0x20000000 + 0x100000000 + 0x200000000.

Inductive driver :=
| DBlk | DConsole | DGpu | DInput | DNetRaw | DNet | DRng | DRtc | DSocket | DSound | D9p.

(* the SUPPORTED_FEATURES constant of each driver *)
Definition supported (d : driver) : N :=
  match d with
  | DBlk => RING_FEATURES + 0x20 + 0x200            (* RO (5) | FLUSH (9) *)
  | DConsole => RING_FEATURES + 0x1 + 0x4           (* SIZE (0) | EMERG_WRITE (2) *)
  | DGpu => RING_FEATURES + 0x2                     (* EDID (1) *)
  | DNetRaw | DNet => RING_FEATURES + 0x20 + 0x10000 (* MAC (5) | STATUS (16) *)
  | DInput | DRng | DRtc | DSocket | DSound | D9p => RING_FEATURES
  end.

(* ---------- events ---------- *)
(* Transport calls in program order (answers of the environment recorded where the register-level
   rendering needs them), the cfg-gated report of VirtQueue::new's arguments, and the Hal calls
   dma_alloc / share with the access_platform argument they carry. *)
Inductive tev :=
| TSetStatus (s : N)
| TReadFeatures (answer : N)
| TWriteFeatures (f : N)
| TGuestPageSize (p : N)
| TQueueNew (q : N) (indirect event_idx access_platform : bool)
| TQueueUsed (q : N) (answer : bool)
| TMaxQueueSize (q : N) (answer : N)
| TAlloc (pages dir paddr : N) (ap : bool)
| TQueueSet (q size desc drv dev : N)
| TReadGen (answer : N)
| TReadConfig (off len : N) (ok : bool)
| TWriteConfig (off len : N)
| TShare (len dir : N) (ap : bool)
| TNotify (q : N).

(* DeviceStatus *)
Definition ST_ACK : N := 1.
Definition ST_DRIVER : N := 2.
Definition ST_DRIVER_OK : N := 4.
Definition ST_FEATURES_OK : N := 8.

(* ---------- Transport::begin_init / finish_init (provided methods) ---------- *)
(* `supported` is a value of the driver's flags type, so from_bits_truncate(device) & supported =
   device & supported (every bit of `supported` is a defined bit). *)
Definition begin_init (m : mode) (sup offered : N) : outcome N * list tev :=
  let negotiated := N.land offered sup in
  let t1 := [TSetStatus 0; TSetStatus (ST_ACK + ST_DRIVER); TReadFeatures offered] in
  let assert_fails :=
    match m with
    | Debug => bit offered B_VERSION_1 && negb (bit negotiated B_VERSION_1)   (* the debug_assert! *)
    | Release => false
    end in
  if assert_fails then (Panic, t1)
  else (Ok negotiated,
        t1 ++ [TWriteFeatures negotiated; TSetStatus (ST_ACK + ST_DRIVER + ST_FEATURES_OK);
               TGuestPageSize 4096]).

Definition finish_init : list tev :=
  [TSetStatus (ST_ACK + ST_DRIVER + ST_FEATURES_OK + ST_DRIVER_OK)].

(* ---------- environment ---------- *)
(* TKPci: the real PciTransport (Model/InitPci.v): never the legacy layout, a generation register *)
Inductive tkind := TKModel | TKMmioLegacy | TKMmioModern | TKPci.

Record qans := mkQa {
  qa_used : bool;        (* answer of queue_used *)
  qa_max : N;            (* answer of max_queue_size *)
  qa_a1 : N; qa_a2 : N;  (* answers of dma_alloc (0 = failure) *)
  qa_uflags : N;         (* used.flags as written by the device *)
  qa_aevent : N }.       (* avail_event as written by the device *)
Definition qa_default : qans := mkQa false 0 0 0 0 0.

Record env := mkEnv {
  e_mode : mode;
  e_tk : tkind;
  e_legacy : bool;       (* requires_legacy_layout of the model transport *)
  e_offered : N;
  e_cfg : list N;        (* config space bytes *)
  e_gens : list N;       (* answers of read_config_generation in order; afterwards the last repeats *)
  e_qans : list qans;    (* per VirtQueue::new call, in program order *)
  e_p1 : N;              (* net: QUEUE_SIZE; socket: RX_BUFFER_SIZE *)
  e_p2 : N;              (* net buffered: buf_len *)
  e_utf8 : bool }.       (* String::from_utf8 accepts the 9p mount tag *)

Definition legacy_layout (e : env) : bool :=
  match e_tk e with TKModel => e_legacy e | TKMmioLegacy => true | TKMmioModern => false | TKPci => false end.

(* ---------- config space ---------- *)
Fixpoint le_val (bytes : list N) : N :=
  match bytes with
  | [] => 0
  | b :: t => b + 256 * le_val t
  end.

Definition cfg_bytes (cfg : list N) (off len : N) : list N :=
  firstn (N.to_nat len) (skipn (N.to_nat off) cfg).

(* offset + size_of::<T>() > config.len() -> ConfigSpaceTooSmall *)
Definition cfg_ok (cfg : list N) (off len : N) : bool := off + len <=? lenN cfg.
Definition cfg_val (cfg : list N) (off len : N) : N := le_val (cfg_bytes cfg off len).

(* one read_config!/read_config_space: the event, and the value or ConfigSpaceTooSmall *)
Definition cfg_read (cfg : list N) (off len : N) : outcome N * list tev :=
  if cfg_ok cfg off len then (Ok (cfg_val cfg off len), [TReadConfig off len true])
  else (Err EConfigSpaceTooSmall, [TReadConfig off len false]).

(* a closure `Ok(f(read_config!(a)?, read_config!(b)?, ...))`: reads in order, `?` stops at the first error *)
Fixpoint read_seq (cfg : list N) (reads : list (N * N)) : outcome N * list tev :=
  match reads with
  | [] => (Ok 0, [])
  | (off, len) :: t =>
      match cfg_read cfg off len with
      | (Ok _, ev) => let '(o, ev') := read_seq cfg t in (o, ev ++ ev')
      | (o, ev) => (o, ev)
      end
  end.

(* the closure of virtio_9p::read_mount_tag: tag_len (u16 at 0), InvalidParam when 0, then one u8
   read per byte, then String::from_utf8 (IoError through From<FromUtf8Error>) *)
Definition tag_body (cfg : list N) (utf8 : bool) : outcome N * list tev :=
  match cfg_read cfg 0 2 with
  | (Ok tag_len, ev) =>
      if tag_len =? 0 then (Err EInvalidParam, ev)
      else
        match read_seq cfg (map (fun i => (2 + i, 1)) (seqN 0 (N.to_nat (w16 tag_len)))) with
        | (Ok _, ev') => ((if utf8 then Ok tag_len else Err EIoError), ev ++ ev')
        | (o, ev') => (o, ev ++ ev')
        end
  | (o, ev) => (o, ev)
  end.

(* read_config_generation: the k-th answer; a legacy MMIO device has no such register, the
   transport answers 0 without an access (after the repair of C10/F8) *)
Definition gen_nth (gens : list N) (k : nat) : N := w32 (nth k gens (last gens 0)).

Definition gen_read (e : env) (k : nat) : N * list tev * nat :=
  match e_tk e with
  | TKMmioLegacy => (0, [], k)
  | _ => let g := gen_nth (e_gens e) k in (g, [TReadGen g], S k)
  end.

Definition EFuel : N := 999.

(* Transport::read_consistent: loop { before; f(); after; if before == after { break result } } *)
Fixpoint rc_loop (fuel : nat) (e : env) (k : nat) (body : outcome N * list tev)
  : outcome N * list tev * nat :=
  match fuel with
  | O => (Err EFuel, [], k)
  | S fuel' =>
      let '(before, ev1, k1) := gen_read e k in
      let '(after, ev2, k2) := gen_read e k1 in
      let evs := ev1 ++ snd body ++ ev2 in
      if before =? after then (fst body, evs, k2)
      else let '(o, evs', k') := rc_loop fuel' e k2 body in (o, evs ++ evs', k')
  end.

Definition read_consistent (e : env) (k : nat) (body : outcome N * list tev) :=
  rc_loop (S (length (e_gens e))) e k body.

(* ---------- statements of a constructor body ---------- *)
Inductive stmt :=
| SRead (off len : N)                    (* read_config!(transport, Config, field)? *)
| SConsistent (reads : list (N * N))     (* transport.read_consistent(|| Ok(.. read_config!()? ..))? *)
| STag                                   (* read_mount_tag(&transport)? *)
| SQueue (idx size : N)                  (* VirtQueue::new(&mut transport, idx, <flags of f>)? *)
| SPost (n len : N)                      (* n times queue.add(&[], &mut [buffer of len bytes])? *)
| SCheckRx (len : N)                     (* check_rx_buf_len(rx_buf)? *)
| SNotifyIf (q avail_idx : N)            (* if queue.should_notify() { transport.notify(q) } *)
| SFinish.                               (* transport.finish_init() *)

Record ist := mkIst {
  i_gen : nat;                  (* generation answers consumed *)
  i_qans : list qans;           (* answers for the queues still to be created *)
  i_made : list (N * qans) }.   (* queues created so far *)

Inductive sres := RCont (s : ist) | RStop (o : outcome N).

(* VirtQueue::should_notify on a queue with the given avail_idx (cf. Model/Queue.v should_notify) *)
Definition should_notify_at (event_idx : bool) (avail_idx aevent uflags : N) : bool :=
  if event_idx then sub16 avail_idx (add16 (w16 aevent) 1) <? 32768
  else N.land uflags 1 =? 0.

Fixpoint lookup_q (made : list (N * qans)) (q : N) : qans :=
  match made with
  | [] => qa_default
  | (i, a) :: t => if i =? q then a else lookup_q t q
  end.

Definition alloc_ev (ap : bool) (e : Layout.ev) : list tev :=
  match e with
  | EvAlloc p d a => [TAlloc p d a ap]
  | EvDealloc _ _ => []                     (* release on the failure path: property C09 *)
  | EvQueueSet i n d a u => [TQueueSet i n d a u]
  end.

(* VirtQueue::new: queue_used, max_queue_size, allocation (Model/Layout.v allocate), queue_set *)
Definition queue_new_ev (e : env) (f : N) (a : qans) (idx size : N) : outcome N * list tev :=
  let ap := bit f B_ACCESS_PLATFORM in
  let t0 := [TQueueNew idx (bit f B_INDIRECT) (bit f B_EVENT_IDX) ap; TQueueUsed idx (qa_used a)] in
  if qa_used a then (Err EAlreadyUsed, t0)
  else
    let t1 := t0 ++ [TMaxQueueSize idx (qa_max a)] in
    if w32 (qa_max a) <? size then (Err EInvalidParam, t1)
    else
      match allocate (legacy_layout e) size (qa_a1 a) (qa_a2 a) with
      | (Ok l, evs) =>
          (Ok 0, t1 ++ concat (map (alloc_ev ap) evs) ++
                 [TQueueSet idx size (desc_paddr l) (driver_paddr l) (device_paddr l)])
      | (Err c, evs) => (Err c, t1 ++ concat (map (alloc_ev ap) evs))
      | (_, evs) => (Panic, t1 ++ concat (map (alloc_ev ap) evs))
      end.

Definition cnt (k : N) : nat := N.to_nat (N.min k 32768).

Definition exec_step (e : env) (f : N) (s : ist) (st : stmt) : sres * list tev :=
  match st with
  | SRead off len =>
      match cfg_read (e_cfg e) off len with
      | (Ok _, ev) => (RCont s, ev)
      | (o, ev) => (RStop o, ev)
      end
  | SConsistent reads =>
      let '(o, ev, k) := read_consistent e (i_gen s) (read_seq (e_cfg e) reads) in
      match o with
      | Ok _ => (RCont (mkIst k (i_qans s) (i_made s)), ev)
      | _ => (RStop o, ev)
      end
  | STag =>
      let '(o, ev, k) := read_consistent e (i_gen s) (tag_body (e_cfg e) (e_utf8 e)) in
      match o with
      | Ok _ => (RCont (mkIst k (i_qans s) (i_made s)), ev)
      | _ => (RStop o, ev)
      end
  | SQueue idx size =>
      let a := hd qa_default (i_qans s) in
      match queue_new_ev e f a idx size with
      | (Ok _, ev) => (RCont (mkIst (i_gen s) (tl (i_qans s)) ((idx, a) :: i_made s)), ev)
      | (o, ev) => (RStop o, ev)
      end
  | SPost n len =>
      (RCont s, repeat (TShare len DIR_FROM_DEV (bit f B_ACCESS_PLATFORM)) (cnt n))
  | SCheckRx len =>
      if len <? 1526 then (RStop (Err EInvalidParam), []) else (RCont s, [])   (* MIN_BUFFER_LEN *)
  | SNotifyIf q aidx =>
      let a := lookup_q (i_made s) q in
      if should_notify_at (bit f B_EVENT_IDX) aidx (qa_aevent a) (qa_uflags a)
      then (RCont s, [TNotify q]) else (RCont s, [])
  | SFinish => (RCont s, finish_init)
  end.

Fixpoint interp (e : env) (f : N) (s : ist) (sc : list stmt) : outcome N * list tev :=
  match sc with
  | [] => (Ok 0, [])
  | st :: rest =>
      match exec_step e f s st with
      | (RCont s', ev) => let '(o, ev') := interp e f s' rest in (o, ev ++ ev')
      | (RStop o, ev) => (o, ev)
      end
  end.

(* ---------- the eleven constructor bodies, statement by statement ---------- *)
(* net buffered: for (i, _) in rx_buffers.iter_mut().enumerate() { RxBuffer::new(i, buf_len, ..);
   inner.receive_begin(rx_buf.as_bytes_mut())? }  -- the buffer is a Vec<usize> of buf_len / 8 words *)
Definition rx_len (buf_len : N) : N := (buf_len / 8) * 8.
Definition net_post (qsize buf_len : N) : list stmt :=
  concat (map (fun i => [SCheckRx (rx_len buf_len); SPost 1 (rx_len buf_len); SNotifyIf 0 (i + 1)])
              (seqN 0 (cnt qsize))).

Definition net_raw_body (qsize : N) : list stmt :=
  [SConsistent [(0, 6)]; SRead 6 2; SQueue 1 qsize; SQueue 0 qsize; SFinish].

Definition body (d : driver) (p1 p2 : N) : list stmt :=
  match d with
  | DBlk => [SConsistent [(0, 4); (4, 4)]; SQueue 0 16; SFinish]
  | DConsole => [SQueue 0 2; SQueue 1 2; SFinish; SPost 1 4096; SNotifyIf 0 1]
  | DGpu => [SRead 0 4; SRead 8 4; SQueue 0 2; SQueue 1 2; SFinish]
  | DInput => [SQueue 0 32; SQueue 1 32; SPost 32 8; SFinish; SNotifyIf 0 32]
  | DNetRaw => net_raw_body p1
  | DNet => net_raw_body p1 ++ net_post p1 p2
  | DRng => [SQueue 0 8; SFinish]
  | DRtc => [SQueue 0 8; SFinish]
  | DSocket => [SConsistent [(0, 4); (4, 4)]; SQueue 0 8; SQueue 1 8; SQueue 2 8; SPost 8 p1;
                SFinish; SNotifyIf 0 8]
  | DSound => [SQueue 0 32; SQueue 1 32; SPost 32 8; SQueue 2 32; SQueue 3 32;
               SRead 0 4; SRead 4 4; SRead 8 4; SFinish; SNotifyIf 1 32]
  | D9p => [SQueue 0 16; STag; SFinish]   (* the tag is read before DRIVER_OK since fix f0b6ba0 (C09, F3) *)
  end.

(* VirtIOInput::new as it stood before the repair: the notification of the event queue was sent
   before finish_init. Kept for C08_input_prefix_refuted. *)
Definition input_body_prefix : list stmt :=
  [SQueue 0 32; SQueue 1 32; SPost 32 8; SNotifyIf 0 32; SFinish].

Definition ist0 (e : env) : ist := mkIst 0 (e_qans e) [].

Definition run_body (e : env) (sup : N) (sc : list stmt) : outcome N * list tev :=
  match begin_init (e_mode e) sup (e_offered e) with
  | (Ok f, t0) => let '(o, t1) := interp e f (ist0 e) sc in (o, t0 ++ t1)
  | (o, t0) => (o, t0)
  end.

(* `Driver::new(transport)`. VirtIOSocket::new starts with assert!(RX_BUFFER_SIZE > size_of::<VirtioVsockHdr>()) *)
Definition construct (d : driver) (e : env) : outcome N * list tev :=
  match d with
  | DSocket => if e_p1 e <=? 44 then (Panic, []) else run_body e (supported d) (body d (e_p1 e) (e_p2 e))
  | _ => run_body e (supported d) (body d (e_p1 e) (e_p2 e))
  end.

Definition construct_input_prefix (e : env) : outcome N * list tev :=
  run_body e (supported DInput) input_body_prefix.

(* the negotiated feature word the constructed driver keeps *)
Definition negotiated (d : driver) (offered : N) : N := N.land offered (supported d).

(* ---------- feature-gated operations on a constructed driver ---------- *)
(* The first request on a fresh queue of a device that has not suppressed notifications:
   shares of the readable then the writable buffers, with indirect descriptors negotiated and more
   than one buffer the share of the indirect table (16 bytes per buffer), then the notification. *)
Definition chain_ev (f : N) (ins outs : list N) (q : N) : list tev :=
  let ap := bit f B_ACCESS_PLATFORM in
  let n := lenN ins + lenN outs in
  map (fun l => TShare l DIR_TO_DEV ap) ins ++ map (fun l => TShare l DIR_FROM_DEV ap) outs ++
  (if bit f B_INDIRECT && (1 <? n) then [TShare (16 * n) DIR_TO_DEV ap] else []) ++ [TNotify q].

(* used_event as the device reads it after the first pop_used: written only with EVENT_IDX *)
Definition used_event_after (f : N) : N := if bit f B_EVENT_IDX then 1 else 0.

Inductive gop :=
| GBlkReadonly | GBlkFlush | GConsoleSize | GConsoleEmergWrite | GGpuGetEdid
| GNetHeader | GNetSend (len : N) | GRngRequest (len : N)
| GGpuEdidVia (entry : N)          (* 9: edid_preferred_resolution, 10: edid_supported_resolutions: both go through get_edid *)
| GNetRecvHdr                       (* VirtIONet::receive: the offset of RxBuffer::packet() in the buffer = the header size in use *)
| GNetTxBegin (len : N)             (* VirtIONetRaw::transmit_begin with a buffer of `len` bytes: accepted iff it can hold the header *)
| GBlkFill.                         (* six non-blocking reads on the 16-entry queue, nothing completed: the verdict of the sixth *)

(* result, events, used_event of the queue used. The device of the scenario completes a chain by
   zero-filling its writable part and reporting its total writable length. *)
Definition gop_run (f : N) (cfg : list N) (gen : N) (o : gop) : outcome N * list tev * N :=
  match o with
  | GBlkReadonly => (Ok (b2n (bit f 5)), [], 0)
  | GBlkFlush =>
      if bit f 9 then (Ok 0, chain_ev f [16] [1] 0, used_event_after f)     (* BlkReq, BlkResp: status 0 = OK *)
      else (Ok 0, [], 0)
  | GConsoleSize =>
      if bit f 0 then
        let '(o, ev) := read_seq cfg [(0, 2); (2, 2)] in
        (match o with Ok _ => Ok (1 + 2 * (cfg_val cfg 0 2 + 65536 * cfg_val cfg 2 2)) | _ => o end,
         [TReadGen (w32 gen)] ++ ev ++ [TReadGen (w32 gen)], 0)
      else (Ok 0, [], 0)
  | GConsoleEmergWrite =>
      if bit f 2 then
        (if cfg_ok cfg 8 4 then Ok 0 else Err EConfigSpaceTooSmall, [TWriteConfig 8 4], 0)
      else (Err EUnsupported, [], 0)
  | GGpuGetEdid =>
      if bit f 1 then (Err EIoError, chain_ev f [4096] [4096] 0, used_event_after f)   (* zeroed response: check_type fails *)
      else (Err EUnsupported, [], 0)
  | GNetHeader => (Ok (if bit f B_VERSION_1 then 12 else 10), [], 0)
  | GNetSend len =>
      (* an empty packet is sent as the header alone (no zero-length buffer is added to the queue) *)
      (Ok 0, chain_ev f ((if bit f B_VERSION_1 then 12 else 10) :: (if len =? 0 then [] else [len])) [] 1, used_event_after f)
  | GRngRequest len => (Ok len, chain_ev f [] [len] 0, used_event_after f)
  | GGpuEdidVia _ =>
      if bit f 1 then (Err EIoError, chain_ev f [4096] [4096] 0, used_event_after f)
      else (Err EUnsupported, [], 0)
  | GNetRecvHdr => (Ok (if bit f B_VERSION_1 then 12 else 10), [], 0)   (* the events of the receive path are C16's *)
  | GNetTxBegin len =>
      (if len <? (if bit f B_VERSION_1 then 12 else 10) then Err EInvalidParam else Ok 0, [], 0)   (* events: C16 *)
  | GBlkFill =>
      (* three descriptors per request without indirect descriptors: five fit into sixteen, the sixth is refused *)
      (if bit f B_INDIRECT then Ok 0 else Err EQueueFull, [], 0)
  end.

(* which driver an operation belongs to *)
Definition gop_driver_ok (d : driver) (o : gop) : bool :=
  match o, d with
  | GBlkReadonly, DBlk | GBlkFlush, DBlk | GConsoleSize, DConsole | GConsoleEmergWrite, DConsole
  | GGpuGetEdid, DGpu | GNetHeader, DNetRaw | GNetSend _, DNetRaw | GNetSend _, DNet
  | GRngRequest _, DRng | GGpuEdidVia _, DGpu | GNetRecvHdr, DNet | GNetTxBegin _, DNetRaw | GBlkFill, DBlk => true
  | _, _ => false
  end.
