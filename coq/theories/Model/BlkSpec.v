(* C14, the specification side, written from VirtIO 1.2 section 5.2 (Block Device) and NOT from     *)
(* the driver source:                                                                              *)
(*   5.2.6  struct virtio_blk_req { le32 type; le32 reserved; le64 sector; u8 data[]; u8 status; } *)
(*          VIRTIO_BLK_T_IN 0, _OUT 1, _FLUSH 4, _GET_ID 8; S_OK 0, S_IOERR 1, S_UNSUPP 2;          *)
(*          data of IN / GET_ID and the status byte are device-writable, the rest device-readable; *)
(*          GET_ID data is 20 bytes; IN / OUT data is a multiple of 512 bytes;                      *)
(*   5.2.4  struct virtio_blk_config { le64 capacity; ... };  5.2.3 VIRTIO_BLK_F_RO (5), _FLUSH (9) *)
(*   2.7.4  device-readable elements of a chain come before the device-writable ones.              *)
(* Plus a model of what the platform layer (Hal::share / unshare) does to memory, so that          *)
(* "the caller's bytes" and "the device's bytes" are terms of the logic.                           *)
(* Only the event type qev and the chain walk of Model/Queue.v are shared with the driver model.   *)
From VD Require Import Base.Words Model.Queue.

Definition T_IN : N := 0.
Definition T_OUT : N := 1.
Definition T_FLUSH : N := 4.
Definition T_GET_ID : N := 8.
Definition S_OK : N := 0.
Definition S_IOERR : N := 1.
Definition S_UNSUPP : N := 2.
Definition F_RO_BIT : N := 5.
Definition F_FLUSH_BIT : N := 9.

(* ---------- decoding little-endian fields ---------- *)
Fixpoint le_val (bs : list N) : N :=
  match bs with
  | [] => 0
  | b :: t => b + 256 * le_val t
  end.

(* the 16-byte header: (type, reserved, sector) *)
Definition spec_decode_hdr (bs : list N) : option (N * N * N) :=
  if lenN bs =? 16
  then Some (le_val (firstn 4 bs), le_val (firstn 4 (skipn 4 bs)), le_val (skipn 8 bs))
  else None.

(* ---------- the layout of a request as a list of (length, device-writable) parts ---------- *)
(* the property's shapes: [header R 16] [data R (OUT) | W (IN, GET_ID)] [status W 1] *)
Definition spec_shape (ty data_len : N) : option (list (N * bool)) :=
  if ty =? T_IN then
    if negb (data_len =? 0) && (data_len mod 512 =? 0) then Some [(16, false); (data_len, true); (1, true)] else None
  else if ty =? T_OUT then
    if negb (data_len =? 0) && (data_len mod 512 =? 0) then Some [(16, false); (data_len, false); (1, true)] else None
  else if ty =? T_FLUSH then Some [(16, false); (1, true)]
  else if ty =? T_GET_ID then Some [(16, false); (20, true); (1, true)]
  else None.

Definition shape_eqb (a b : list (N * bool)) : bool :=
  (lenN a =? lenN b)
  && forallb (fun p => (fst (fst p) =? fst (snd p)) && Bool.eqb (snd (fst p)) (snd (snd p))) (combine a b).

(* ---------- status ---------- *)
Inductive sstat := SOk | SIoErr | SUnsupp | SUndefined.
Definition spec_status (st : N) : sstat :=
  if st =? S_OK then SOk else if st =? S_IOERR then SIoErr else if st =? S_UNSUPP then SUnsupp else SUndefined.

(* does a driver result (class 0 = Ok, 1 = Err code) agree with the status byte the device wrote?
   Values the specification does not define must at least not be reported as success. *)
Definition result_conforms (st class code : N) : bool :=
  match spec_status st with
  | SOk => class =? 0
  | SIoErr => (class =? 1) && (code =? EIoError)
  | SUnsupp => (class =? 1) && (code =? EUnsupported)
  | SUndefined => class =? 1
  end.

(* ---------- configuration ---------- *)
Definition spec_capacity (lo hi : N) : N := lo + 4294967296 * hi.
Definition spec_readonly (negotiated : N) : bool := N.testbit negotiated F_RO_BIT.
Definition spec_may_flush (negotiated : N) : bool := N.testbit negotiated F_FLUSH_BIT.

(* ---------- memory: caller buffers (by identity) and device-visible blocks (by device address) ---------- *)
Definition amap := N -> list N.
Definition aset (m : amap) (k : N) (v : list N) : amap := fun x => if x =? k then v else m x.
Record world := mkW { w_caller : amap; w_dev : amap }.

Definition takeN {A} (n : N) (l : list A) : list A := firstn (N.to_nat n) l.

(* the Hal contract (hal.rs, "share" / "unshare"): a device-readable buffer is visible to the device
   at the returned address with the contents it had at share time; the contents the device left in a
   device-writable buffer are in the caller's buffer after unshare. (An identity-mapped Hal satisfies
   this too as long as the caller leaves the buffers alone in between, which is the callers' contract.)
   What a device-writable block holds before the device writes it is left unspecified (whatever the
   world held at that address). *)
Definition hal_ev (w : world) (e : qev) : world :=
  match e with
  | QShare id len wr addr =>
      if wr then w else mkW (w_caller w) (aset (w_dev w) addr (takeN len (w_caller w id)))
  | QUnshare addr id len wr =>
      if wr then mkW (aset (w_caller w) id (takeN len (w_dev w addr))) (w_dev w) else w
  | _ => w
  end.
Definition hal_run (w : world) (evs : list qev) : world := fold_left hal_ev evs w.

(* ---------- what a device obtains from a chain ---------- *)
(* els: the walk of the chain (Model/Queue.walk): (addr, len, writable) *)
Definition el_bytes (rd : amap) (e : N * N * bool) : list N := takeN (snd (fst e)) (rd (fst (fst e))).
Definition readable_part (els : list (N * N * bool)) := filter (fun e => negb (snd e)) els.
Definition writable_part (els : list (N * N * bool)) := filter (fun e => snd e) els.
Fixpoint sumN (l : list N) : N := match l with [] => 0 | x :: t => x + sumN t end.

Record sreq := mkS { s_type : N; s_reserved : N; s_sector : N; s_out : list N; s_in_len : N }.

(* byte-stream parse (valid with or without VIRTIO_F_ANY_LAYOUT): header = first 16 readable bytes,
   out-data = remaining readable bytes, in-data = writable bytes but the last, status = the last *)
Definition dev_parse (els : list (N * N * bool)) (rd : amap) : option sreq :=
  if readable_first els then
    let rb := concat (map (el_bytes rd) (readable_part els)) in
    let wl := sumN (map (fun e => snd (fst e)) (writable_part els)) in
    match spec_decode_hdr (firstn 16 rb) with
    | Some (ty, rs, sec) => if 1 <=? wl then Some (mkS ty rs sec (skipn 16 rb) (wl - 1)) else None
    | None => None
    end
  else None.

(* the device's answer: payload ++ [status] laid over the writable elements in order *)
Fixpoint dev_respond (wels : list (N * N * bool)) (bytes : list N) (m : amap) : amap :=
  match wels with
  | [] => m
  | (addr, len, _) :: rest => dev_respond rest (skipn (N.to_nat len) bytes) (aset m addr (takeN len bytes))
  end.
Definition dev_answer (els : list (N * N * bool)) (payload : list N) (st : N) (m : amap) : amap :=
  dev_respond (writable_part els) (payload ++ [st]) m.

Definition strip_addr (els : list (N * N * bool)) : list (N * bool) :=
  map (fun e => (snd (fst e), snd e)) els.
