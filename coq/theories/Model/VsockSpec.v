(* C17, the specification side, written from VirtIO 1.2 section 5.10.6 (Device Operation of the   *)
(* socket device) and NOT derived from the driver source:                                         *)
(*  (a) the layout of struct virtio_vsock_hdr as a table of (offset, width) and a decoder by       *)
(*      offsets;                                                                                  *)
(*  (b) a bounded FIFO byte queue (what a per-connection receive buffer has to be);               *)
(*  (c) a reference observer of ONE stream connection that keeps both credit windows              *)
(*      (5.10.6.3 Buffer Space Management) and both byte streams with UNBOUNDED counters, and     *)
(*      judges every operation of the driver it is shown: the packets put on the transmit queue,  *)
(*      the results of send / poll / recv. These judgements are the property monitors             *)
(*      (kinds 1751..1767): they are (1) proved of the model for all histories                    *)
(*      (Proofs/VsockProofs.v) and (2) evaluated on what the implementation is observed to do.    *)
(* Only the record type `hdr` and the op-code constants are shared with Model/Vsock.v.            *)
From VD Require Import Base.Words Model.Vsock.

(* ---- (a) 5.10.6: struct virtio_vsock_hdr { le64 src_cid; le64 dst_cid; le32 src_port;
        le32 dst_port; le32 len; le16 type; le16 op; le32 flags; le32 buf_alloc; le32 fwd_cnt; } *)
Definition F_src_cid : nat * nat := (0, 8)%nat.
Definition F_dst_cid : nat * nat := (8, 8)%nat.
Definition F_src_port : nat * nat := (16, 4)%nat.
Definition F_dst_port : nat * nat := (20, 4)%nat.
Definition F_len : nat * nat := (24, 4)%nat.
Definition F_type : nat * nat := (28, 2)%nat.
Definition F_op : nat * nat := (30, 2)%nat.
Definition F_flags : nat * nat := (32, 4)%nat.
Definition F_buf_alloc : nat * nat := (36, 4)%nat.
Definition F_fwd_cnt : nat * nat := (40, 4)%nat.

Definition le_num (l : list N) : N := fold_right (fun b acc => b + 256 * acc) 0 l.
Definition field (b : list N) (f : nat * nat) : N := le_num (firstn (snd f) (skipn (fst f) b)).

Definition spec_dec (b : list N) : option hdr :=
  if lenN b <? 44 then None
  else Some (mkHdr (field b F_src_cid) (field b F_dst_cid) (field b F_src_port) (field b F_dst_port)
                   (field b F_len) (field b F_type) (field b F_op) (field b F_flags)
                   (field b F_buf_alloc) (field b F_fwd_cnt)).

(* ---- (b) bounded FIFO byte queue ---- *)
Definition fifo_add (cap : N) (q bytes : list N) : option (list N) :=
  if lenN bytes <=? cap - lenN q then Some (q ++ bytes) else None.
Definition fifo_drain (q : list N) (n : N) : list N * list N :=
  let k := N.to_nat (N.min n (lenN q)) in (firstn k q, skipn k q).

(* monitor of a stand-alone ring buffer: state = (capacity, queue) *)
(* add: observed answer `ok`; drain: observed count and bytes *)
Definition mon_fifo_add (cap : N) (q bytes : list N) (ok : bool) : list N * bool :=
  match fifo_add cap q bytes with
  | Some q' => (q', ok)
  | None => (q, negb ok)
  end.
Definition list_eqb (a b : list N) : bool :=
  (lenN a =? lenN b) && forallb (fun p => fst p =? snd p) (combine a b).
Definition mon_fifo_drain (q : list N) (out_len n : N) (bytes : list N) : list N * bool :=
  let '(exp, q') := fifo_drain q out_len in
  (q', (n =? lenN exp) && list_eqb bytes exp).

(* ---- (c) the reference observer of one stream connection ---- *)
Record sspec := mkS {
  s_guest_cid : N; s_peer_cid : N; s_peer_port : N; s_local_port : N;
  s_cap : N;          (* the receive buffer space the driver has for this connection *)
  (* receive direction (peer -> driver) *)
  s_rx_base : N;      (* value of the driver's fwd_cnt field at the start of the history *)
  s_sent : N;         (* S: payload bytes of the peer the driver has been given so far *)
  s_delivered : N;    (* D: payload bytes the application has read *)
  s_fifo : list N;    (* the S - D bytes in between, in order *)
  s_adv_alloc : N;    (* buf_alloc and fwd_cnt fields of the last packet the driver sent, *)
  s_adv_fwd : N;      (*   i.e. what the peer bases its credit on (32-bit values as on the wire) *)
  (* transmit direction (driver -> peer) *)
  s_tx_base : N;      (* value of the peer's fwd_cnt field at the start of the history *)
  s_tx_total : N;     (* T: payload bytes the driver has sent *)
  s_peer_fwd : N;     (* F: how many of them the peer has reported as consumed *)
  s_peer_alloc : N;   (* the peer's buf_alloc as last reported *)
  s_req : bool        (* a credit request has been sent and no credit update has arrived since *)
}.

Definition spec_init (guest peer_cid peer_port local_port cap rx_base tx_base inflight alloc : N) (req : bool) : sspec :=
  mkS guest peer_cid peer_port local_port cap rx_base 0 0 [] cap (w32 rx_base)
      tx_base inflight 0 alloc req.

(* 5.10.6.3: "peer_free = peer_buf_alloc - (tx_cnt - peer_fwd_cnt)" evaluated by the PEER on the
   32-bit fields of the last packet it saw from the driver; its own tx_cnt is rx_base + S *)
Definition peer_credit (st : sspec) : N :=
  s_adv_alloc st - sub32 (w32 (s_rx_base st + s_sent st)) (s_adv_fwd st).
(* the same rule for the driver as sender, with unbounded counters *)
Definition tx_free (st : sspec) : N := s_peer_alloc st - (s_tx_total st - s_peer_fwd st).

(* an observed packet: the 44 header bytes, the number of payload bytes following them in the
   chain, and whether those bytes are the caller's bytes *)
Definition opkt : Type := (list N * N * bool)%type.

(* every packet of the connection: addressing, stream type, the driver's CURRENT buffer allocation
   and forwarded count, and the credit it implies to the peer does not exceed the free space *)
Definition pkt_fields_ok (st : sspec) (h : hdr) : bool :=
  (h_src_cid h =? s_guest_cid st) && (h_dst_cid h =? s_peer_cid st)
  && (h_src_port h =? s_local_port st) && (h_dst_port h =? s_peer_port st)
  && (h_type h =? TYPE_STREAM)
  && (h_buf_alloc h =? s_cap st) && (h_fwd_cnt h =? w32 (s_rx_base st + s_delivered st))
  && (h_buf_alloc h - sub32 (w32 (s_rx_base st + s_sent st)) (h_fwd_cnt h) <=? s_cap st - lenN (s_fifo st)).

Definition saw (st : sspec) (h : hdr) : sspec :=
  mkS (s_guest_cid st) (s_peer_cid st) (s_peer_port st) (s_local_port st) (s_cap st)
      (s_rx_base st) (s_sent st) (s_delivered st) (s_fifo st) (h_buf_alloc h) (h_fwd_cnt h)
      (s_tx_base st) (s_tx_total st) (s_peer_fwd st) (s_peer_alloc st) (s_req st).
Definition set_tx (st : sspec) (t f a : N) (r : bool) : sspec :=
  mkS (s_guest_cid st) (s_peer_cid st) (s_peer_port st) (s_local_port st) (s_cap st)
      (s_rx_base st) (s_sent st) (s_delivered st) (s_fifo st) (s_adv_alloc st) (s_adv_fwd st)
      (s_tx_base st) t f a r.
Definition set_rx (st : sspec) (s d : N) (q : list N) : sspec :=
  mkS (s_guest_cid st) (s_peer_cid st) (s_peer_port st) (s_local_port st) (s_cap st)
      (s_rx_base st) s d q (s_adv_alloc st) (s_adv_fwd st)
      (s_tx_base st) (s_tx_total st) (s_peer_fwd st) (s_peer_alloc st) (s_req st).

(* a control packet (no payload) with the given op *)
Definition ctrl_ok (st : sspec) (p : opkt) (op : N) : option hdr :=
  let '(b, plen, _) := p in
  match spec_dec b with
  | Some h => if pkt_fields_ok st h && (h_op h =? op) && (h_len h =? 0) && (plen =? 0) then Some h else None
  | None => None
  end.

(* --- send(len): class 0 = Ok, 1 = Err code, 2 = panic --- *)
Definition mon_send (st : sspec) (len class code : N) (pkts : list opkt) : sspec * bool :=
  if len <=? tx_free st then
    (* enough credit: the send must succeed with exactly one RW packet carrying the payload *)
    match pkts with
    | [(b, plen, intact)] =>
        match spec_dec b with
        | Some h =>
            let ok := (class =? 0) && pkt_fields_ok st h && (h_op h =? OP_RW) && (h_len h =? len)
                      && (plen =? len) && intact in
            (if ok then set_tx (saw st h) (s_tx_total st + len) (s_peer_fwd st) (s_peer_alloc st) (s_req st) else st, ok)
        | None => (st, false)
        end
    | _ => (st, false)
    end
  else
    (* refused, nothing sent but at most one credit request until the next credit update *)
    if (class =? 1) && (code =? SE_InsufficientBufferSpaceInPeer) then
      if s_req st then (st, match pkts with [] => true | _ => false end)
      else match pkts with
           | [p] => match ctrl_ok st p OP_CREDIT_REQUEST with
                    | Some h => (set_tx (saw st h) (s_tx_total st) (s_peer_fwd st) (s_peer_alloc st) true, true)
                    | None => (st, false)
                    end
           | _ => (st, false)
           end
    else (st, false).

(* --- a packet from the peer carrying (alloc, fwd_cnt = tx_base + F + k) is polled:
       the environment part of every peer packet --- *)
Definition peer_reports (st : sspec) (alloc k : N) (is_credit_update : bool) : sspec :=
  set_tx st (s_tx_total st) (s_peer_fwd st + k) alloc (if is_credit_update then false else s_req st).
(* the 32-bit fwd_cnt field the peer writes *)
Definition peer_fwd_field (st : sspec) (k : N) : N := w32 (s_tx_base st + s_peer_fwd st + k).

(* control packet from the peer: op 2 (response), 6 (credit update), 7 (credit request) *)
Definition mon_peer_ctrl (st : sspec) (op alloc k class : N) (has_event : bool) (pkts : list opkt) : sspec * bool :=
  let st1 := peer_reports st alloc k (op =? OP_CREDIT_UPDATE) in
  if op =? OP_CREDIT_REQUEST then
    (* the driver answers with a credit update carrying its current numbers *)
    match pkts with
    | [p] => match ctrl_ok st1 p OP_CREDIT_UPDATE with
             | Some h => (saw st1 h, (class =? 0) && negb has_event)
             | None => (st1, false)
             end
    | _ => (st1, false)
    end
  else (st1, (class =? 0) && has_event && match pkts with [] => true | _ => false end).

(* data packet from the peer. honest = the peer stayed within the credit of the last packet it saw *)
Definition mon_peer_data (st : sspec) (bytes : list N) (alloc k class : N) (pkts : list opkt) : sspec * bool :=
  let honest := lenN bytes <=? peer_credit st in
  let st1 := peer_reports st alloc k false in
  let st2 := if class =? 0 then set_rx st1 (s_sent st1 + lenN bytes) (s_delivered st1) (s_fifo st1 ++ bytes) else st1 in
  (st2, if honest then (class =? 0) && match pkts with [] => true | _ => false end else true).

(* recv(out_len) returned n bytes *)
Definition mon_recv (st : sspec) (out_len class n : N) (bytes : list N) (pkts : list opkt) : sspec * bool :=
  let '(exp, q') := fifo_drain (s_fifo st) out_len in
  let ok := (class =? 0) && (n =? lenN exp) && list_eqb bytes exp && match pkts with [] => true | _ => false end in
  (if ok then set_rx st (s_sent st) (s_delivered st + n) q' else st, ok).

(* update_credit(): one credit update packet with the current numbers *)
Definition mon_update_credit (st : sspec) (class : N) (pkts : list opkt) : sspec * bool :=
  match pkts with
  | [p] => match ctrl_ok st p OP_CREDIT_UPDATE with
           | Some h => (saw st h, class =? 0)
           | None => (st, false)
           end
  | _ => (st, false)
  end.

(* any other packet of the connection (connection request, shutdown, reset): fields only *)
Definition mon_other_pkt (st : sspec) (p : opkt) : sspec * bool :=
  let '(b, plen, _) := p in
  match spec_dec b with
  | Some h => (saw st h, pkt_fields_ok st h && (h_len h =? 0) && (plen =? 0))
  | None => (st, false)
  end.
