(* The vsock connection manager of src/device/socket/connectionmanager.rs as an executable state machine,  *)
(* together with the parts of src/device/socket/vsock.rs and protocol.rs it is built on:                   *)
(*   - the 44-byte little-endian packet header (VirtioVsockHdr), read_header_and_body,                     *)
(*   - VsockEvent::from_header and VsockEvent::matches_connection,                                         *)
(*   - ConnectionInfo (new, update_for_event, done_forwarding, peer_free, new_header),                     *)
(*   - the VirtIOSocket operations that emit packets (connect, accept, send with its credit check,        *)
(*     credit_update, shutdown, force_close),                                                              *)
(*   - VsockConnectionManager: the `connections` vector (find-first lookup, push, swap_remove), the        *)
(*     `listening_ports` vector, every public operation and poll's dispatch on every event type.           *)
(* What is abstract here (property C17's business): the per-connection ring buffer is a byte list with a   *)
(* capacity (RingBuffer's wrap-around copy is not modelled), and the credit counters are plain fields      *)
(* updated exactly as the code updates them (wrapping in release, overflow panic in debug).                *)
(* A packet handed to the tx queue is an output event (header, payload); the tx virtqueue itself          *)
(* (add_notify_wait_pop) is the business of C03/C05. cm_step assumes it accepts every packet; cm_step_tx    *)
(* takes the outcome of the transmission (Ok / add failed / pop_used failed) as an input and follows the    *)
(* `?` of every call site.                                                                                  *)
(* The rx side is layered on the OwningQueue model (Model/Owning.v): vsock_rx_poll below.                  *)
From VD Require Import Base.Words Model.Queue Model.Owning.

(* ---------- error codes ---------- *)
(* SocketError (src/device/socket/error.rs), flattened into the Err code of `outcome`:                     *)
(* Error::SocketDeviceError(e) = 100 + code e + 256 * payload e                                            *)
Definition SE_ConnectionExists : N := 1.
Definition SE_NotConnected : N := 2.
Definition SE_PeerSocketShutdown : N := 3.
Definition SE_BufferTooShort : N := 4.
Definition SE_OutputBufferTooShort : N := 5.
Definition SE_BufferTooLong : N := 6.
Definition SE_UnknownOperation : N := 7.
Definition SE_InvalidOperation : N := 8.
Definition SE_InvalidNumber : N := 9.
Definition SE_UnexpectedDataInPacket : N := 10.
Definition SE_InsufficientBufferSpaceInPeer : N := 11.
Definition SE_RecycledWrongBuffer : N := 12.
Definition serr (code arg : N) : N := 100 + code + 256 * arg.

(* ---------- wire format (protocol.rs) ---------- *)
Definition VOP_INVALID : N := 0.
Definition VOP_REQUEST : N := 1.
Definition VOP_RESPONSE : N := 2.
Definition VOP_RST : N := 3.
Definition VOP_SHUTDOWN : N := 4.
Definition VOP_RW : N := 5.
Definition VOP_CREDIT_UPDATE : N := 6.
Definition VOP_CREDIT_REQUEST : N := 7.
Definition VSOCK_TYPE_STREAM : N := 1.
Definition HDR_SIZE : N := 44.

Record vaddr := mkAddr { a_cid : N; a_port : N }.
Definition addr_eqb (a b : vaddr) : bool := (a_cid a =? a_cid b) && (a_port a =? a_port b).

Record vhdr := mkHdr {
  vh_src_cid : N; vh_dst_cid : N; vh_src_port : N; vh_dst_port : N; vh_len : N;
  vh_type : N; vh_op : N; vh_flags : N; vh_buf_alloc : N; vh_fwd_cnt : N }.

(* a packet on a queue: header and payload bytes *)
Definition pkt : Type := vhdr * list N.

Fixpoint le_bytes (k : nat) (v : N) : list N :=
  match k with O => [] | S k' => (v mod 256) :: le_bytes k' (v / 256) end.
Fixpoint le_value (l : list N) : N :=
  match l with [] => 0 | b :: t => b + 256 * le_value t end.
Definition le_field (l : list N) (off len : nat) : N := le_value (firstn len (skipn off l)).

Definition encode_hdr (h : vhdr) : list N :=
  le_bytes 8 (vh_src_cid h) ++ le_bytes 8 (vh_dst_cid h) ++ le_bytes 4 (vh_src_port h) ++ le_bytes 4 (vh_dst_port h)
  ++ le_bytes 4 (vh_len h) ++ le_bytes 2 (vh_type h) ++ le_bytes 2 (vh_op h) ++ le_bytes 4 (vh_flags h)
  ++ le_bytes 4 (vh_buf_alloc h) ++ le_bytes 4 (vh_fwd_cnt h).
Definition decode_hdr (l : list N) : vhdr :=
  mkHdr (le_field l 0 8) (le_field l 8 8) (le_field l 16 4) (le_field l 20 4) (le_field l 24 4)
        (le_field l 28 2) (le_field l 30 2) (le_field l 32 4) (le_field l 36 4) (le_field l 40 4).
Definition encode_pkt (p : pkt) : list N := encode_hdr (fst p) ++ snd p.

(* min (k, |l|) as a nat: never N.to_nat of an unbounded number *)
Definition cntN {A} (k : N) (l : list A) : nat := N.to_nat (N.min k (lenN l)).

(* vsock.rs read_header_and_body; inl = Ok, inr = the Error code.  checked_add cannot overflow: the length
   field is 32 bits wide and usize has 64 *)
Definition read_header_and_body (buffer : list N) : (vhdr * list N) + N :=
  if lenN buffer <? HDR_SIZE then inr (serr SE_BufferTooShort 0)
  else
    let h := decode_hdr buffer in
    let data_end := HDR_SIZE + vh_len h in
    if lenN buffer <? data_end then inr (serr SE_BufferTooShort 0)
    else inl (h, firstn (cntN (vh_len h) (skipn 44 buffer)) (skipn 44 buffer)).

(* ---------- events (vsock.rs) ---------- *)
Inductive etype :=
| EtRequest
| EtConnected
| EtDisconnected (shutdown : bool)     (* false = DisconnectReason::Reset, true = ::Shutdown *)
| EtReceived (len : N)
| EtCreditRequest
| EtCreditUpdate.

Record event := mkEvent {
  ev_src : vaddr; ev_dst : vaddr; ev_buf_alloc : N; ev_fwd_cnt : N; ev_type : etype }.

Definition check_data_is_empty (h : vhdr) : bool := vh_len h =? 0.

(* VsockEvent::from_header: op() first (unknown codes), then per operation *)
Definition event_from_header (h : vhdr) : event + N :=
  let op := vh_op h in
  let mk t := mkEvent (mkAddr (vh_src_cid h) (vh_src_port h)) (mkAddr (vh_dst_cid h) (vh_dst_port h))
                      (vh_buf_alloc h) (vh_fwd_cnt h) t in
  let empty_then t := if check_data_is_empty h then inl (mk t) else inr (serr SE_UnexpectedDataInPacket 0) in
  if 7 <? op then inr (serr SE_UnknownOperation op)
  else if op =? VOP_REQUEST then empty_then EtRequest
  else if op =? VOP_RESPONSE then empty_then EtConnected
  else if op =? VOP_CREDIT_UPDATE then empty_then EtCreditUpdate
  else if op =? VOP_RST then empty_then (EtDisconnected false)
  else if op =? VOP_SHUTDOWN then empty_then (EtDisconnected true)
  else if op =? VOP_RW then inl (mk (EtReceived (vh_len h)))
  else if op =? VOP_CREDIT_REQUEST then empty_then EtCreditRequest
  else inr (serr SE_InvalidOperation 0).

(* ---------- ConnectionInfo ---------- *)
(* the flow-control fields; C17 owns their arithmetic *)
Record credit := mkCredit {
  cr_peer_buf_alloc : N; cr_peer_fwd_cnt : N; cr_tx_cnt : N; cr_buf_alloc : N; cr_fwd_cnt : N;
  cr_pending : bool (* has_pending_credit_request *) }.

Definition credit_new (buf_alloc : N) : credit := mkCredit 0 0 0 buf_alloc 0 false.

(* update_for_event *)
Definition credit_update_for_event (cr : credit) (ev : event) : credit :=
  mkCredit (ev_buf_alloc ev) (ev_fwd_cnt ev) (cr_tx_cnt cr) (cr_buf_alloc cr) (cr_fwd_cnt cr)
           (match ev_type ev with EtCreditUpdate => false | _ => cr_pending cr end).

(* the free-running counters are advanced with wrapping_add since the repair aa9c67a (C17, F7): both cargo
   profiles wrap; the option and the mode argument are kept so that callers need not change *)
Definition plus32 (md : mode) (a b : N) : option N := Some (w32 (a + b)).
(* plain `-` on u32 *)
Definition minus32 (md : mode) (a b : N) : option N :=
  match md with
  | Debug => if a <? b then None else Some (a - b)
  | Release => Some (sub32 a b)
  end.

(* done_forwarding: fwd_cnt += length as u32 *)
Definition credit_done_forwarding (md : mode) (cr : credit) (n : N) : option credit :=
  match plus32 md (cr_fwd_cnt cr) (w32 n) with
  | None => None
  | Some v => Some (mkCredit (cr_peer_buf_alloc cr) (cr_peer_fwd_cnt cr) (cr_tx_cnt cr) (cr_buf_alloc cr) v (cr_pending cr))
  end.

(* peer_free: peer_buf_alloc.saturating_sub(tx_cnt.wrapping_sub(peer_fwd_cnt)) (repairs aa9c67a, 0cfd2c6) *)
Definition credit_peer_free (md : mode) (cr : credit) : option N :=
  let d := sub32 (cr_tx_cnt cr) (cr_peer_fwd_cnt cr) in
  Some (if cr_peer_buf_alloc cr <? d then 0 else cr_peer_buf_alloc cr - d).

Definition credit_add_tx (md : mode) (cr : credit) (len : N) : option credit :=
  match plus32 md (cr_tx_cnt cr) len with
  | None => None
  | Some v => Some (mkCredit (cr_peer_buf_alloc cr) (cr_peer_fwd_cnt cr) v (cr_buf_alloc cr) (cr_fwd_cnt cr) (cr_pending cr))
  end.

Definition credit_set_pending (cr : credit) : credit :=
  mkCredit (cr_peer_buf_alloc cr) (cr_peer_fwd_cnt cr) (cr_tx_cnt cr) (cr_buf_alloc cr) (cr_fwd_cnt cr) true.

Record cinfo := mkInfo { ci_dst : vaddr; ci_src_port : N; ci_cr : credit }.

(* new_header, completed with the operation-specific fields the callers set *)
Definition new_header (ci : cinfo) (src_cid op len flags : N) : vhdr :=
  mkHdr src_cid (a_cid (ci_dst ci)) (ci_src_port ci) (a_port (ci_dst ci)) len VSOCK_TYPE_STREAM op flags
        (cr_buf_alloc (ci_cr ci)) (cr_fwd_cnt (ci_cr ci)).

(* VsockEvent::matches_connection *)
Definition matches_connection (ev : event) (ci : cinfo) (guest_cid : N) : bool :=
  addr_eqb (ev_src ev) (ci_dst ci) && (a_cid (ev_dst ev) =? guest_cid) && (a_port (ev_dst ev) =? ci_src_port ci).

(* ---------- RingBuffer, abstractly: the bytes in FIFO order under a capacity ---------- *)
(* add: all or nothing *)
Definition rb_add (cap : N) (buf bytes : list N) : option (list N) :=
  if cap - lenN buf <? lenN bytes then None else Some (buf ++ bytes).

(* ---------- Connection, VsockConnectionManager ---------- *)
Record conn := mkConn { cn_info : cinfo; cn_buf : list N; cn_est : bool; cn_shut : bool (* peer_requested_shutdown *) }.

(* Connection::new: info.buf_alloc = buffer capacity *)
Definition conn_new (peer : vaddr) (local_port cap : N) : conn :=
  mkConn (mkInfo peer local_port (credit_new cap)) [] false false.

Definition set_cr (c : conn) (cr : credit) : conn :=
  mkConn (mkInfo (ci_dst (cn_info c)) (ci_src_port (cn_info c)) cr) (cn_buf c) (cn_est c) (cn_shut c).
Definition set_buf (c : conn) (b : list N) : conn := mkConn (cn_info c) b (cn_est c) (cn_shut c).
Definition set_est (c : conn) : conn := mkConn (cn_info c) (cn_buf c) true (cn_shut c).
Definition set_shut (c : conn) : conn := mkConn (cn_info c) (cn_buf c) (cn_est c) true.

(* m_cap = per_connection_buffer_capacity (never changes; every ring buffer is created with it);
   m_rxsz = RX_BUFFER_SIZE; m_cid = guest_cid read from config space at construction *)
Record cm := mkCm { m_cid : N; m_cap : N; m_rxsz : N; m_conns : list conn; m_listen : list N }.
Definition cm_new (cid cap rxsz : N) : cm := mkCm cid cap rxsz [] [].
Definition set_conns (m : cm) (l : list conn) : cm := mkCm (m_cid m) (m_cap m) (m_rxsz m) l (m_listen m).
Definition set_listen (m : cm) (l : list N) : cm := mkCm (m_cid m) (m_cap m) (m_rxsz m) (m_conns m) l.

Definition memN (x : N) (l : list N) : bool := existsb (N.eqb x) l.

(* iter().enumerate().find(pred): first match and its index *)
Fixpoint find_idx {A} (f : A -> bool) (l : list A) : option (nat * A) :=
  match l with
  | [] => None
  | x :: t => if f x then Some (O, x)
              else match find_idx f t with Some (i, y) => Some (S i, y) | None => None end
  end.

(* Vec::swap_remove(i): the last element takes the place of element i *)
Definition swap_remove {A} (l : list A) (i : nat) : list A :=
  match l with
  | [] => []
  | x :: _ => removelast (upd l i (last l x))
  end.

Definition get_pred (peer : vaddr) (local_port : N) (c : conn) : bool :=
  addr_eqb (ci_dst (cn_info c)) peer && (ci_src_port (cn_info c) =? local_port).
(* get_connection; None = Err(NotConnected) *)
Definition get_connection (conns : list conn) (peer : vaddr) (local_port : N) : option (nat * conn) :=
  find_idx (get_pred peer local_port) conns.
Definition get_connection_for_event (conns : list conn) (ev : event) (local_cid : N) : option (nat * conn) :=
  find_idx (fun c => matches_connection ev (cn_info c) local_cid) conns.

(* values returned to the caller *)
Inductive rval :=
| VUnit
| VNum (n : N)
| VBytes (l : list N)
| VEvent (e : option event).

Definition result : Type := cm * outcome rval * list pkt.
Definition NotConnected {A} : outcome A := Err (serr SE_NotConnected 0).

Definition cm_is_local_port_used (m : cm) (port : N) : bool :=
  if memN port (m_listen m) then true
  else existsb (fun c => ci_src_port (cn_info c) =? port) (m_conns m).

Definition cm_is_connection_established (m : cm) (dest : vaddr) (sp : N) : result :=
  match get_connection (m_conns m) dest sp with
  | None => (m, NotConnected, [])
  | Some (_, c) => (m, Ok (VNum (b2n (cn_est c))), [])
  end.

Definition cm_listen (m : cm) (port : N) : cm :=
  if memN port (m_listen m) then m else set_listen m (m_listen m ++ [port]).
Definition cm_unlisten (m : cm) (port : N) : cm :=
  set_listen m (filter (fun p => negb (p =? port)) (m_listen m)).

Definition cm_connect (m : cm) (dest : vaddr) (sp : N) : result :=
  if existsb (get_pred dest sp) (m_conns m) then (m, Err (serr SE_ConnectionExists 0), [])
  else
    let c := conn_new dest sp (m_cap m) in
    (set_conns m (m_conns m ++ [c]), Ok VUnit, [(new_header (cn_info c) (m_cid m) VOP_REQUEST 0 0, [])]).

(* send -> VirtIOSocket::send -> check_peer_buffer_is_sufficient / request_credit *)
Definition cm_send (md : mode) (m : cm) (dest : vaddr) (sp : N) (data : list N) : result :=
  match get_connection (m_conns m) dest sp with
  | None => (m, NotConnected, [])
  | Some (i, c) =>
      if cn_shut c then (m, Err (serr SE_PeerSocketShutdown 0), [])
      else
        let cr := ci_cr (cn_info c) in
        match credit_peer_free md cr with
        | None => (m, Panic, [])
        | Some pf =>
            if lenN data <=? pf then
              let len := w32 (lenN data) in
              let h := new_header (cn_info c) (m_cid m) VOP_RW len 0 in
              match credit_add_tx md cr len with
              | None => (m, Panic, [])
              | Some cr' => (set_conns m (upd (m_conns m) i (set_cr c cr')), Ok VUnit, [(h, data)])
              end
            else if cr_pending cr then (m, Err (serr SE_InsufficientBufferSpaceInPeer 0), [])
            else (set_conns m (upd (m_conns m) i (set_cr c (credit_set_pending cr))),
                  Err (serr SE_InsufficientBufferSpaceInPeer 0),
                  [(new_header (cn_info c) (m_cid m) VOP_CREDIT_REQUEST 0 0, [])])
        end
  end.

(* recv: `n` is the length of the caller's buffer *)
Definition cm_recv (md : mode) (m : cm) (peer : vaddr) (sp : N) (n : N) : result :=
  match get_connection (m_conns m) peer sp with
  | None => (m, NotConnected, [])
  | Some (i, c) =>
      let k := cntN n (cn_buf c) in
      let out := firstn k (cn_buf c) in
      let c1 := set_buf c (skipn k (cn_buf c)) in
      match credit_done_forwarding md (ci_cr (cn_info c1)) (lenN out) with
      | None => (set_conns m (upd (m_conns m) i c1), Panic, [])
      | Some cr' =>
          let c2 := set_cr c1 cr' in
          let conns2 := upd (m_conns m) i c2 in
          if cn_shut c2 && (lenN (cn_buf c2) =? 0) then
            (set_conns m (swap_remove conns2 i), Ok (VBytes out), [(new_header (cn_info c2) (m_cid m) VOP_RST 0 0, [])])
          else (set_conns m conns2, Ok (VBytes out), [])
      end
  end.

Definition cm_recv_buffer_available_bytes (m : cm) (peer : vaddr) (sp : N) : result :=
  match get_connection (m_conns m) peer sp with
  | None => (m, NotConnected, [])
  | Some (_, c) => (m, Ok (VNum (lenN (cn_buf c))), [])
  end.

Definition cm_update_credit (m : cm) (peer : vaddr) (sp : N) : result :=
  match get_connection (m_conns m) peer sp with
  | None => (m, NotConnected, [])
  | Some (_, c) =>
      if cn_shut c then (m, Err (serr SE_PeerSocketShutdown 0), [])
      else (m, Ok VUnit, [(new_header (cn_info c) (m_cid m) VOP_CREDIT_UPDATE 0 0, [])])
  end.

(* StreamShutdown::SEND | StreamShutdown::RECEIVE = 3 *)
Definition cm_shutdown (m : cm) (dest : vaddr) (sp : N) : result :=
  match get_connection (m_conns m) dest sp with
  | None => (m, NotConnected, [])
  | Some (_, c) => (m, Ok VUnit, [(new_header (cn_info c) (m_cid m) VOP_SHUTDOWN 0 3, [])])
  end.

Definition cm_force_close (m : cm) (dest : vaddr) (sp : N) : result :=
  match get_connection (m_conns m) dest sp with
  | None => (m, NotConnected, [])
  | Some (i, c) =>
      (set_conns m (swap_remove (m_conns m) i), Ok VUnit, [(new_header (cn_info c) (m_cid m) VOP_RST 0 0, [])])
  end.

(* ---- poll ---- *)
(* the closure passed to VirtIOSocket::poll *)
Definition cm_handler (m : cm) (ev : event) (body : list N) : cm * outcome (option event) :=
  let conns := m_conns m in
  let pick : option (list conn * nat * conn) :=
    match get_connection_for_event conns ev (m_cid m) with
    | Some (i, c) => Some (conns, i, c)
    | None =>
        match ev_type ev with
        | EtRequest =>
            (* `connection.is_some() ||` is false on this branch *)
            if negb (a_cid (ev_dst ev) =? m_cid m) then None
            else
              let c := conn_new (ev_src ev) (a_port (ev_dst ev)) (m_cap m) in
              Some (conns ++ [c], length conns, c)     (* push; last_mut *)
        | _ => None
        end
    end in
  match pick with
  | None => (m, Ok None)
  | Some (conns1, i, c) =>
      let c1 := set_cr c (credit_update_for_event (ci_cr (cn_info c)) ev) in
      match ev_type ev with
      | EtReceived length =>
          match rb_add (m_cap m) (cn_buf c1) body with
          | None => (set_conns m (upd conns1 i c1), Err (serr SE_OutputBufferTooShort length))
          | Some b => (set_conns m (upd conns1 i (set_buf c1 b)), Ok (Some ev))
          end
      | _ => (set_conns m (upd conns1 i c1), Ok (Some ev))
      end
  end.

(* the part of poll after the driver returned Some(event) *)
Definition cm_after (m : cm) (ev : event) : result :=
  match get_connection_for_event (m_conns m) ev (m_cid m) with
  | None => (m, Panic, [])                                   (* .unwrap() *)
  | Some (i, c) =>
      match ev_type ev with
      | EtRequest =>
          if memN (a_port (ev_dst ev)) (m_listen m) then
            (set_conns m (upd (m_conns m) i (set_est c)), Ok (VEvent (Some ev)),
             [(new_header (cn_info c) (m_cid m) VOP_RESPONSE 0 0, [])])
          else
            (set_conns m (swap_remove (m_conns m) i), Ok (VEvent None),
             [(new_header (cn_info c) (m_cid m) VOP_RST 0 0, [])])
      | EtConnected => (set_conns m (upd (m_conns m) i (set_est c)), Ok (VEvent (Some ev)), [])
      | EtDisconnected shutdown =>
          if lenN (cn_buf c) =? 0 then
            (set_conns m (swap_remove (m_conns m) i), Ok (VEvent (Some ev)),
             if shutdown then [(new_header (cn_info c) (m_cid m) VOP_RST 0 0, [])] else [])
          else (set_conns m (upd (m_conns m) i (set_shut c)), Ok (VEvent (Some ev)), [])
      | EtReceived _ => (m, Ok (VEvent (Some ev)), [])
      | EtCreditRequest => (m, Ok (VEvent None), [(new_header (cn_info c) (m_cid m) VOP_CREDIT_UPDATE 0 0, [])])
      | EtCreditUpdate => (m, Ok (VEvent (Some ev)), [])
      end
  end.

(* poll on the bytes of one completed rx buffer (buffer[0..len]) *)
Definition cm_rx (m : cm) (buffer : list N) : result :=
  match read_header_and_body buffer with
  | inr e => (m, Err e, [])
  | inl (h, body) =>
      match event_from_header h with
      | inr e => (m, Err e, [])
      | inl ev =>
          let '(m1, r) := cm_handler m ev body in
          match r with
          | Ok (Some ev') => cm_after m1 ev'
          | Ok None => (m1, Ok (VEvent None), [])
          | Err e => (m1, Err e, [])
          | Panic => (m1, Panic, [])
          | UB => (m1, UB, [])
          end
      end
  end.

(* poll: rx = None when no completion is pending, else the used length and the bytes the buffer holds.
   OwningQueue::poll refuses a used length above RX_BUFFER_SIZE (the buffer goes back all the same) *)
Definition cm_poll (m : cm) (rx : option (N * list N)) : result :=
  match rx with
  | None => (m, Ok (VEvent None), [])
  | Some (ulen, bytes) =>
      if m_rxsz m <? ulen then (m, Err EIoError, [])
      else cm_rx m (firstn (cntN ulen bytes) bytes)
  end.

(* ---------- one step of the public interface ---------- *)
Inductive cop :=
| OpListen (p : N)
| OpUnlisten (p : N)
| OpConnect (peer : vaddr) (lp : N)
| OpSend (peer : vaddr) (lp : N) (data : list N)
| OpRecv (peer : vaddr) (lp : N) (n : N)
| OpAvail (peer : vaddr) (lp : N)
| OpEstablished (peer : vaddr) (lp : N)
| OpUpdateCredit (peer : vaddr) (lp : N)
| OpShutdown (peer : vaddr) (lp : N)
| OpForceClose (peer : vaddr) (lp : N)
| OpPortUsed (p : N)
| OpPoll (rx : option (N * list N)).

Definition cm_step (md : mode) (m : cm) (o : cop) : result :=
  match o with
  | OpListen p => (cm_listen m p, Ok VUnit, [])
  | OpUnlisten p => (cm_unlisten m p, Ok VUnit, [])
  | OpConnect peer lp => cm_connect m peer lp
  | OpSend peer lp data => cm_send md m peer lp data
  | OpRecv peer lp n => cm_recv md m peer lp n
  | OpAvail peer lp => cm_recv_buffer_available_bytes m peer lp
  | OpEstablished peer lp => cm_is_connection_established m peer lp
  | OpUpdateCredit peer lp => cm_update_credit m peer lp
  | OpShutdown peer lp => cm_shutdown m peer lp
  | OpForceClose peer lp => cm_force_close m peer lp
  | OpPortUsed p => (m, Ok (VNum (b2n (cm_is_local_port_used m p))), [])
  | OpPoll rx => cm_poll m rx
  end.

(* a history: the outputs of every step, in order *)
Fixpoint cm_run (md : mode) (m : cm) (ops : list cop) : cm * list (outcome rval * list pkt) :=
  match ops with
  | [] => (m, [])
  | o :: rest =>
      let '(m1, r, tx) := cm_step md m o in
      let '(m2, outs) := cm_run md m1 rest in
      (m2, (r, tx) :: outs)
  end.

(* ---------- transmissions that FAIL ---------- *)
(* send_packet_to_tx_queue = VirtQueue::add_notify_wait_pop on the tx queue: `add(..)?` (QueueFull: nothing has been
   published, the device sees nothing), notify, wait for a used element, `pop_used(token, ..)` (WrongToken: the chain
   was published and the device has consumed it, but it completed another id; the chain's descriptors stay
   allocated and the used element stays unconsumed, which is the tx queue's business, C03/C05). The outcome of a
   transmission is decided by the environment (the device and the fill level of the queue) and is an INPUT here.   *)
Inductive txres :=
| TxOk
| TxAddFail (e : N)      (* `add` failed: nothing published *)
| TxPopFail (e : N).     (* published and consumed by the device, `pop_used` failed *)
(* `if buffer.is_empty() { one buffer } else { two buffers }`: a header-only packet needs one descriptor, a packet
   with a payload two (one with indirect descriptors), so the two shapes can meet different outcomes: the input
   gives the outcome for either shape *)
Definition txin : Type := txres * txres.
Definition tx_all_ok : txin := (TxOk, TxOk).
Definition tx_pick (ti : txin) (payload : list N) : txres := if lenN payload =? 0 then fst ti else snd ti.
Definition tx_err (t : txres) : option N := match t with TxOk => None | TxAddFail e => Some e | TxPopFail e => Some e end.
(* what the device gets to see of the packet *)
Definition tx_seen (t : txres) (p : pkt) : list pkt := match t with TxAddFail _ => [] | _ => [p] end.
(* send_packet_to_tx_queue(p): Some e = Err(e) *)
Definition tx_try (ti : txin) (p : pkt) : option N * list pkt :=
  let t := tx_pick ti (snd p) in (tx_err t, tx_seen t p).

(* The operations again, with the `?` of every transmission written out: what has ALREADY been changed when the
   error is returned stays changed. With tx_all_ok these are the functions above (Proofs: cm_step_tx_ok). *)
(* connect: the Connection is a local until `self.driver.connect(..)?` has succeeded *)
Definition cm_connect_tx (ti : txin) (m : cm) (dest : vaddr) (sp : N) : result :=
  if existsb (get_pred dest sp) (m_conns m) then (m, Err (serr SE_ConnectionExists 0), [])
  else
    let c := conn_new dest sp (m_cap m) in
    match tx_try ti (new_header (cn_info c) (m_cid m) VOP_REQUEST 0 0, []) with
    | (Some e, seen) => (m, Err e, seen)
    | (None, seen) => (set_conns m (m_conns m ++ [c]), Ok VUnit, seen)
    end.

(* VirtIOSocket::send: `connection_info.tx_cnt = tx_cnt.wrapping_add(len)` comes BEFORE send_packet_to_tx_queue;
   check_peer_buffer_is_sufficient: `self.request_credit(connection_info)?` comes before has_pending_credit_request = true *)
Definition cm_send_tx (md : mode) (ti : txin) (m : cm) (dest : vaddr) (sp : N) (data : list N) : result :=
  match get_connection (m_conns m) dest sp with
  | None => (m, NotConnected, [])
  | Some (i, c) =>
      if cn_shut c then (m, Err (serr SE_PeerSocketShutdown 0), [])
      else
        let cr := ci_cr (cn_info c) in
        match credit_peer_free md cr with
        | None => (m, Panic, [])
        | Some pf =>
            if lenN data <=? pf then
              let len := w32 (lenN data) in
              let h := new_header (cn_info c) (m_cid m) VOP_RW len 0 in
              match credit_add_tx md cr len with
              | None => (m, Panic, [])
              | Some cr' =>
                  let m' := set_conns m (upd (m_conns m) i (set_cr c cr')) in
                  match tx_try ti (h, data) with
                  | (Some e, seen) => (m', Err e, seen)
                  | (None, seen) => (m', Ok VUnit, seen)
                  end
              end
            else if cr_pending cr then (m, Err (serr SE_InsufficientBufferSpaceInPeer 0), [])
            else
              match tx_try ti (new_header (cn_info c) (m_cid m) VOP_CREDIT_REQUEST 0 0, []) with
              | (Some e, seen) => (m, Err e, seen)
              | (None, seen) => (set_conns m (upd (m_conns m) i (set_cr c (credit_set_pending cr))),
                                 Err (serr SE_InsufficientBufferSpaceInPeer 0), seen)
              end
        end
  end.

(* recv: drain and done_forwarding have happened when `self.driver.force_close(..)?` fails; the bytes copied into the
   caller's buffer are not reported (the call returns the error) and the connection is not removed *)
Definition cm_recv_tx (md : mode) (ti : txin) (m : cm) (peer : vaddr) (sp : N) (n : N) : result :=
  match get_connection (m_conns m) peer sp with
  | None => (m, NotConnected, [])
  | Some (i, c) =>
      let k := cntN n (cn_buf c) in
      let out := firstn k (cn_buf c) in
      let c1 := set_buf c (skipn k (cn_buf c)) in
      match credit_done_forwarding md (ci_cr (cn_info c1)) (lenN out) with
      | None => (set_conns m (upd (m_conns m) i c1), Panic, [])
      | Some cr' =>
          let c2 := set_cr c1 cr' in
          let conns2 := upd (m_conns m) i c2 in
          if cn_shut c2 && (lenN (cn_buf c2) =? 0) then
            match tx_try ti (new_header (cn_info c2) (m_cid m) VOP_RST 0 0, []) with
            | (Some e, seen) => (set_conns m conns2, Err e, seen)
            | (None, seen) => (set_conns m (swap_remove conns2 i), Ok (VBytes out), seen)
            end
          else (set_conns m conns2, Ok (VBytes out), [])
      end
  end.

Definition cm_update_credit_tx (ti : txin) (m : cm) (peer : vaddr) (sp : N) : result :=
  match get_connection (m_conns m) peer sp with
  | None => (m, NotConnected, [])
  | Some (_, c) =>
      if cn_shut c then (m, Err (serr SE_PeerSocketShutdown 0), [])
      else
        match tx_try ti (new_header (cn_info c) (m_cid m) VOP_CREDIT_UPDATE 0 0, []) with
        | (Some e, seen) => (m, Err e, seen)
        | (None, seen) => (m, Ok VUnit, seen)
        end
  end.

Definition cm_shutdown_tx (ti : txin) (m : cm) (dest : vaddr) (sp : N) : result :=
  match get_connection (m_conns m) dest sp with
  | None => (m, NotConnected, [])
  | Some (_, c) =>
      match tx_try ti (new_header (cn_info c) (m_cid m) VOP_SHUTDOWN 0 3, []) with
      | (Some e, seen) => (m, Err e, seen)
      | (None, seen) => (m, Ok VUnit, seen)
      end
  end.

(* force_close: `self.driver.force_close(..)?` comes before swap_remove *)
Definition cm_force_close_tx (ti : txin) (m : cm) (dest : vaddr) (sp : N) : result :=
  match get_connection (m_conns m) dest sp with
  | None => (m, NotConnected, [])
  | Some (i, c) =>
      match tx_try ti (new_header (cn_info c) (m_cid m) VOP_RST 0 0, []) with
      | (Some e, seen) => (m, Err e, seen)
      | (None, seen) => (set_conns m (swap_remove (m_conns m) i), Ok VUnit, seen)
      end
  end.

(* the part of poll after the driver returned Some(event): the closure (cm_handler) has already pushed the connection
   of a new request and recorded the peer's credit; every reply is sent with `?` BEFORE the transition it belongs to
   (established = true, swap_remove), so a reply that cannot be sent leaves the table as the closure left it *)
Definition cm_after_tx (ti : txin) (m : cm) (ev : event) : result :=
  match get_connection_for_event (m_conns m) ev (m_cid m) with
  | None => (m, Panic, [])
  | Some (i, c) =>
      match ev_type ev with
      | EtRequest =>
          if memN (a_port (ev_dst ev)) (m_listen m) then
            match tx_try ti (new_header (cn_info c) (m_cid m) VOP_RESPONSE 0 0, []) with
            | (Some e, seen) => (m, Err e, seen)
            | (None, seen) => (set_conns m (upd (m_conns m) i (set_est c)), Ok (VEvent (Some ev)), seen)
            end
          else
            match tx_try ti (new_header (cn_info c) (m_cid m) VOP_RST 0 0, []) with
            | (Some e, seen) => (m, Err e, seen)
            | (None, seen) => (set_conns m (swap_remove (m_conns m) i), Ok (VEvent None), seen)
            end
      | EtConnected => (set_conns m (upd (m_conns m) i (set_est c)), Ok (VEvent (Some ev)), [])
      | EtDisconnected shutdown =>
          if lenN (cn_buf c) =? 0 then
            if shutdown then
              match tx_try ti (new_header (cn_info c) (m_cid m) VOP_RST 0 0, []) with
              | (Some e, seen) => (m, Err e, seen)
              | (None, seen) => (set_conns m (swap_remove (m_conns m) i), Ok (VEvent (Some ev)), seen)
              end
            else (set_conns m (swap_remove (m_conns m) i), Ok (VEvent (Some ev)), [])
          else (set_conns m (upd (m_conns m) i (set_shut c)), Ok (VEvent (Some ev)), [])
      | EtReceived _ => (m, Ok (VEvent (Some ev)), [])
      | EtCreditRequest =>
          match tx_try ti (new_header (cn_info c) (m_cid m) VOP_CREDIT_UPDATE 0 0, []) with
          | (Some e, seen) => (m, Err e, seen)
          | (None, seen) => (m, Ok (VEvent None), seen)
          end
      | EtCreditUpdate => (m, Ok (VEvent (Some ev)), [])
      end
  end.

Definition cm_rx_tx (ti : txin) (m : cm) (buffer : list N) : result :=
  match read_header_and_body buffer with
  | inr e => (m, Err e, [])
  | inl (h, body) =>
      match event_from_header h with
      | inr e => (m, Err e, [])
      | inl ev =>
          let '(m1, r) := cm_handler m ev body in
          match r with
          | Ok (Some ev') => cm_after_tx ti m1 ev'
          | Ok None => (m1, Ok (VEvent None), [])
          | Err e => (m1, Err e, [])
          | Panic => (m1, Panic, [])
          | UB => (m1, UB, [])
          end
      end
  end.

Definition cm_poll_tx (ti : txin) (m : cm) (rx : option (N * list N)) : result :=
  match rx with
  | None => (m, Ok (VEvent None), [])
  | Some (ulen, bytes) =>
      if m_rxsz m <? ulen then (m, Err EIoError, [])
      else cm_rx_tx ti m (firstn (cntN ulen bytes) bytes)
  end.

Definition cm_step_tx (md : mode) (m : cm) (o : cop) (ti : txin) : result :=
  match o with
  | OpConnect peer lp => cm_connect_tx ti m peer lp
  | OpSend peer lp data => cm_send_tx md ti m peer lp data
  | OpRecv peer lp n => cm_recv_tx md ti m peer lp n
  | OpUpdateCredit peer lp => cm_update_credit_tx ti m peer lp
  | OpShutdown peer lp => cm_shutdown_tx ti m peer lp
  | OpForceClose peer lp => cm_force_close_tx ti m peer lp
  | OpPoll rx => cm_poll_tx ti m rx
  | _ => cm_step md m o          (* no transmission in listen / unlisten / the queries *)
  end.

(* a history in which every operation comes with the fate of the transmission it may make *)
Fixpoint cm_run_tx (md : mode) (m : cm) (ops : list (cop * txin)) : cm * list (outcome rval * list pkt) :=
  match ops with
  | [] => (m, [])
  | (o, ti) :: rest =>
      let '(m1, r, tx) := cm_step_tx md m o ti in
      let '(m2, outs) := cm_run_tx md m1 rest in
      (m2, (r, tx) :: outs)
  end.

(* ---------- the rx side on the OwningQueue model ---------- *)
(* VirtIOSocket::poll = OwningQueue::poll with the packet handler: pop, handler on buffer[0..len] (or IoError
   for an oversized length), re-add the buffer WHATEVER the handler returned, then the handler's result.
   The handler is any function of the driver state and the delivered length. *)
Definition vsock_rx_poll {S T : Type} (q : qstate) (bufsz u_idx u_id u_len addr ae uf : N)
    (st : S) (handler : S -> N -> S * outcome T) (nothing : T)
  : S * outcome T * qstate * list oev :=
  let '(o, q1, evs) := owning_pop q bufsz u_idx u_id u_len in
  match o with
  | Ok (Some (len, token)) =>
      let '(st1, result) := if bufsz <? len then (st, Err EIoError) else handler st len in
      let '(o2, q2, evs2) := owning_readd q1 bufsz token addr ae uf in
      (st1, match o2 with Ok _ => result | Err e => Err e | Panic => Panic | UB => UB end, q2, map OQ evs ++ evs2)
  | Ok None => (st, Ok nothing, q1, map OQ evs)
  | Err e => (st, Err e, q1, map OQ evs)
  | Panic => (st, Panic, q1, map OQ evs)
  | UB => (st, UB, q1, map OQ evs)
  end.
