(* OwningQueue (src/queue/owning.rs) on top of the virtqueue model: a queue kept stocked with   *)
(* SIZE driver-owned buffers of BUFFER_SIZE bytes, token i <-> buffer i.                         *)
From VD Require Import Base.Words Model.Queue.

Inductive oev :=
| OQ (e : qev)
| ONotify.

(* buffer i: identity i, length bufsz; addr is the share answer *)
Definition obuf (i bufsz addr : N) : ubuf := mkBuf i bufsz addr.

(* OwningQueue::new: add the buffers 0 .. SIZE-1, asserting token = index *)
Fixpoint owning_new_loop (addrs : list N) (i : N) (bufsz : N) (s : qstate)
  : outcome unit * qstate * list qev :=
  match addrs with
  | [] => (Ok tt, s, [])
  | a :: rest =>
      let '(o, s1, evs) := add s [] [obuf i bufsz a] 0 in
      match o with
      | Ok tok =>
          if tok =? i then
            let '(o2, s2, evs2) := owning_new_loop rest (i + 1) bufsz s1 in (o2, s2, evs ++ evs2)
          else (Panic, s1, evs)
      | Err e => (Err e, s1, evs)
      | Panic => (Panic, s1, evs)
      | UB => (UB, s1, evs)
      end
  end.

(* OwningQueue::pop: returns Some (len, token); the length is checked by poll *)
Definition owning_pop (s : qstate) (bufsz u_idx u_id u_len : N)
  : outcome (option (N * N)) * qstate * list qev :=
  match peek_used s u_idx u_id with
  | None => (Ok None, s, [])
  | Some token =>
      if q_size s <=? token then (Err EWrongToken, s, [])
      else
        let '(o, s1, evs) := pop_used s token [] [obuf token bufsz 0] u_idx u_id u_len in
        match o with
        | Ok len => (Ok (Some (len, token)), s1, evs)
        | Err e => (Err e, s1, evs)
        | Panic => (Panic, s1, evs)
        | UB => (UB, s1, evs)
        end
  end.

(* add_buffer_to_queue: re-post buffer `index`; ae/uf: the device's suppression data at that moment *)
Definition owning_readd (s : qstate) (bufsz index addr ae uf : N) : outcome unit * qstate * list oev :=
  if q_size s <=? index then (Err EWrongToken, s, [])
  else
    let '(o, s1, evs) := add s [] [obuf index bufsz addr] 0 in
    match o with
    | Ok tok =>
        if tok =? index then
          (Ok tt, s1, map OQ evs ++ (if should_notify s1 ae uf then [ONotify] else []))
        else (Panic, s1, map OQ evs)
    | Err e => (Err e, s1, map OQ evs)
    | Panic => (Panic, s1, map OQ evs)
    | UB => (UB, s1, map OQ evs)
    end.

(* what the caller's handler answers: 0 = Ok(Some _), 1 = Ok(None), 2 = Err(IoError) *)
Definition handler_result (hres len token : N) : outcome (option (N * N)) :=
  if hres =? 0 then Ok (Some (len, token)) else if hres =? 1 then Ok None else Err EIoError.

(* OwningQueue::poll; the handler's result is passed through. A length above BUFFER_SIZE is an IoError
   (the handler is not called). The buffer is re-posted whatever the result. *)
Definition owning_poll (s : qstate) (bufsz u_idx u_id u_len addr ae uf hres : N)
  : outcome (option (N * N)) * qstate * list oev :=
  let '(o, s1, evs) := owning_pop s bufsz u_idx u_id u_len in
  match o with
  | Ok (Some (len, token)) =>
      let result : outcome (option (N * N)) := if bufsz <? len then Err EIoError else handler_result hres len token in
      let '(o2, s2, evs2) := owning_readd s1 bufsz token addr ae uf in
      match o2 with
      | Ok _ => (result, s2, map OQ evs ++ evs2)
      | Err e => (Err e, s2, map OQ evs ++ evs2)
      | Panic => (Panic, s2, map OQ evs ++ evs2)
      | UB => (UB, s2, map OQ evs ++ evs2)
      end
  | Ok None => (Ok None, s1, map OQ evs)
  | Err e => (Err e, s1, map OQ evs)
  | Panic => (Panic, s1, map OQ evs)
  | UB => (UB, s1, map OQ evs)
  end.

(* ---- the behaviour before the repair (fix: commit in /repo): the length was checked in pop, and a buffer
   whose completion carried an oversized length was never re-posted ---- *)
Definition owning_pop_prefix (s : qstate) (bufsz u_idx u_id u_len : N)
  : outcome (option (N * N)) * qstate * list qev :=
  let '(o, s1, evs) := owning_pop s bufsz u_idx u_id u_len in
  match o with
  | Ok (Some (len, token)) => if bufsz <? len then (Err EIoError, s1, evs) else (o, s1, evs)
  | _ => (o, s1, evs)
  end.

Definition owning_poll_prefix (s : qstate) (bufsz u_idx u_id u_len addr ae uf : N)
  : outcome (option (N * N)) * qstate * list oev :=
  let '(o, s1, evs) := owning_pop_prefix s bufsz u_idx u_id u_len in
  match o with
  | Ok (Some (len, token)) =>
      let '(o2, s2, evs2) := owning_readd s1 bufsz token addr ae uf in
      match o2 with
      | Ok _ => (Ok (Some (len, token)), s2, map OQ evs ++ evs2)
      | Err e => (Err e, s2, map OQ evs ++ evs2)
      | Panic => (Panic, s2, map OQ evs ++ evs2)
      | UB => (UB, s2, map OQ evs ++ evs2)
      end
  | Ok None => (Ok None, s1, map OQ evs)
  | Err e => (Err e, s1, map OQ evs)
  | Panic => (Panic, s1, map OQ evs)
  | UB => (UB, s1, map OQ evs)
  end.
