(* C09: construction (with every early return) and teardown of the eleven device drivers,     *)
(* as sequences of resource steps with the Rust drop rules written out.                       *)
(*                                                                                            *)
(* Transcribed from                                                                           *)
(*   src/hal.rs            Dma::new (paddr 0 -> Err(DmaError)), Drop for Dma (dma_dealloc with *)
(*                         the stored paddr, vaddr, pages)                                     *)
(*   src/queue.rs          VirtQueue::new up to queue_set, allocate_legacy / allocate_flexible,*)
(*                         field order of VirtQueueLayout (no Drop impl on VirtQueue)          *)
(*   src/queue/owning.rs   OwningQueue::new (posts SIZE boxes, token i for buffer i), its Drop *)
(*                         impl (frees the boxes, then the field `queue`)                      *)
(*   src/transport/mod.rs  begin_init / finish_init status writes, read_consistent             *)
(*   src/device/*          each driver's new(), struct field order and Drop impl               *)
(*   src/device/gpu/mod.rs change_resolution, setup_framebuffer, setup_cursor (DMA owned by    *)
(*                         Option<Dma> fields)                                                 *)
(*                                                                                            *)
(* Drop rules of the language, implemented ONCE in the interpreter below:                      *)
(*   - `?` / early return: live locals are dropped in reverse declaration order, then the      *)
(*     by-value parameter `transport` (if it has not been moved);                             *)
(*   - a struct value: its Drop::drop body first, then its fields in declaration order;        *)
(*   - a value that was moved is not dropped by the place it was moved from;                   *)
(*   - assigning to a field drops the previous value of the field.                             *)
(* What each driver contributes is data: the list of steps of new(), the field order and the   *)
(* queue_unset calls of its Drop impl.                                                         *)
From VD Require Import Base.Words Model.Layout.

(* a DMA allocation as the platform knows it: physical address, pointer, page count *)
Definition region := (N * N * N)%type.

(* ---- externally visible events -------------------------------------------------------- *)
Inductive tev :=
| TAlloc (pages dir paddr vaddr : N)      (* Hal::dma_alloc answered (paddr, vaddr); paddr = 0: refused *)
| TDealloc (paddr vaddr pages : N)        (* Hal::dma_dealloc *)
| TQueueSet (q size desc drv dev : N)     (* Transport::queue_set *)
| TQueueUnset (q : N)                     (* Transport::queue_unset *)
| TStatus (v : N)                         (* Transport::set_status *)
| TDrop                                   (* the transport value is dropped *)
| TCfg (off len : N)                      (* Transport::read_config_space *)
| TGen                                    (* Transport::read_config_generation *)
| TPost (q tok : N)                       (* a chain with head `tok` made available on queue q *)
| TUnpost (q tok : N)                     (* ... taken back (pop_used) *)
| TFree (q tok : N).                      (* heap memory of a driver-owned buffer that belongs to chain (q, tok) is released *)

Definition DRIVER_OK_BIT : N := 2.        (* DeviceStatus::DRIVER_OK = 4 *)

(* ---- values and their drop glue ------------------------------------------------------- *)
(* A value is flattened into the list of things that happen, in order, when it is dropped.  *)
Inductive atom :=
| ADma (r : region)                  (* a Dma<H> *)
| AOpt (slot : N) (r : option region)(* an Option<Dma<H>> field (GPU: slot 0 frame buffer, slot 1 cursor) *)
| ATransport                         (* the transport T *)
| AUnset (q : N)                     (* a queue_unset(q) call in a Drop::drop body *)
| ABufs (q n : N).                   (* heap buffer(s) owned by the driver, only ever posted on queue q under tokens < n;
                                        dropping the value releases them all (a release can be OBSERVED only for a buffer
                                        that is shared with the device at that moment: see Extract/TeardownIO.v) *)

Definition small (n : N) : nat := N.to_nat (N.min n 32768).

Fixpoint frees (q t : N) (k : nat) : list tev :=
  match k with O => [] | S k' => TFree q t :: frees q (t + 1) k' end.
Fixpoint posts (q t : N) (k : nat) : list tev :=
  match k with O => [] | S k' => TPost q t :: posts q (t + 1) k' end.

Definition drop_atom (a : atom) : list tev :=
  match a with
  | ADma (p, v, n) => [TDealloc p v n]
  | AOpt _ (Some (p, v, n)) => [TDealloc p v n]
  | AOpt _ None => []
  | ATransport => [TDrop]
  | AUnset q => [TQueueUnset q]
  | ABufs q n => frees q 0 (small n)
  end.
Definition drop_atoms (l : list atom) : list tev := flat_map drop_atom l.

(* ---- the constructor language --------------------------------------------------------- *)
(* values that are created without a fallible step: heap buffers and empty Option<Dma> fields *)
Inductive lit :=
| LBufs (q n : N)            (* Box / Vec / map of buffers that are posted on queue q *)
| LNone (slot : N).          (* None : Option<Dma<H>> *)
Definition atom_of_lit (l : lit) : atom :=
  match l with LBufs q n => ABufs q n | LNone s => AOpt s None end.
Definition lits (l : list lit) : list atom := map atom_of_lit l.

Inductive fref :=
| FTransport                 (* the field is initialised with the `transport` parameter *)
| FLocal (x : N)             (* ... with the local x (moved) *)
| FNew (a : list lit).       (* ... with a fresh value *)

Inductive cstep :=
| CStatus (v : N)                           (* transport.set_status(v) *)
| CCfg (consistent : bool) (reads : list (N * N))
                                            (* read_config!(..)? for each (offset, length) in turn, inside
                                               transport.read_consistent(|| ..)? when `consistent` *)
| C9pTag                                    (* let mount_tag = read_mount_tag(&transport)?; *)
| CQueue (x q n : N)                        (* let x = VirtQueue::<H, n>::new(&mut transport, q, ..)?; *)
| COwnQueue (x q n : N)                     (* let x = OwningQueue::new(VirtQueue::new(&mut transport, q, ..)?)?; *)
| CWrapOwn (x y q n : N)                    (* let x = OwningQueue::new(y)?;   (y is moved) *)
| CLocal (x : N) (a : list lit)             (* let x = <a value whose construction cannot fail>; *)
| CPost (q n : N)                           (* n driver-owned buffers are added to queue q: tokens 0 .. n-1 *)
| CCheck (e : N)                            (* an argument check that returns Err(e) *)
| CBuild (x : N) (unsets : list N) (fields : list fref).
                                            (* let x = Struct { fields.. };  Drop::drop of Struct = queue_unset of `unsets` *)

Record cst := mkC {
  c_al : list (N * N);         (* remaining dma_alloc answers (paddr, vaddr) *)
  c_cf : list (N * N);         (* remaining read_config_space answers: (0, value) or (error code, _) *)
  c_gn : list N;               (* remaining read_config_generation answers *)
  c_utf8 : bool;               (* 9p: the tag bytes are valid UTF-8 *)
  c_chk : bool;                (* VirtIONet: buf_len is large enough *)
  c_fr : list (N * list atom); (* live locals, newest first *)
  c_tp : bool }.               (* the `transport` parameter is still owned by this function *)

Definition set_al (c : cst) (l : list (N * N)) : cst :=
  mkC l (c_cf c) (c_gn c) (c_utf8 c) (c_chk c) (c_fr c) (c_tp c).
Definition set_cf (c : cst) (l : list (N * N)) : cst :=
  mkC (c_al c) l (c_gn c) (c_utf8 c) (c_chk c) (c_fr c) (c_tp c).
Definition set_gn (c : cst) (l : list N) : cst :=
  mkC (c_al c) (c_cf c) l (c_utf8 c) (c_chk c) (c_fr c) (c_tp c).
Definition set_fr (c : cst) (fr : list (N * list atom)) (tp : bool) : cst :=
  mkC (c_al c) (c_cf c) (c_gn c) (c_utf8 c) (c_chk c) fr tp.
Definition push (x : N) (a : list atom) (c : cst) : cst := set_fr c ((x, a) :: c_fr c) (c_tp c).

Definition take_alloc (c : cst) : (N * N) * cst :=
  match c_al c with [] => ((0, 0), c) | x :: t => (x, set_al c t) end.
Definition take_cfg (c : cst) : (N * N) * cst :=
  match c_cf c with [] => ((EConfigSpaceTooSmall, 0), c) | x :: t => (x, set_cf c t) end.

(* moving a local out of the frame *)
Fixpoint take (x : N) (fr : list (N * list atom)) : list atom * list (N * list atom) :=
  match fr with
  | [] => ([], [])
  | (y, a) :: t => if x =? y then (a, t) else let '(r, t') := take x t in (r, (y, a) :: t')
  end.

Fixpoint build (fs : list fref) (fr : list (N * list atom)) (tp : bool)
  : list atom * list (N * list atom) * bool :=
  match fs with
  | [] => ([], fr, tp)
  | FTransport :: r =>
      let '(a, fr', tp') := build r fr false in ((if tp then [ATransport] else []) ++ a, fr', tp')
  | FLocal x :: r =>
      let '(ax, fr1) := take x fr in
      let '(a, fr', tp') := build r fr1 tp in (ax ++ a, fr', tp')
  | FNew n :: r =>
      let '(a, fr', tp') := build r fr tp in (lits n ++ a, fr', tp')
  end.

(* read_config!(transport, Config, field)? for each field in turn *)
Fixpoint do_reads (reads : list (N * N)) (c : cst) : option N * cst * list tev :=
  match reads with
  | [] => (None, c, [])
  | (off, len) :: r =>
      let '((code, _), c1) := take_cfg c in
      if code =? 0 then let '(res, c2, ev) := do_reads r c1 in (res, c2, TCfg off len :: ev)
      else (Some code, c1, [TCfg off len])
  end.

(* Transport::read_consistent: generation before, the closure, generation after; again if they differ.
   (When fewer than two answers are left the generations are taken to be equal.) *)
Fixpoint consistent (gn : list N) (body : cst -> option N * cst * list tev) (c : cst)
  : option N * cst * list tev * list N :=
  let '(r, c1, ev) := body c in
  match gn with
  | g1 :: g2 :: rest =>
      if g1 =? g2 then (r, c1, TGen :: ev ++ [TGen], rest)
      else let '(r', c2, ev', rest') := consistent rest body c1 in
           (r', c2, TGen :: ev ++ [TGen] ++ ev', rest')
  | _ => (r, c1, TGen :: ev ++ [TGen], [])
  end.

(* virtio_9p.rs read_mount_tag, the closure: tag_len, then one byte at a time, then from_utf8 *)
Fixpoint tag_bytes (cf : list (N * N)) (idx len : N) : option N * list (N * N) * list tev :=
  if len <=? idx then (None, cf, []) else
  match cf with
  | [] => (Some EConfigSpaceTooSmall, [], [TCfg (2 + idx) 1])
  | (code, _) :: r =>
      if code =? 0 then let '(res, r', ev) := tag_bytes r (idx + 1) len in (res, r', TCfg (2 + idx) 1 :: ev)
      else (Some code, r, [TCfg (2 + idx) 1])
  end.

Definition tag_body (c : cst) : option N * cst * list tev :=
  let '((code, v), c1) := take_cfg c in
  if negb (code =? 0) then (Some code, c1, [TCfg 0 2]) else
  let tag_len := w16 v in
  if tag_len =? 0 then (Some EInvalidParam, c1, [TCfg 0 2]) else
  let '(r, cf', ev) := tag_bytes (c_cf c1) 0 tag_len in
  let c2 := set_cf c1 cf' in
  match r with
  | Some e => (Some e, c2, TCfg 0 2 :: ev)
  | None => if c_utf8 c then (None, c2, TCfg 0 2 :: ev) else (Some EIoError, c2, TCfg 0 2 :: ev)
  end.

(* VirtQueue::new: allocation (allocate_legacy / allocate_flexible) and queue_set.
   (queue_used / max_queue_size are answered "free" and "large enough": see C06.) *)
Definition queue_alloc (legacy : bool) (q n : N) (c : cst) : option N * cst * list tev * list atom :=
  if legacy then
    let '((a, v), c1) := take_alloc c in
    let p := legacy_pages n in
    if a =? 0 then (Some EDmaError, c1, [TAlloc p DIR_BOTH 0 0], [])
    else (None, c1,
          [TAlloc p DIR_BOTH a v;
           TQueueSet q n a (a + desc_size n) (a + align_up (desc_size n + avail_size n))],
          [ADma (a, v, p)])
  else
    let '((a1, v1), c1) := take_alloc c in
    let p1 := pages (desc_size n + avail_size n) in
    let p2 := pages (used_size n) in
    if a1 =? 0 then (Some EDmaError, c1, [TAlloc p1 DIR_TO_DEV 0 0], [])
    else
      let '((a2, v2), c2) := take_alloc c1 in
      if a2 =? 0 then
        (Some EDmaError, c2, [TAlloc p1 DIR_TO_DEV a1 v1; TAlloc p2 DIR_FROM_DEV 0 0; TDealloc a1 v1 p1], [])
      else
        (None, c2,
         [TAlloc p1 DIR_TO_DEV a1 v1; TAlloc p2 DIR_FROM_DEV a2 v2;
          TQueueSet q n a1 (a1 + desc_size n) a2],
         [ADma (a1, v1, p1); ADma (a2, v2, p2)]).

(* one step: (Some e = the function returns Err(e) here, state, events) *)
Definition exec (legacy : bool) (s : cstep) (c : cst) : option N * cst * list tev :=
  match s with
  | CStatus v => (None, c, [TStatus v])
  | CCfg false reads => do_reads reads c
  | CCfg true reads =>
      let '(r, c1, ev, gn') := consistent (c_gn c) (do_reads reads) c in (r, set_gn c1 gn', ev)
  | C9pTag =>
      let '(r, c1, ev, gn') := consistent (c_gn c) tag_body c in (r, set_gn c1 gn', ev)
  | CQueue x q n =>
      let '(r, c1, ev, a) := queue_alloc legacy q n c in
      match r with Some e => (Some e, c1, ev) | None => (None, push x a c1, ev) end
  | COwnQueue x q n =>
      let '(r, c1, ev, a) := queue_alloc legacy q n c in
      match r with
      | Some e => (Some e, c1, ev)
      | None => (None, push x (ABufs q n :: a) c1, ev ++ posts q 0 (small n))
      end
  | CWrapOwn x y q n =>
      let '(ay, fr') := take y (c_fr c) in
      (None, set_fr c ((x, ABufs q n :: ay) :: fr') (c_tp c), posts q 0 (small n))
  | CLocal x a => (None, push x (lits a) c, [])
  | CPost q n => (None, c, posts q 0 (small n))
  | CCheck e => if c_chk c then (None, c, []) else (Some e, c, [])
  | CBuild x unsets fields =>
      let '(a, fr', tp') := build fields (c_fr c) (c_tp c) in
      (None, set_fr c ((x, map AUnset unsets ++ a) :: fr') tp', [])
  end.

(* early return: locals in reverse declaration order, then the parameter *)
Definition frame_atoms (fr : list (N * list atom)) : list atom := flat_map snd fr.
Definition fail_drop (c : cst) : list tev :=
  drop_atoms (frame_atoms (c_fr c)) ++ (if c_tp c then [TDrop] else []).

Inductive cres := RErr (e : N) | ROk (a : list atom).

(* the body of new(): the value of the newest local is returned, whatever else is still live is dropped *)
Fixpoint run (legacy : bool) (p : list cstep) (c : cst) : cres * list tev :=
  match p with
  | [] =>
      match c_fr c with
      | [] => (ROk [], if c_tp c then [TDrop] else [])
      | (_, a) :: rest => (ROk a, drop_atoms (frame_atoms rest) ++ (if c_tp c then [TDrop] else []))
      end
  | s :: p' =>
      let '(r, c1, ev) := exec legacy s c in
      match r with
      | Some e => (RErr e, ev ++ fail_drop c1)
      | None => let '(res, ev') := run legacy p' c1 in (res, ev ++ ev')
      end
  end.

(* ---- the eleven constructors ---------------------------------------------------------- *)
(* transport/mod.rs begin_init: status 0, ACKNOWLEDGE|DRIVER, (features), ..|FEATURES_OK; finish_init: ..|DRIVER_OK *)
Definition begin_init : list cstep := [CStatus 0; CStatus 3; CStatus 11].
Definition finish_init : cstep := CStatus 15.

Definition D_BLK : N := 0.     Definition D_CONSOLE : N := 1.  Definition D_GPU : N := 2.
Definition D_INPUT : N := 3.   Definition D_NETRAW : N := 4.   Definition D_NETBUF : N := 5.
Definition D_RNG : N := 6.     Definition D_RTC : N := 7.      Definition D_SOCKET : N := 8.
Definition D_SOUND : N := 9.   Definition D_9P : N := 10.

(* blk.rs: fields transport, queue, ..; Drop: queue_unset(0) *)
Definition prog_blk : list cstep :=
  begin_init ++ [CCfg true [(0, 4); (4, 4)]; CQueue 1 0 16; finish_init;
                 CBuild 9 [0] [FTransport; FLocal 1]].

(* console.rs: fields transport, .., receiveq, transmitq, queue_buf_rx; Drop: queue_unset(0), queue_unset(1);
   poll_retrieve after the struct is built posts queue_buf_rx on the receive queue *)
Definition prog_console : list cstep :=
  begin_init ++ [CQueue 1 0 2; CQueue 2 1 2; CLocal 3 [LBufs 0 2]; finish_init;
                 CBuild 9 [0; 1] [FTransport; FLocal 1; FLocal 2; FLocal 3]; CPost 0 1].

(* gpu/mod.rs: fields transport, rect, frame_buffer_dma, cursor_buffer_dma, control_queue, cursor_queue,
   queue_buf_send (used on both queues), queue_buf_recv; Drop: queue_unset(0), queue_unset(1) *)
Definition prog_gpu : list cstep :=
  begin_init ++ [CCfg false [(0, 4); (8, 4)]; CQueue 1 0 2; CQueue 2 1 2;
                 CLocal 3 [LBufs 0 2; LBufs 1 2]; CLocal 4 [LBufs 0 2]; finish_init;
                 CBuild 9 [0; 1] [FTransport; FNew [LNone 0]; FNew [LNone 1];
                                  FLocal 1; FLocal 2; FLocal 3; FLocal 4]].

(* input.rs: event_buf is the FIRST local; fields transport, event_queue, status_queue, event_buf;
   Drop: queue_unset(0), queue_unset(1) *)
Definition prog_input : list cstep :=
  [CLocal 1 [LBufs 0 32]] ++ begin_init ++
  [CQueue 2 0 32; CQueue 3 1 32; CPost 0 32; finish_init;
   CBuild 9 [0; 1] [FTransport; FLocal 2; FLocal 3; FLocal 1]].

(* net/dev_raw.rs: send_queue (1) is created first; fields transport, mac, recv_queue, send_queue;
   Drop: queue_unset(RECEIVE = 0), queue_unset(TRANSMIT = 1) *)
Definition prog_netraw_steps (n x : N) : list cstep :=
  begin_init ++ [CCfg true [(0, 6)]; CCfg false [(6, 2)]; CQueue 1 1 n; CQueue 2 0 n; finish_init;
                 CBuild x [0; 1] [FTransport; FLocal 2; FLocal 1]].
Definition prog_netraw (n : N) : list cstep := prog_netraw_steps n 9.

(* net/dev.rs: inner, then rx_buffers (all None to begin with); in the first iteration of the loop
   receive_begin refuses a short buffer, before any receive buffer exists in rx_buffers or is posted *)
Definition prog_netbuf (n : N) : list cstep :=
  prog_netraw_steps n 8 ++
  [CCheck EInvalidParam; CLocal 7 [LBufs 0 n]; CPost 0 n; CBuild 9 [] [FLocal 8; FLocal 7]].

(* rng.rs / rtc.rs *)
Definition prog_rng : list cstep :=
  begin_init ++ [CQueue 1 0 8; finish_init; CBuild 9 [0] [FTransport; FLocal 1]].
Definition prog_rtc : list cstep := prog_rng.

(* socket/vsock.rs: rx, tx, event, then `let rx = OwningQueue::new(rx)?`;
   fields transport, rx, tx, event; Drop: queue_unset(0), (1), (2) *)
Definition prog_socket : list cstep :=
  begin_init ++ [CCfg true [(0, 4); (4, 4)]; CQueue 1 0 8; CQueue 2 1 8; CQueue 3 2 8;
                 CWrapOwn 4 1 0 8; finish_init;
                 CBuild 9 [0; 1; 2] [FTransport; FLocal 4; FLocal 2; FLocal 3]].

(* sound.rs: NO Drop impl; fields transport, control_queue, event_queue, tx_queue, rx_queue, ..,
   queue_buf_send, queue_buf_recv, .., token_rsp, pcm_states, token_buf *)
Definition prog_sound : list cstep :=
  begin_init ++ [CQueue 1 0 32; COwnQueue 2 1 32; CQueue 3 2 32; CQueue 4 3 32;
                 CCfg false [(0, 4); (4, 4); (8, 4)];
                 CLocal 5 [LBufs 0 32]; CLocal 6 [LBufs 0 32]; finish_init;
                 CBuild 9 [] [FTransport; FLocal 1; FLocal 2; FLocal 3; FLocal 4; FLocal 5; FLocal 6;
                              FNew [LBufs 2 32]; FNew [LBufs 2 32]]].

(* virtio_9p.rs: NO Drop impl; fields transport, queue, mount_tag.
   Repaired code: the mount tag is read BEFORE finish_init. *)
Definition prog_9p : list cstep :=
  begin_init ++ [CQueue 1 0 16; C9pTag; finish_init; CBuild 9 [] [FTransport; FLocal 1]].
(* the code before the repair: finish_init, THEN read_mount_tag(..)? *)
Definition prog_9p_prefix : list cstep :=
  begin_init ++ [CQueue 1 0 16; finish_init; C9pTag; CBuild 9 [] [FTransport; FLocal 1]].

Definition prog (d nq : N) : list cstep :=
  if d =? D_BLK then prog_blk else if d =? D_CONSOLE then prog_console else
  if d =? D_GPU then prog_gpu else if d =? D_INPUT then prog_input else
  if d =? D_NETRAW then prog_netraw nq else if d =? D_NETBUF then prog_netbuf nq else
  if d =? D_RNG then prog_rng else if d =? D_RTC then prog_rtc else
  if d =? D_SOCKET then prog_socket else if d =? D_SOUND then prog_sound else
  if d =? D_9P then prog_9p else [].
Definition prog_prefix (d nq : N) : list cstep := if d =? D_9P then prog_9p_prefix else prog d nq.

Definition cst0 (al cf : list (N * N)) (gn : list N) (utf8 chk : bool) : cst :=
  mkC al cf gn utf8 chk [] true.

(* ---- usage after a successful construction -------------------------------------------- *)
Fixpoint get_slot (s : N) (l : list atom) : option (option region) :=
  match l with
  | [] => None
  | AOpt s' r :: t => if s =? s' then Some r else get_slot s t
  | _ :: t => get_slot s t
  end.
Fixpoint set_slot (s : N) (r : option region) (l : list atom) : list atom :=
  match l with
  | [] => []
  | AOpt s' r' :: t => if s =? s' then AOpt s' r :: t else AOpt s' r' :: set_slot s r t
  | a :: t => a :: set_slot s r t
  end.

(* the device's verdict on the next control request (true = the expected response type) *)
Definition take_ok (oks : list bool) : bool * list bool :=
  match oks with [] => (true, []) | b :: t => (b, t) end.

(* gpu/mod.rs change_resolution, first half: tear down the existing frame buffer
   (set_scanout?, resource_detach_backing?, resource_unref?, then `self.frame_buffer_dma = None`) *)
Definition gpu_teardown (old : option region) (oks : list bool) (atoms : list atom)
  : bool * list bool * list atom * list tev :=
  match old with
  | None => (true, oks, atoms, [])
  | Some (oa, ov, op) =>
      let '(k1, o1) := take_ok oks in
      if negb k1 then (false, o1, atoms, []) else
      let '(k2, o2) := take_ok o1 in
      if negb k2 then (false, o2, atoms, []) else
      let '(k3, o3) := take_ok o2 in
      if negb k3 then (false, o3, atoms, []) else
      (true, o3, set_slot 0 None atoms, [TDealloc oa ov op])
  end.

(* second half: resource_create_2d?, the size computation, Dma::new?, resource_attach_backing?, set_scanout?,
   raw_slice, `self.frame_buffer_dma = Some(..)`.  a, v: the answer of dma_alloc. *)
Definition gpu_attach (m : mode) (w h : N) (oks : list bool) (a v : N) (atoms : list atom)
  : list atom * outcome N * list tev :=
  let '(kc, oks2) := take_ok oks in
  if negb kc then (atoms, Err EIoError, []) else
  (* let size = width * height * 4;  (u32) *)
  (* since the repair 081ee71 (C20, F15) the size is validated by checked arithmetic at the top of
     change_resolution (see gpu_res): no overflow is possible here any more *)
  let wh := w * h in
  let size := w32 (w32 wh * 4) in
  let p := pages size in
  if a =? 0 then (atoms, Err EDmaError, [TAlloc p DIR_TO_DEV 0 0]) else
  let al := TAlloc p DIR_TO_DEV a v in
  (* on a failure of the two requests the local Dma is dropped *)
  let '(ka, oks3) := take_ok oks2 in
  if negb ka then (atoms, Err EIoError, [al; TDealloc a v p]) else
  let '(ks, _) := take_ok oks3 in
  if negb ks then (atoms, Err EIoError, [al; TDealloc a v p]) else
  (* raw_slice -> vaddr(0): assert!(0 < pages * PAGE_SIZE); unwinding drops the local Dma *)
  if p =? 0 then (atoms, Panic, [al; TDealloc a v p]) else
  (set_slot 0 (Some (a, v, p)) atoms, Ok 0, [al]).

(* gpu/mod.rs setup_framebuffer (setup = true: get_display_info first) / change_resolution *)
Definition gpu_res (m : mode) (setup : bool) (w h : N) (oks : list bool) (a v : N) (atoms : list atom)
  : list atom * outcome N * list tev :=
  match get_slot 0 atoms with
  | None => (atoms, Ok 0, [])
  | Some old =>
    let '(k0, oks0) := if setup then take_ok oks else (true, oks) in
    if negb k0 then (atoms, Err EIoError, []) else
    (* change_resolution: width.checked_mul(height).and_then(|p| p.checked_mul(4)).filter(|s| s != 0)
       .ok_or(InvalidParam)? -- before anything is sent or released *)
    if (w * h * 4 =? 0) || (two32 <=? w * h * 4) then (atoms, Err EInvalidParam, []) else
    let '(kt, oks1, atoms1, ev1) := gpu_teardown old oks0 atoms in
    if negb kt then (atoms1, Err EIoError, ev1) else
    let '(a', o, ev2) := gpu_attach m w h oks1 a v atoms1 in (a', o, ev1 ++ ev2)
  end.

(* gpu/mod.rs setup_cursor: 64*64*4 bytes = 4 pages; the previous cursor Dma is dropped by the final assignment *)
Definition gpu_cursor (len_ok : bool) (oks : list bool) (a v : N) (atoms : list atom)
  : list atom * outcome N * list tev :=
  match get_slot 1 atoms with
  | None => (atoms, Ok 0, [])
  | Some old =>
    if negb len_ok then (atoms, Err EInvalidParam, []) else
    if a =? 0 then (atoms, Err EDmaError, [TAlloc 4 DIR_TO_DEV 0 0]) else
    let al := TAlloc 4 DIR_TO_DEV a v in
    let '(k1, o1) := take_ok oks in
    if negb k1 then (atoms, Err EIoError, [al; TDealloc a v 4]) else
    let '(k2, o2) := take_ok o1 in
    if negb k2 then (atoms, Err EIoError, [al; TDealloc a v 4]) else
    let '(k3, _) := take_ok o2 in
    if negb k3 then (atoms, Err EIoError, [al; TDealloc a v 4]) else
    (set_slot 1 (Some (a, v, 4)) atoms, Ok 0,
     al :: match old with Some (oa, ov, op) => [TDealloc oa ov op] | None => [] end)
  end.

Inductive uop :=
| UPost (q t : N)                   (* any public operation that makes a chain available *)
| UUnpost (q t : N)                 (* ... that takes one back *)
| UGpuRes (setup : bool) (w h : N) (oks : list bool) (a v : N)
| UGpuCursor (len_ok : bool) (oks : list bool) (a v : N).

Definition uop_step (m : mode) (atoms : list atom) (o : uop) : list atom * list tev :=
  match o with
  | UPost q t => (atoms, [TPost q t])
  | UUnpost q t => (atoms, [TUnpost q t])
  | UGpuRes setup w h oks a v => let '(a', _, ev) := gpu_res m setup w h oks a v atoms in (a', ev)
  | UGpuCursor len_ok oks a v => let '(a', _, ev) := gpu_cursor len_ok oks a v atoms in (a', ev)
  end.

Fixpoint usage (m : mode) (atoms : list atom) (ops : list uop) : list atom * list tev :=
  match ops with
  | [] => (atoms, [])
  | o :: r => let '(a1, e1) := uop_step m atoms o in
              let '(a2, e2) := usage m a1 r in (a2, e1 ++ e2)
  end.

(* construction; if it succeeded: any usage history; then the driver value is dropped *)
Definition lifecycle (legacy : bool) (p : list cstep) (c : cst) (m : mode) (ops : list uop) : cres * list tev :=
  let '(r, ev) := run legacy p c in
  match r with
  | RErr e => (r, ev)
  | ROk a => let '(a', ev') := usage m a ops in (r, ev ++ ev' ++ drop_atoms a')
  end.

(* ---- the property as monitors over ANY event sequence (in particular an observed one) -- *)
Definition region_eqb (x y : region) : bool :=
  let '(a, b, c) := x in let '(a', b', c') := y in (a =? a') && (b =? b') && (c =? c').

Fixpoint remove1 (r : region) (l : list region) : option (list region) :=
  match l with
  | [] => None
  | x :: t => if region_eqb r x then Some t
              else match remove1 r t with Some t' => Some (x :: t') | None => None end
  end.

(* balanced: a dealloc must name a region that is allocated and not yet returned, with the same
   address, pointer and page count; None = it does not. The result is what is still allocated. *)
Fixpoint bal_run (tr : list tev) (live : list region) : option (list region) :=
  match tr with
  | [] => Some live
  | TAlloc p _ a v :: t => if a =? 0 then bal_run t live else bal_run t ((a, v, p) :: live)
  | TDealloc a v p :: t =>
      match remove1 (a, v, p) live with Some live' => bal_run t live' | None => None end
  | _ :: t => bal_run t live
  end.
Definition balanced_b (tr : list tev) : bool :=
  match bal_run tr [] with Some [] => true | _ => false end.

(* quiesced *)
Record qst := mkQ {
  q_ok : bool;                          (* DRIVER_OK has been written since the last reset *)
  q_regs : list (N * (N * N * N));      (* registered queues: index, (descriptor, driver, device area) *)
  q_posted : list (N * N) }.            (* chains outstanding: (queue, head) *)
Definition q0 : qst := mkQ false [] [].

Definition covers (a p x : N) : bool := (a <=? x) && (x <? a + p * PAGE).
Definition reg_hit (a p : N) (r : N * (N * N * N)) : bool :=
  let '(_, (d1, d2, d3)) := r in covers a p d1 || covers a p d2 || covers a p d3.
Definition pair_eqb (x y : N * N) : bool := (fst x =? fst y) && (snd x =? snd y).
Definition is_reg (q : N) (regs : list (N * (N * N * N))) : bool := existsb (fun r => fst r =? q) regs.

(* resets: dropping the transport resets the device (true for MmioTransport, PciTransport, SomeTransport) *)
Definition qstep (resets : bool) (m : qst) (e : tev) : option qst :=
  match e with
  | TStatus v =>
      if v =? 0 then Some (mkQ false [] (q_posted m))
      else Some (mkQ (q_ok m || N.testbit v DRIVER_OK_BIT) (q_regs m) (q_posted m))
  | TDrop => if resets then Some (mkQ false [] (q_posted m)) else Some m
  | TQueueSet q _ d1 d2 d3 =>
      Some (mkQ (q_ok m) ((q, (d1, d2, d3)) :: filter (fun r => negb (fst r =? q)) (q_regs m)) (q_posted m))
  | TQueueUnset q => Some (mkQ (q_ok m) (filter (fun r => negb (fst r =? q)) (q_regs m)) (q_posted m))
  | TDealloc a _ p =>
      if q_ok m && existsb (reg_hit a p) (q_regs m) then None else Some m
  | TPost q t => Some (mkQ (q_ok m) (q_regs m) ((q, t) :: q_posted m))
  | TUnpost q t =>
      Some (mkQ (q_ok m) (q_regs m) (filter (fun x => negb (pair_eqb x (q, t))) (q_posted m)))
  | TFree q t =>
      if q_ok m && is_reg q (q_regs m) && existsb (pair_eqb (q, t)) (q_posted m) then None else Some m
  | _ => Some m
  end.

Fixpoint qui_run (resets : bool) (tr : list tev) (m : qst) : option qst :=
  match tr with
  | [] => Some m
  | e :: t => match qstep resets m e with Some m' => qui_run resets t m' | None => None end
  end.
Definition quiesced_b (resets : bool) (tr : list tev) : bool :=
  match qui_run resets tr q0 with Some _ => true | None => false end.

(* ---- the PCI reading ------------------------------------------------------------------- *)
(* PciTransport::queue_unset is a deliberate no-op (the specification gives a PCI driver no way to take a
   single queue back), so on that transport a queue_unset call quiesces nothing: the device stays live on
   every registered queue until it is reset (status 0, or the reset that PciTransport::drop performs).
   The monitor for this reading is the same monitor run on the event sequence with the queue_unset
   events removed, dropping the transport counting as a reset. *)
Definition is_unset (e : tev) : bool := match e with TQueueUnset _ => true | _ => false end.
Definition no_unset (tr : list tev) : list tev := filter (fun e => negb (is_unset e)) tr.
Definition quiesced_pci_b (tr : list tev) : bool := quiesced_b true (no_unset tr).
