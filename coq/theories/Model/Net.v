(* The virtio-net drivers of src/device/net/{mod,dev_raw,dev,net_buf}.rs on top of the virtqueue    *)
(* model.  Transcribed operation by operation:                                                      *)
(*   mod.rs      SUPPORTED_FEATURES, VirtioNetHdr / VirtioNetHdrLegacy (as byte encoders)            *)
(*   dev_raw.rs  new (feature negotiation -> legacy_header), can_send, check_rx/tx_buf_len,          *)
(*               fill_buffer_header, transmit_begin / poll_transmit / transmit_complete,             *)
(*               receive_begin / poll_receive / receive_complete, send, receive_wait                 *)
(*   net_buf.rs  RxBuffer::new / packet                                                              *)
(*   dev.rs      VirtIONet::new / can_send / can_recv / receive / recycle_rx_buffer / send           *)
(* Device-written memory (used ring, suppression data, received bytes) and platform answers (share   *)
(* addresses) are arguments of each step.  Bytes are lists of N (each < 256).                        *)
(* NOT modelled here: the transport handshake of new (C08), MAC/status config reads (C13), drop.     *)
From VD Require Import Base.Words Model.Queue.

(* ------------------------------------------------------------------------------------------------ *)
(* mod.rs                                                                                            *)
Definition BIT_MRG_RXBUF : N := 15.
Definition BIT_RING_INDIRECT_DESC : N := 28.
Definition BIT_RING_EVENT_IDX : N := 29.
Definition BIT_VERSION_1 : N := 32.
(* MAC | STATUS | RING_EVENT_IDX | RING_INDIRECT_DESC | VERSION_1 | ACCESS_PLATFORM *)
Definition NET_SUPPORTED : N := 2 ^ 5 + 2 ^ 16 + 2 ^ 29 + 2 ^ 28 + 2 ^ 32 + 2 ^ 33.
Definition QUEUE_RECEIVE : N := 0.
Definition QUEUE_TRANSMIT : N := 1.
Definition MIN_BUFFER_LEN : N := 1526.

(* Transport::begin_init: from_bits_truncate(device bits) & supported *)
Definition net_negotiate (device_features : N) : N := N.land device_features NET_SUPPORTED.

(* the two #[repr(C)] header structs, as little-endian byte encoders *)
Record nethdr := mkHdr {
  h_flags : N; h_gso_type : N; h_hdr_len : N; h_gso_size : N;
  h_csum_start : N; h_csum_offset : N; h_num_buffers : N }.
Definition le16 (x : N) : list N := [x mod 256; (x / 256) mod 256].
Definition enc_hdr_legacy (h : nethdr) : list N :=
  [w8 (h_flags h); w8 (h_gso_type h)] ++ le16 (h_hdr_len h) ++ le16 (h_gso_size h)
    ++ le16 (h_csum_start h) ++ le16 (h_csum_offset h).
Definition enc_hdr (h : nethdr) : list N := enc_hdr_legacy h ++ le16 (h_num_buffers h).
(* #[derive(Default)] *)
Definition hdr_default : nethdr := mkHdr 0 0 0 0 0 0 0.

(* size_of::<VirtioNetHdrLegacy>() / size_of::<VirtioNetHdr>() *)
Definition hdr_size (legacy : bool) : N := if legacy then 10 else 12.
(* <hdr>::default().as_bytes() *)
Definition hdr_bytes (legacy : bool) : list N :=
  if legacy then enc_hdr_legacy hdr_default else enc_hdr hdr_default.

(* ------------------------------------------------------------------------------------------------ *)
(* dev_raw.rs                                                                                        *)
Record netraw := mkRaw { n_legacy : bool; n_rx : qstate; n_tx : qstate }.
Definition set_rx (s : netraw) (q : qstate) : netraw := mkRaw (n_legacy s) q (n_tx s).
Definition set_tx (s : netraw) (q : qstate) : netraw := mkRaw (n_legacy s) (n_rx s) q.

(* events: a queue event on queue q, or Transport::notify(q) *)
Inductive nev :=
| NQ (q : N) (e : qev)
| NNotify (q : N).

(* legacy_header: !VERSION_1 && !MRG_RXBUF *)
Definition legacy_header (negotiated : N) : bool :=
  negb (N.testbit negotiated BIT_VERSION_1) && negb (N.testbit negotiated BIT_MRG_RXBUF).

(* VirtIONetRaw::new, queue part: both queues get the negotiated ring features; send queue first *)
Definition raw_new (device_features size : N) : netraw :=
  let neg := net_negotiate device_features in
  let ind := N.testbit neg BIT_RING_INDIRECT_DESC in
  let ev := N.testbit neg BIT_RING_EVENT_IDX in
  mkRaw (legacy_header neg) (qnew size ind ev) (qnew size ind ev).

Definition raw_can_send (s : netraw) : bool := 2 <=? available_desc (n_tx s).

Definition check_rx_buf_len (len : N) : bool := negb (len <? MIN_BUFFER_LEN).
Definition check_tx_buf_len (s : netraw) (len : N) : bool := negb (len <? hdr_size (n_legacy s)).

(* fill_buffer_header on a buffer with contents buf: (result, contents afterwards) *)
Definition fill_buffer_header (s : netraw) (buf : list N) : outcome N * list N :=
  let h := hdr_size (n_legacy s) in
  if lenN buf <? h then (Err EInvalidParam, buf)
  else (Ok h, hdr_bytes (n_legacy s) ++ skipn (N.to_nat h) buf).

Definition notify_evs (q : qstate) (qi ae uf : N) : list nev :=
  if should_notify q ae uf then [NNotify qi] else [].

(* transmit_begin / receive_begin: ae, uf = the device's suppression data when should_notify reads it *)
Definition transmit_begin (s : netraw) (b : ubuf) (ae uf : N) : outcome N * netraw * list nev :=
  if negb (check_tx_buf_len s (b_len b)) then (Err EInvalidParam, s, [])
  else
    let '(o, q1, evs) := add (n_tx s) [b] [] 0 in
    match o with
    | Ok tok => (Ok tok, set_tx s q1, map (NQ QUEUE_TRANSMIT) evs ++ notify_evs q1 QUEUE_TRANSMIT ae uf)
    | _ => (o, set_tx s q1, map (NQ QUEUE_TRANSMIT) evs)
    end.

Definition receive_begin (s : netraw) (b : ubuf) (ae uf : N) : outcome N * netraw * list nev :=
  if negb (check_rx_buf_len (b_len b)) then (Err EInvalidParam, s, [])
  else
    let '(o, q1, evs) := add (n_rx s) [] [b] 0 in
    match o with
    | Ok tok => (Ok tok, set_rx s q1, map (NQ QUEUE_RECEIVE) evs ++ notify_evs q1 QUEUE_RECEIVE ae uf)
    | _ => (o, set_rx s q1, map (NQ QUEUE_RECEIVE) evs)
    end.

Definition poll_transmit (s : netraw) (u_idx u_id : N) : option N := peek_used (n_tx s) u_idx u_id.
Definition poll_receive (s : netraw) (u_idx u_id : N) : option N := peek_used (n_rx s) u_idx u_id.

Definition transmit_complete (s : netraw) (token : N) (b : ubuf) (u_idx u_id u_len : N)
  : outcome N * netraw * list nev :=
  let '(o, q1, evs) := pop_used (n_tx s) token [b] [] u_idx u_id u_len in
  (o, set_tx s q1, map (NQ QUEUE_TRANSMIT) evs).

(* returns (hdr_size, packet_len) *)
Definition receive_complete (s : netraw) (token : N) (b : ubuf) (u_idx u_id u_len : N)
  : outcome (N * N) * netraw * list nev :=
  let '(o, q1, evs) := pop_used (n_rx s) token [] [b] u_idx u_id u_len in
  let s1 := set_rx s q1 in
  let nevs := map (NQ QUEUE_RECEIVE) evs in
  match o with
  | Ok len =>
      let h := hdr_size (n_legacy s) in
      if len <? h then (Err EIoError, s1, nevs)          (* len.checked_sub(hdr_size) *)
      else (Ok (h, len - h), s1, nevs)
  | Err e => (Err e, s1, nevs)
  | Panic => (Panic, s1, nevs)
  | UB => (UB, s1, nevs)
  end.

(* VirtQueue::add_notify_wait_pop on queue number qi.  The busy-wait ends when can_pop holds; the
   used-ring view (u_idx, u_id, u_len) is the one at that moment (environment input).  For a view with
   can_pop = false the real code would still be waiting: the value computed here (NotReady from
   pop_used) is then meaningless and every theorem about this function assumes the contrary. *)
Definition add_notify_wait_pop (q : qstate) (qi : N) (ins outs : list ubuf)
  (taddr ae uf u_idx u_id u_len : N) : outcome N * qstate * list nev :=
  let '(o, q1, evs) := add q ins outs taddr in
  match o with
  | Ok token =>
      let '(o2, q2, evs2) := pop_used q1 token ins outs u_idx u_id u_len in
      (o2, q2, map (NQ qi) evs ++ notify_evs q1 qi ae uf ++ map (NQ qi) evs2)
  | _ => (o, q1, map (NQ qi) evs)
  end.

(* send: the buffers handed to the queue, as (contents) - one or two readable buffers *)
Definition send_payload (legacy : bool) (frame : list N) : list (list N) :=
  match frame with
  | [] => [hdr_bytes legacy]
  | _ => [hdr_bytes legacy; frame]
  end.

(* hid/haddr: identity and share answer of the header temporary; fb: the caller's frame (b_len = 0 for
   the empty frame, then it is not handed to the queue at all) *)
Definition send_bufs (legacy : bool) (hid haddr : N) (fb : ubuf) : list ubuf :=
  let hb := mkBuf hid (hdr_size legacy) haddr in
  if b_len fb =? 0 then [hb] else [hb; fb].

Definition net_send (s : netraw) (hid haddr : N) (fb : ubuf) (taddr ae uf u_idx u_id u_len : N)
  : outcome unit * netraw * list nev :=
  let '(o, q1, evs) :=
    add_notify_wait_pop (n_tx s) QUEUE_TRANSMIT (send_bufs (n_legacy s) hid haddr fb) []
                        taddr ae uf u_idx u_id u_len in
  (match o with Ok _ => Ok tt | Err e => Err e | Panic => Panic | UB => UB end, set_tx s q1, evs).

(* receive_wait: receive_begin, wait for poll_receive().is_some(), receive_complete(token) *)
Definition receive_wait (s : netraw) (b : ubuf) (ae uf u_idx u_id u_len : N)
  : outcome (N * N) * netraw * list nev :=
  let '(o, s1, evs) := receive_begin s b ae uf in
  match o with
  | Ok token =>
      let '(o2, s2, evs2) := receive_complete s1 token b u_idx u_id u_len in
      (o2, s2, evs ++ evs2)
  | Err e => (Err e, s1, evs)
  | Panic => (Panic, s1, evs)
  | UB => (UB, s1, evs)
  end.

(* ------------------------------------------------------------------------------------------------ *)
(* net_buf.rs: RxBuffer                                                                              *)
Record rxbuf := mkRx { rb_id : N; rb_len : N; rb_plen : N; rb_idx : N }.

(* RxBuffer::new(idx, buf_len, legacy): vec![0usize; buf_len / 8]; idx.try_into().unwrap().
   The identity of a fresh buffer is its first slot number. *)
Definition rxbuf_new (i buf_len : N) : outcome rxbuf :=
  if two16 <=? i then Panic else Ok (mkRx i (8 * (buf_len / 8)) 0 i).

Definition rx_ubuf (b : rxbuf) (addr : N) : ubuf := mkBuf (rb_id b) (rb_len b) addr.

(* RxBuffer::packet on a buffer whose bytes are `bytes`: &bytes[h .. h + packet_len] *)
Definition rx_packet (legacy : bool) (bytes : list N) (plen : N) : outcome (list N) :=
  let h := hdr_size legacy in
  if lenN bytes <? h + plen then Panic
  else Ok (firstn (N.to_nat (N.min plen (lenN bytes))) (skipn (N.to_nat h) bytes)).

(* ------------------------------------------------------------------------------------------------ *)
(* dev.rs: VirtIONet                                                                                 *)
Record vnet := mkV { v_raw : netraw; v_slots : list (option rxbuf) }.

(* the loop of VirtIONet::new over the slots i, i+1, ...; env: per iteration the share answer for the
   buffer and the suppression data read by should_notify (defaults when the list is exhausted) *)
Fixpoint vnet_new_loop (k : nat) (env : list (N * N * N)) (i buf_len : N) (s : netraw)
  (slots : list (option rxbuf)) : outcome unit * vnet * list nev :=
  match k with
  | O => (Ok tt, mkV s slots, [])
  | S k' =>
      let '(addr, ae, uf) := hd (0, 0, 0) env in
      match rxbuf_new i buf_len with
      | Ok b =>
          let '(o, s1, evs) := receive_begin s (rx_ubuf b addr) ae uf in
          match o with
          | Ok tok =>
              if tok =? w16 i then                                   (* assert_eq!(token, i as u16) *)
                let '(o2, v2, evs2) := vnet_new_loop k' (tl env) (i + 1) buf_len s1 (updN slots i (Some b)) in
                (o2, v2, evs ++ evs2)
              else (Panic, mkV s1 slots, evs)
          | Err e => (Err e, mkV s1 slots, evs)
          | Panic => (Panic, mkV s1 slots, evs)
          | UB => (UB, mkV s1 slots, evs)
          end
      | _ => (Panic, mkV s slots, [])
      end
  end.

Definition vnet_new (device_features size buf_len : N) (env : list (N * N * N))
  : outcome unit * vnet * list nev :=
  vnet_new_loop (N.to_nat (N.min size 32768)) env 0 buf_len (raw_new device_features size)
                (repeat None (N.to_nat (N.min size 32768))).

Definition vnet_can_send (v : vnet) : bool := raw_can_send (v_raw v).
Definition vnet_can_recv (v : vnet) (u_idx : N) : bool :=
  match poll_receive (v_raw v) u_idx 0 with Some _ => true | None => false end.

Definition set_plen (b : rxbuf) (p : N) : rxbuf := mkRx (rb_id b) (rb_len b) p (rb_idx b).
Definition set_idx (b : rxbuf) (i : N) : rxbuf := mkRx (rb_id b) (rb_len b) (rb_plen b) i.

(* VirtIONet::receive *)
Definition vnet_receive (v : vnet) (u_idx u_id u_len : N) : outcome rxbuf * vnet * list nev :=
  match poll_receive (v_raw v) u_idx u_id with
  | None => (Err ENotReady, v, [])
  | Some token =>
      match nthN_error (v_slots v) token with
      | None => (Panic, v, [])                       (* rx_buffers[token as usize]: index out of bounds *)
      | Some None => (Err EWrongToken, v, [])        (* .take() of an empty slot *)
      | Some (Some b) =>
          let slots' := updN (v_slots v) token None in
          if negb (token =? rb_idx b) then (Err EWrongToken, mkV (v_raw v) slots', [])
          else
            let '(o, s1, evs) := receive_complete (v_raw v) token (rx_ubuf b 0) u_idx u_id u_len in
            match o with
            | Ok (_, plen) => (Ok (set_plen b plen), mkV s1 slots', evs)
            | Err e => (Err e, mkV s1 slots', evs)    (* `?`: rx_buf is dropped *)
            | Panic => (Panic, mkV s1 slots', evs)
            | UB => (UB, mkV s1 slots', evs)
            end
      end
  end.

(* VirtIONet::recycle_rx_buffer *)
Definition vnet_recycle (v : vnet) (b : rxbuf) (addr ae uf : N) : outcome unit * vnet * list nev :=
  let '(o, s1, evs) := receive_begin (v_raw v) (rx_ubuf b addr) ae uf in
  match o with
  | Ok tok =>
      match nthN_error (v_slots v) tok with
      | None => (Panic, mkV s1 (v_slots v), evs)
      | Some (Some _) => (Err EWrongToken, mkV s1 (v_slots v), evs)
      | Some None => (Ok tt, mkV s1 (updN (v_slots v) tok (Some (set_idx b tok))), evs)
      end
  | Err e => (Err e, mkV s1 (v_slots v), evs)
  | Panic => (Panic, mkV s1 (v_slots v), evs)
  | UB => (UB, mkV s1 (v_slots v), evs)
  end.

(* VirtIONet::send(TxBuffer) = inner.send(tx_buf.packet()) *)
Definition vnet_send (v : vnet) (hid haddr : N) (fb : ubuf) (taddr ae uf u_idx u_id u_len : N)
  : outcome unit * vnet * list nev :=
  let '(o, s1, evs) := net_send (v_raw v) hid haddr fb taddr ae uf u_idx u_id u_len in
  (o, mkV s1 (v_slots v), evs).
