(* C12: PCI bus helpers.  Transcribed from src/transport/pci/bus.rs:                       *)
(*   Command / Status bitflags (from_bits_truncate), PciRoot::get_status_command,        *)
(*   set_command, bar_info, bars, capabilities_offset, Cam::cam_offset, Cam::size,        *)
(*   CapabilityIterator::next, BusDeviceIterator::next.                                   *)
(* The environment is (a) a reference PCI function (config-space register file) against  *)
(* which the BAR-sizing program is run, and (b) a config-read oracle for the iterators.  *)
(*                                                                                        *)
(* `bar_info` / `bars` follow the code AFTER the repairs of F5a/F5b (slot check before    *)
(* the first write; raw 16-bit command kept for disable/restore) and of F11 (size = the   *)
(* lowest writable address bit, `bar_size`).                                              *)
(* Kept for the `_refuted` lemmas and for replaying the findings:                         *)
(*   `bar_size_prefix`                       the size computation before F11              *)
(*   `bar_info_f11_prefix` / `bars_f11_prefix`  the code after F5a/F5b, before F11         *)
(*   `bar_info_prefix` / `bars_prefix`       the code before all three                    *)
From VD Require Import Base.Words.

Definition ones16 : N := 65535.
Definition ones32 : N := 4294967295.
Definition ones64 : N := 18446744073709551615.
(* `!x` on a u64 *)
Definition lnot64 (x : N) : N := N.ldiff ones64 x.
(* PciError::InvalidBarType (the only PciError) *)
Definition EInvalidBarType : N := 100.

(* ================= (a) the reference PCI function ================= *)
(* One BAR register: `s_mask` are the hard-wired bits (a write cannot change them), `s_val` the
   current content.  `s_kind` is a descriptive tag used only by the specification (`slot_truth`):
   0 unimplemented, 1 I/O, 2 memory 32-bit, 3 memory below 1 MiB, 4 memory 64-bit (low half),
   5 upper half of a 64-bit BAR, 6 memory BAR with the reserved type encoding (nothing is required of the
   reported value, only of the restored registers).  The write semantics does not look at it. *)
Record slot := mkSlot { s_kind : N; s_mask : N; s_val : N }.
(* command: all 16 bits read/write.  status: upper half of the word at 0x04, its RW1C bits are
   cleared by writing 1, everything else read-only.  f_regs: backing store (index = offset / 4) of
   every register that is neither status/command nor a BAR. *)
Record pcifn := mkFn { f_cmd : N; f_status : N; f_bars : list slot; f_regs : list N }.
Definition dslot : slot := mkSlot 0 ones32 0.

(* standard BAR write: hard-wired bits keep their value, the others take the written bits *)
Definition slot_write (s : slot) (v : N) : slot :=
  mkSlot (s_kind s) (s_mask s) (N.lor (N.land (s_mask s) (s_val s)) (N.ldiff (w32 v) (s_mask s))).

Definition STATUS_RW1C : N := 63744. (* 0xF900: bits 8, 11..15 *)
Definition is_bar_off (off : N) : bool := (16 <=? off) && (off <? 40).
Definition set_bar (d : pcifn) (i : N) (s : slot) : pcifn :=
  mkFn (f_cmd d) (f_status d) (updN (f_bars d) i s) (f_regs d).
Definition write_sc (d : pcifn) (v : N) : pcifn :=
  mkFn (w16 v) (N.ldiff (f_status d) (N.land (w32 v / 65536) STATUS_RW1C)) (f_bars d) (f_regs d).

(* 32-bit configuration read / write at a 4-aligned byte offset < 256 *)
Definition cfg_read (d : pcifn) (off : N) : N :=
  if off =? 4 then f_status d * 65536 + f_cmd d
  else if is_bar_off off then s_val (nthN (f_bars d) ((off - 16) / 4) dslot)
  else nthN (f_regs d) (off / 4) 0.
Definition cfg_write (d : pcifn) (off v : N) : pcifn :=
  if off =? 4 then write_sc d v
  else if is_bar_off off then
    set_bar d ((off - 16) / 4) (slot_write (nthN (f_bars d) ((off - 16) / 4) dslot) v)
  else mkFn (f_cmd d) (f_status d) (f_bars d) (updN (f_regs d) (off / 4) (w32 v)).

(* one configuration access, with the command register in force when it was issued *)
Record acc := mkAcc { a_write : bool; a_off : N; a_val : N; a_cmd : N }.
Definition st : Type := pcifn * list acc.
Definition rd (s : st) (off : N) : N * st :=
  (cfg_read (fst s) off, (fst s, snd s ++ [mkAcc false off (cfg_read (fst s) off) (f_cmd (fst s))])).
Definition wr (s : st) (off v : N) : st :=
  (cfg_write (fst s) off v, snd s ++ [mkAcc true off v (f_cmd (fst s))]).

(* ================= (b) the code: status/command, BAR sizing ================= *)
Definition STATUS_COMMAND_OFFSET : N := 4.
Definition BAR0_OFFSET : N := 16.
(* named bits of `Command`: 0..6, 8, 9, 10;  of `Status`: 3,4,5,7,8,11..15 *)
Definition CMD_NAMED : N := 1919.     (* 0x077F *)
Definition STATUS_NAMED : N := 63928. (* 0xF9B8 *)
Definition CMD_DECODE : N := 3.       (* IO_SPACE | MEMORY_SPACE *)
Definition STATUS_CAP_LIST : N := 16.

(* get_status_command: (Status::from_bits_truncate(w >> 16), Command::from_bits_truncate(w as u16)) *)
Definition status_command_of (w : N) : N * N :=
  (N.land (w16 (N.shiftr w 16)) STATUS_NAMED, N.land (w16 w) CMD_NAMED).
Definition get_status_command (s : st) : (N * N) * st :=
  (status_command_of (fst (rd s STATUS_COMMAND_OFFSET)), snd (rd s STATUS_COMMAND_OFFSET)).
(* set_command: write_word(.., command.bits().into()) *)
Definition set_command (s : st) (command : N) : st := wr s STATUS_COMMAND_OFFSET command.

(* BarInfo; MemoryBarType as u8: 0 Width32, 1 Below1MiB, 2 Width64 *)
Inductive barinfo :=
| BarMem (ty : N) (pf : bool) (addr size : N)
| BarIO (addr size : N).
Definition mem_bar_type (v : N) : option N := if v <=? 2 then Some v else None.

(* x.wrapping_neg() on u64 *)
Definition neg64 (x : N) : N := w64 (two64 - w64 x).
(* let address_mask = size_mask & !flag_bits; address_mask & address_mask.wrapping_neg() *)
Definition bar_size (io_space : bool) (size_mask : N) : N :=
  N.land (N.land size_mask (lnot64 (if io_space then 3 else 15)))
         (neg64 (N.land size_mask (lnot64 (if io_space then 3 else 15)))).
(* before F11: (!(size_mask & !flag_bits)).wrapping_add(1) on u64 *)
Definition bar_size_prefix (io_space : bool) (size_mask : N) : N :=
  w64 (lnot64 (N.land size_mask (lnot64 (if io_space then 3 else 15))) + 1).

(* the tail of bar_info: what is returned, from the values read *)
Definition bar_decode (szf : bool -> N -> N) (bar_orig address_top size_mask : N) : outcome (option barinfo) :=
  let io_space := N.land bar_orig 1 =? 1 in
  let size := szf io_space size_mask in
  if size_mask =? 0 then Ok None
  else if io_space then Ok (Some (BarIO (N.land bar_orig 4294967292) (w32 size)))
  else
    match mem_bar_type (w8 (N.shiftr (N.land bar_orig 6) 1)) with
    | Some ty => Ok (Some (BarMem ty (negb (N.land bar_orig 8 =? 0))
                                  (N.lor (N.land bar_orig 4294967280) (N.shiftl address_top 32))
                                  size))
    | None => Err EInvalidBarType
    end.

(* BAR0_OFFSET + 4 * bar_index in u8 arithmetic *)
Definition bar_off (m : mode) (i : N) : option N :=
  if 16 + 4 * i <=? 255 then Some (16 + 4 * i)
  else match m with Debug => None | Release => Some (w8 (16 + 4 * i)) end.

Definition result : Type := outcome (option barinfo) * pcifn * list acc.
Definition fin {A} (o : A) (s : st) : A * pcifn * list acc := (o, fst s, snd s).

(* restore the BAR, then the command register if it had been changed *)
Definition bar_finish (szf : bool -> N -> N) (restore : option N) (off bar_orig address_top size_mask : N) (s : st) : result :=
  let s1 := wr s off bar_orig in
  let s2 := match restore with Some c => set_command s1 c | None => s1 end in
  fin (bar_decode szf bar_orig address_top size_mask) s2.

(* sizing proper, shared by both versions: write all ones, read back, second half for 64-bit *)
Definition bar_probe (szf : bool -> N -> N) (check_slot : bool) (restore : option N) (off i bar_orig : N) (s : st) : result :=
  let s4 := wr s off ones32 in
  let size_lo := fst (rd s4 off) in
  let s5 := snd (rd s4 off) in
  if N.land bar_orig 7 =? 4 then
    if check_slot && (5 <=? i) then fin (Err EInvalidBarType) s5
    else
      let off1 := 16 + 4 * (i + 1) in
      let bar_top_orig := fst (rd s5 off1) in
      let s7 := wr (snd (rd s5 off1)) off1 ones32 in
      let size_top := fst (rd s7 off1) in
      let s9 := wr (snd (rd s7 off1)) off1 bar_top_orig in
      bar_finish szf restore off bar_orig bar_top_orig (N.lor size_lo (N.shiftl size_top 32)) s9
  else
    let size_top := if size_lo =? 0 then 0 else ones32 in
    bar_finish szf restore off bar_orig 0 (N.lor size_lo (N.shiftl size_top 32)) s5.

(* ---- bar_info as it was before all repairs ---- *)
Definition bar_info_prefix (m : mode) (d : pcifn) (i : N) : result :=
  let s0 : st := (d, []) in
  let command_orig := snd (fst (get_status_command s0)) in
  let s1 := snd (get_status_command s0) in
  (* command_orig & !(IO_SPACE | MEMORY_SPACE): the complement is truncated to the named bits *)
  let command_disable_decode := N.land command_orig (N.land (N.ldiff ones16 CMD_DECODE) CMD_NAMED) in
  let changed := negb (command_disable_decode =? command_orig) in
  let s2 := if changed then set_command s1 command_disable_decode else s1 in
  match bar_off m i with
  | None => fin Panic s2
  | Some off =>
      let bar_orig := fst (rd s2 off) in
      bar_probe bar_size_prefix true (if changed then Some command_orig else None) off i bar_orig (snd (rd s2 off))
  end.

(* ---- bar_info after the repairs of F5a/F5b, for a given size computation ---- *)
Definition bar_info_gen (szf : bool -> N -> N) (m : mode) (d : pcifn) (i : N) : result :=
  let s0 : st := (d, []) in
  match bar_off m i with
  | None => fin Panic s0
  | Some off =>
      let bar_orig := fst (rd s0 off) in
      let s1 := snd (rd s0 off) in
      if (N.land bar_orig 7 =? 4) && (5 <=? i) then fin (Err EInvalidBarType) s1
      else
        (* Command::from_bits_retain(word as u16) *)
        let command_orig := w16 (fst (rd s1 STATUS_COMMAND_OFFSET)) in
        let s2 := snd (rd s1 STATUS_COMMAND_OFFSET) in
        (* command_orig.difference(IO_SPACE | MEMORY_SPACE) = bits & !3 *)
        let command_disable_decode := N.land command_orig (N.ldiff ones16 CMD_DECODE) in
        let changed := negb (command_disable_decode =? command_orig) in
        let s3 := if changed then set_command s2 command_disable_decode else s2 in
        bar_probe szf false (if changed then Some command_orig else None) off i bar_orig s3
  end.
(* the code as it is now *)
Definition bar_info := bar_info_gen bar_size.
(* ... and before the repair of F11 *)
Definition bar_info_f11_prefix := bar_info_gen bar_size_prefix.

(* bars(): while bar_index < 6 { info = bar_info(..)?; bars[i] = info; i += 1 or 2 } *)
Definition takes_two (o : option barinfo) : bool :=
  match o with Some (BarMem ty _ _ _) => ty =? 2 | _ => false end.
Fixpoint bars_loop (bi : mode -> pcifn -> N -> result) (fuel : nat) (m : mode) (s : st) (i : N)
    (out : list (option barinfo)) : outcome (list (option barinfo)) * pcifn * list acc :=
  if 6 <=? i then fin (Ok out) s
  else match fuel with
  | O => fin UB s
  | S f =>
      match bi m (fst s) i with
      | (Ok info, d', tr) =>
          bars_loop bi f m (d', snd s ++ tr) (i + (if takes_two info then 2 else 1)) (updN out i info)
      | (Err e, d', tr) => (Err e, d', snd s ++ tr)
      | (Panic, d', tr) => (Panic, d', snd s ++ tr)
      | (UB, d', tr) => (UB, d', snd s ++ tr)
      end
  end.
Definition bars_with bi (m : mode) (d : pcifn) :=
  bars_loop bi 6 m (d, []) 0 [None; None; None; None; None; None].
Definition bars := bars_with bar_info.
Definition bars_prefix := bars_with bar_info_prefix.
Definition bars_f11_prefix := bars_with bar_info_f11_prefix.

(* ---- the specification side: what a slot IS, independently of how the code sizes it ---- *)
(* index of the lowest clear bit of `m` at or above `from` (fuel positions examined) *)
Fixpoint lowest_clear (m : N) (from : N) (fuel : nat) : option N :=
  match fuel with
  | O => None
  | S f => if N.testbit m from then lowest_clear m (from + 1) f else Some from
  end.
(* (kind, address, prefetchable, size) of the BAR starting in slot i, from kinds, masks and contents *)
Definition slot_truth (bs : list slot) (i : N) : option (option barinfo) :=
  let lo := nthN bs i dslot in
  let hi := nthN bs (i + 1) dslot in
  let k := s_kind lo in
  if k =? 0 then Some None
  else if k =? 1 then
    match lowest_clear (s_mask lo) 2 30 with
    | Some b => Some (Some (BarIO (N.ldiff (s_val lo) 3) (2 ^ b)))
    | None => None end
  else if (k =? 2) || (k =? 3) then
    match lowest_clear (s_mask lo) 4 28 with
    | Some b => Some (Some (BarMem (k - 2) (N.testbit (s_val lo) 3) (N.ldiff (s_val lo) 15) (2 ^ b)))
    | None => None end
  else if (k =? 4) && (i <? 5) && (s_kind hi =? 5) then
    match lowest_clear (s_mask lo + 4294967296 * s_mask hi) 4 60 with
    | Some b => Some (Some (BarMem 2 (N.testbit (s_val lo) 3)
                                   (N.ldiff (s_val lo) 15 + 4294967296 * s_val hi) (2 ^ b)))
    | None => None end
  else None.

(* the safety predicates over an access trace *)
Definition decode_on (cmd : N) : bool := negb (N.land cmd CMD_DECODE =? 0).
(* every write of the all-ones pattern to a BAR register is issued with both decode bits clear *)
Definition sizing_writes_safe (tr : list acc) : bool :=
  forallb (fun a => negb (a_write a && is_bar_off (a_off a) && (a_val a =? ones32)) || negb (decode_on (a_cmd a))) tr.
(* stronger: replaying the accesses on the function, whenever decoding is enabled after an access
   every BAR register holds its original content *)
Fixpoint decode_safe (bars0 : list N) (d : pcifn) (tr : list acc) : bool :=
  match tr with
  | [] => true
  | a :: t =>
      let d' := if a_write a then cfg_write d (a_off a) (a_val a) else d in
      (negb (decode_on (f_cmd d')) || forallb (fun p => fst p =? snd p) (combine (map s_val (f_bars d')) bars0))
      && decode_safe bars0 d' t
  end.
Definition bar_vals (d : pcifn) : list N := map s_val (f_bars d).

(* ================= (c) Cam::cam_offset, Cam::size ================= *)
Definition cam_size (ecam : bool) : N := if ecam then 268435456 else 16777216.
(* bus, register_offset are u8; device, function are u8 checked by DeviceFunction::valid *)
Definition cam_offset (ecam : bool) (bus dev fn reg : N) : outcome N :=
  if negb ((dev <? 32) && (fn <? 8)) then Panic
  else
    let bdf := N.lor (N.lor (N.shiftl bus 8) (N.shiftl dev 3)) fn in
    let address := N.lor (w32 (N.shiftl bdf (if ecam then 12 else 8))) reg in
    if negb (address <? cam_size ecam) then Panic
    else if negb (N.land address 3 =? 0) then Panic
    else Ok address.

(* ================= (d) iterators over a config-read oracle ================= *)
(* BusDeviceIterator: oracle rdw dev fn off (the bus is fixed by enumerate_bus) *)
Record dfinfo := mkInfo { i_vendor : N; i_device : N; i_class : N; i_subclass : N;
                          i_prog_if : N; i_revision : N; i_header : N }.
(* header_type: HeaderType::from(v) is injective on the 7-bit value v, which is what we record *)
Definition decode_info (device_vendor class_revision btlc : N) : dfinfo :=
  mkInfo (w16 device_vendor) (w16 (N.shiftr device_vendor 16))
         (w8 (N.shiftr class_revision 24)) (w8 (N.shiftr class_revision 16))
         (w8 (N.shiftr class_revision 8)) (w8 class_revision)
         (N.land (w8 (N.shiftr btlc 16)) 127).

Definition INVALID_READ : N := ones32.
Definition advance (dev fn : N) : N * N := if 8 <=? fn + 1 then (dev + 1, 0) else (dev, fn + 1).
(* one call of next(): the item, if any, and the iterator state afterwards *)
Fixpoint enum_next (fuel : nat) (rdw : N -> N -> N -> N) (dev fn : N)
  : option (N * N * dfinfo) * (N * N) :=
  match fuel with
  | O => (None, (dev, fn))
  | S f =>
      if dev <? 32 then
        let device_vendor := rdw dev fn 0 in
        let '(dev', fn') := advance dev fn in
        if device_vendor =? INVALID_READ then enum_next f rdw dev' fn'
        else (Some (dev, fn, decode_info device_vendor (rdw dev fn 8) (rdw dev fn 12)), (dev', fn'))
      else (None, (dev, fn))
  end.
(* collecting the iterator: next() until None *)
Fixpoint enum_collect (fuel : nat) (rdw : N -> N -> N -> N) (dev fn : N) : list (N * N * dfinfo) :=
  match fuel with
  | O => []
  | S f =>
      match enum_next 257 rdw dev fn with
      | (Some it, (dev', fn')) => it :: enum_collect f rdw dev' fn'
      | (None, _) => []
      end
  end.
Definition enumerate_bus (rdw : N -> N -> N -> N) : list (N * N * dfinfo) := enum_collect 257 rdw 0 0.

(* CapabilityIterator: oracle rdc off *)
Definition capabilities_offset (rdc : N -> N) : option N :=
  if N.land (fst (status_command_of (rdc 4))) STATUS_CAP_LIST =? 0 then None
  else Some (w8 (N.land (rdc 52) 252)).
(* next(): item (offset, id, private_header) and the new next_capability_offset *)
Definition cap_next (rdc : N -> N) (cur : option N) : option (N * N * N) * option N :=
  match cur with
  | None => (None, None)
  | Some offset =>
      let h := rdc offset in
      let id := w8 h in
      let next_offset := w8 (N.shiftr h 8) in
      let private_header := w16 (N.shiftr h 16) in
      (Some (offset, id, private_header),
       if next_offset =? 0 then None
       else if (next_offset <? 64) || negb (N.land next_offset 3 =? 0) then None
       else Some next_offset)
  end.
(* the real loop has no bound (a cyclic list never ends); the model stops after `fuel` items and
   says so in the boolean *)
Fixpoint caps_collect (fuel : nat) (rdc : N -> N) (cur : option N) : list (N * N * N) * bool :=
  match fuel with
  | O => ([], match cur with None => true | Some _ => false end)
  | S f =>
      match cap_next rdc cur with
      | (Some it, nx) => let '(l, fin) := caps_collect f rdc nx in (it :: l, fin)
      | (None, _) => ([], true)
      end
  end.
Definition capabilities (fuel : nat) (rdc : N -> N) := caps_collect fuel rdc (capabilities_offset rdc).
