(* The specification side of C15, written from VirtIO 1.2 (2.7 split virtqueues, 5.3.6 console     *)
(* device operation) and NOT from the driver:                                                      *)
(*  * an abstract console device that owns a byte stream: it takes the next available receive      *)
(*    buffer in ring order, checks that the chain is one device-writable element large enough,     *)
(*    writes a chunk of 1..4096 bytes into it and publishes a used element (head, chunk length);    *)
(*  * the product of that device with the driver model (Model/Console.v): every operation of the   *)
(*    public receive API, the device acting between operations or at any iteration of a busy-wait; *)
(*  * the ghost history: bytes the device has written, bytes the API has handed to the caller.     *)
From VD Require Import Base.Words Model.Queue Model.Console.

Record dev := mkDev {
  d_used : N;                     (* used index the device publishes *)
  d_seen : N;                     (* available entries it has taken *)
  d_ring : list (N * N);          (* the used ring *)
  d_mem : list N }.               (* what it wrote into the buffer of the entry it completed last *)

Definition dev_init : dev := mkDev 0 0 [(0, 0); (0, 0)] [].
Definition dev_view (d : dev) : view := mkView (d_used d) (d_ring d) (d_mem d).

(* the chain at `head`, as the device walks it (no indirect tables are reachable: a one-element
   chain is always direct), must be exactly one writable element that can hold the chunk *)
Definition chain_holds (q : qstate) (head n : N) : bool :=
  match walk (q_dtable q) (fun _ => None) head (N.to_nat (N.min (q_size q) 32768)) with
  | Some [(_, len, true)] => n <=? len
  | _ => false
  end.

Definition dev_head (q : qstate) (d : dev) : N :=
  nthN (q_aring q) (N.land (d_seen d) (q_size q - 1)) 0.

(* may the device deliver `chunk` now?  Only device-visible memory of the queue is consulted. *)
Definition dev_can_fill (q : qstate) (d : dev) (chunk : list N) : bool :=
  negb (d_seen d =? q_aidx q) && (1 <=? lenN chunk) && (lenN chunk <=? PAGE)
  && chain_holds q (dev_head q d) (lenN chunk).

Definition dev_fill (q : qstate) (d : dev) (chunk : list N) : dev :=
  if dev_can_fill q d chunk then
    mkDev (w16 (d_used d + 1)) (w16 (d_seen d + 1))
          (updN (d_ring d) (N.land (d_used d) (q_size q - 1)) (dev_head q d, lenN chunk)) chunk
  else d.

(* ---------- the product system ---------- *)
Record sys := mkSys {
  s_c : cstate;
  s_d : dev;
  s_written : list N;             (* ghost: every byte the device has written, in order *)
  s_delivered : list N;           (* ghost: every byte the API has handed over as consumed *)
  s_infl : list N }.              (* ghost: the chunk written but not yet popped *)

(* the bytes received and not yet consumed: queue_buf_rx[cursor .. pending_len] *)
Definition unread (c : cstate) : list N := skipn (N.to_nat (N.min (c_cursor c) PAGE)) (c_buf c).

Inductive op :=
| OFill (chunk : list N)                                   (* the device, between two calls *)
| ORecv (pop : bool) (addr ae uf : N)
| OReadReady
| OAck (isr : N)
| ORead (n addr ae uf : N) (idle : nat) (chunk : list N)   (* during the wait: idle spins, then a fill *)
| OFillBuf (addr ae uf : N) (idle : nat) (chunk : list N)
| OConsume (amt : N)
| OSend (len addr ae uf : N) (obs : list N) (v : view)     (* transmit side: any device behaviour *)
| OSize (rounds : list cfg_round)
| OEmerg (chr res : N).

(* what a call hands back: class (0 Ok, 1 Err, 2 Panic, 3 UB, 4 has not returned), a number
   (flag / count / error code) and the bytes *)
Record ret := mkRet { r_class : N; r_val : N; r_bytes : list N }.
Definition ret_of {A} (o : outcome A) (val : A -> N) (bytes : A -> list N) : ret :=
  match o with
  | Ok a => mkRet 0 (val a) (bytes a)
  | Err e => mkRet 1 e []
  | Panic => mkRet 2 0 []
  | UB => mkRet 3 0 []
  end.
Definition ret_hang : ret := mkRet 4 0 [].

(* a successful finish_receive has taken the in-flight chunk into the driver's buffer *)
Definition infl_after (before after : cstate) (infl : list N) : list N :=
  if negb (q_last_used (c_rxq before) =? q_last_used (c_rxq after)) then [] else infl.

(* views of a wait during which the device is idle for `idle` iterations and then delivers `chunk`:
   iteration 0..idle see the device as it is, the iterations after that see it after the fill *)
Definition wait_views (d d' : dev) (idle : nat) : list view :=
  repeat (dev_view d) (S idle) ++ [dev_view d'].

Definition step_wait (s : sys) (addr ae uf : N) (idle : nat) (chunk : list N)
  (call : list view -> option (outcome (N * list N)) * cstate * list cev) (consuming : bool)
  : sys * ret :=
  (* the queue memory the device looks at during the wait: after poll_retrieve *)
  let '(_, c1, _) := poll_retrieve (s_c s) addr ae uf in
  let can := dev_can_fill (c_rxq c1) (s_d s) chunk in
  let d' := dev_fill (c_rxq c1) (s_d s) chunk in
  let '(o, c', _) := call (wait_views (s_d s) d' idle) in
  (* the fill happens at spin number `idle` (0-based), if the loop gets that far; a call that
     is still spinning when the script ends has performed all its spins *)
  let spins := match o with Some (Ok (sp, _)) => sp | Some _ => 0 | None => N.of_nat idle + 2 end in
  let fired := (N.of_nat idle <? spins) && can in
  let r := match o with Some oc => ret_of oc (fun x => lenN (snd x)) (fun x => snd x) | None => ret_hang end in
  (mkSys c' (if fired then d' else s_d s) (s_written s ++ (if fired then chunk else []))
         (s_delivered s ++ (if consuming then r_bytes r else []))
         (infl_after (s_c s) c' (if fired then chunk else s_infl s)), r).

Definition sys_step (fixedc : bool) (m : mode) (s : sys) (o : op) : sys * ret :=
  let c := s_c s in
  match o with
  | OFill chunk =>
      if dev_can_fill (c_rxq c) (s_d s) chunk then
        (mkSys c (dev_fill (c_rxq c) (s_d s) chunk) (s_written s ++ chunk) (s_delivered s) chunk, mkRet 0 1 [])
      else (s, mkRet 0 0 [])
  | ORecv pop addr ae uf =>
      let '(r, c', _) := recv m c pop (dev_view (s_d s)) addr ae uf in
      let rt := ret_of r (fun x => match x with Some _ => 1 | None => 0 end)
                         (fun x => match x with Some b => [b] | None => [] end) in
      (mkSys c' (s_d s) (s_written s) (s_delivered s ++ (if pop then r_bytes rt else []))
             (infl_after c c' (s_infl s)), rt)
  | OReadReady =>
      let '(r, c', _) := read_ready c (dev_view (s_d s)) in
      (mkSys c' (s_d s) (s_written s) (s_delivered s) (infl_after c c' (s_infl s)),
       ret_of r b2n (fun _ => []))
  | OAck isr =>
      let '(r, c', _) := ack_interrupt c isr (dev_view (s_d s)) in
      (mkSys c' (s_d s) (s_written s) (s_delivered s) (infl_after c c' (s_infl s)),
       ret_of r b2n (fun _ => []))
  | ORead n addr ae uf idle chunk =>
      if n =? 0 then (s, mkRet 0 0 [])
      else step_wait s addr ae uf idle chunk (read m c n addr ae uf) true
  | OFillBuf addr ae uf idle chunk =>
      step_wait s addr ae uf idle chunk (fill_buf c addr ae uf) false
  | OConsume amt =>
      let '(r, c') := (if fixedc then consume else consume_prefix) m c amt in
      (* the bytes skipped are handed over: they are the head of what fill_buf returns *)
      let skipped := match r with Ok _ => firstn (N.to_nat (N.min amt PAGE)) (unread c) | _ => [] end in
      (mkSys c' (s_d s) (s_written s) (s_delivered s ++ skipped) (s_infl s), ret_of r (fun _ => 0) (fun _ => []))
  | OSend len addr ae uf obs v =>
      let '(r, c', _) := send_bytes c len addr ae uf obs v in
      (mkSys c' (s_d s) (s_written s) (s_delivered s) (s_infl s),
       match r with Some oc => ret_of oc (fun x => x) (fun _ => []) | None => ret_hang end)
  | OSize rounds =>
      (s, match size c rounds with
          | None => ret_hang
          | Some (r, _) => ret_of r (fun x => match x with Some _ => 1 | None => 0 end) (fun _ => [])
          end)
  | OEmerg chr res => (s, ret_of (fst (emergency_write c chr res)) (fun _ => 0) (fun _ => []))
  end.

Fixpoint sys_run (fixedc : bool) (m : mode) (s : sys) (ops : list op) : sys :=
  match ops with
  | [] => s
  | o :: rest => sys_run fixedc m (fst (sys_step fixedc m s o)) rest
  end.

(* the system right after VirtIOConsole::new *)
Definition sys_init (dev_feats addr ae uf : N) : sys :=
  let '(_, c, _) := console_new dev_feats addr ae uf in mkSys c dev_init [] [] [].

(* ---------- the same system with the free-running indices standing anywhere ---------- *)
(* The ring indices of both queues (and the device's copies of them) are 16-bit counters that wrap
   after 65536 requests.  `sys_init_at start` is the system right after VirtIOConsole::new with every
   one of those counters standing at `start` instead of 0 (what VirtQueue::verif_set_indices would
   produce on the two fresh queues): the theorems are stated for EVERY start value, so that the
   histories that cross the wrap (start = 65535, 65534 ...) are covered by a statement about a few
   operations and not only as the far end of a history of 65536 operations.  start = 0 is the code. *)
Definition console_new_at (start dev_feats addr ae uf : N) : outcome unit * cstate * list cev :=
  let f := N.land dev_feats SUPPORTED_FEATURES in
  let ind := has_flag f FEAT_INDIRECT in
  let ev := has_flag f FEAT_EVENT_IDX in
  poll_retrieve (mkC f (qset_indices (qnew QSIZE ind ev) start) (qset_indices (qnew QSIZE ind ev) start)
                     [] 0 0 None) addr ae uf.

Definition dev_init_at (start : N) : dev := mkDev start start [(0, 0); (0, 0)] [].

Definition sys_init_at (start dev_feats addr ae uf : N) : sys :=
  let '(_, c, _) := console_new_at start dev_feats addr ae uf in mkSys c (dev_init_at start) [] [] [].
