(* C11, the specification side.  Written from VirtIO 1.2 section 4.1.4 (Virtio Structure PCI        *)
(* Capabilities: struct virtio_pci_cap, struct virtio_pci_notify_cap), 4.1.4.3 (Common configuration *)
(* structure layout), 4.1.4.4 (Notification structure layout), 4.1.4.5 (ISR status capability) and    *)
(* NOT derived from the driver source:                                                               *)
(*  (1) a byte-level decoder of the capability structures and the selection rule (the first            *)
(*      structure of each type that the driver can use, in capability-list order; structures with a   *)
(*      reserved bar value, too short, or not contained in configuration space are ignored);          *)
(*  (2) what it means for a window to lie inside a memory BAR (natural-number arithmetic);            *)
(*  (3) the common-configuration register table and the property's constraints on an access trace.    *)
(* The predicates are (a) proved of the model for all inputs (Proofs/PciProofs.v) and (b) evaluated   *)
(* on what the implementation is observed to do (monitor kinds 1102, 1111, 1121).                     *)
(* Shared with Model/Pci.v: the record types capinfo, found, macc; with Model/PciBus.v: the reference *)
(* PCI function, barinfo, slot_truth, the capability walk.                                            *)
From VD Require Import Base.Words Model.PciBus Model.Pci.

(* ================= (1) struct virtio_pci_cap, byte by byte ================= *)
(* configuration space is little-endian; rd: the 32-bit word at a 4-aligned offset *)
Definition byte_at (rd : N -> N) (a : N) : N := (rd (4 * (a / 4)) / 2 ^ (8 * (a mod 4))) mod 256.
Definition le32_at (rd : N -> N) (a : N) : N :=
  byte_at rd a + 256 * byte_at rd (a + 1) + 65536 * byte_at rd (a + 2) + 16777216 * byte_at rd (a + 3).

(* offsets of the members *)
Definition V_cap_vndr : N := 0.     (* u8: generic PCI field, 0x09 = vendor-specific *)
Definition V_cap_next : N := 1.     (* u8 *)
Definition V_cap_len : N := 2.      (* u8: capability length *)
Definition V_cfg_type : N := 3.     (* u8: identifies the structure *)
Definition V_bar : N := 4.          (* u8: where to find it; 0..5, other values reserved *)
Definition V_offset : N := 8.       (* le32: offset within the bar *)
Definition V_length : N := 12.      (* le32: length of the structure, in bytes *)
Definition V_notify_off_multiplier : N := 16.  (* le32, struct virtio_pci_notify_cap only *)

Definition CFG_COMMON : N := 1.
Definition CFG_NOTIFY : N := 2.
Definition CFG_ISR : N := 3.
Definition CFG_DEVICE : N := 4.
(* sizeof(struct virtio_pci_cap) = 16; sizeof(struct virtio_pci_notify_cap) = 20 *)
Definition struct_len (ty : N) : N := if ty =? CFG_NOTIFY then 20 else 16.
Definition CONFIG_SPACE_BYTES : N := 256.

(* the capability at configuration offset `o` is a structure of type `ty` that the driver can use *)
Definition vcap_usable (rd : N -> N) (ty : N) (o : N) : bool :=
  (byte_at rd (o + V_cap_vndr) =? 9)
  && (byte_at rd (o + V_cfg_type) =? ty)
  && (struct_len ty <=? byte_at rd (o + V_cap_len))
  && (o + byte_at rd (o + V_cap_len) <=? CONFIG_SPACE_BYTES)
  && (byte_at rd (o + V_bar) <=? 5).

Definition vcap_info (rd : N -> N) (o : N) : capinfo :=
  mkCap (byte_at rd (o + V_bar)) (le32_at rd (o + V_offset)) (le32_at rd (o + V_length)).

(* offs: the capability list, in list order *)
Definition select (rd : N -> N) (offs : list N) (ty : N) : option N := find (vcap_usable rd ty) offs.
Definition spec_found (rd : N -> N) (offs : list N) : found :=
  mkFound (option_map (vcap_info rd) (select rd offs CFG_COMMON))
          (option_map (vcap_info rd) (select rd offs CFG_NOTIFY))
          (match select rd offs CFG_NOTIFY with
           | Some o => le32_at rd (o + V_notify_off_multiplier) | None => 0 end)
          (option_map (vcap_info rd) (select rd offs CFG_ISR))
          (option_map (vcap_info rd) (select rd offs CFG_DEVICE)).

(* ================= (2) windows ================= *)
(* the structure [off, off + len) lies inside the memory BAR `bi`, which has been given an address;
   the sum is a natural number: no wrap-around *)
Definition inside_bar_b (bi : option barinfo) (off len : N) : bool :=
  match bi with
  | Some (BarMem _ _ a sz) => negb (a =? 0) && (off + len <=? sz)
  | _ => false
  end.
Definition bar_addr (bi : option barinfo) : N :=
  match bi with Some (BarMem _ _ a _) => a | Some (BarIO a _) => a | None => 0 end.

(* what the driver does with each structure: the bytes it may touch from the start of the window, and
   the alignment its widest access needs.
   common: fields up to queue_device (offset 48, 8 bytes), accessed with their natural width;
   notify: 16-bit writes; ISR: one byte; device-specific: a word array *)
Definition use_size (ty : N) : N :=
  if ty =? CFG_COMMON then 56 else if ty =? CFG_NOTIFY then 2 else if ty =? CFG_ISR then 1 else 4.
Definition use_align (ty : N) : N :=
  if ty =? CFG_COMMON then 8 else if ty =? CFG_NOTIFY then 2 else if ty =? CFG_ISR then 1 else 4.

(* the structures the driver goes on to map, in the order it maps them; it stops at the first
   mandatory one that is missing *)
Definition wanted (f : found) : list (N * capinfo) :=
  match fd_common f with
  | None => []
  | Some c => (CFG_COMMON, c) ::
      match fd_notify f with
      | None => []
      | Some n => (CFG_NOTIFY, n) ::
          match fd_isr f with
          | None => []
          | Some i => (CFG_ISR, i) :: match fd_device f with None => [] | Some dv => [(CFG_DEVICE, dv)] end
          end
      end
  end.

(* one mmio_phys_to_virt request (paddr, size) with its answer vaddr, against the structure it is for.
   `truth`: what the BAR register(s) at that index ARE (slot_truth of the reference function: from the
   hard-wired masks, not from any sizing); None = no well-formed BAR starts there: nothing is claimed *)
Definition window_ok_b (bars : list slot) (check_align : bool) (want : N * capinfo) (req : N * N * N) : bool :=
  let '(ty, ci) := want in
  let '(paddr, size, vaddr) := req in
  (ci_bar ci <=? 5)
  && match slot_truth bars (ci_bar ci) with
     | Some tr =>
         inside_bar_b tr (ci_off ci) (ci_len ci)
         && (paddr =? bar_addr tr + ci_off ci) && (size =? ci_len ci)
         && (use_size ty <=? ci_len ci)
     | None => true
     end
  && (negb check_align || (vaddr mod use_align ty =? 0)).

Fixpoint windows_ok_b (bars : list slot) (all_aligned : bool) (want : list (N * capinfo)) (reqs : list (N * N * N)) : bool :=
  match reqs, want with
  | [], _ => true
  | r :: rt, w :: wt =>
      window_ok_b bars (all_aligned || negb (match rt with [] => true | _ => false end)) w r
      && windows_ok_b bars all_aligned wt rt
  | _ :: _, [] => false          (* a request that no selected structure accounts for *)
  end.

Definition is_some {A} (o : option A) : bool := match o with Some _ => true | None => false end.

(* the monitor of PciTransport::new.  d: the PCI function (with the descriptive kind of each register);
   rc: 0 = a transport was returned, 1 = an error, 2 = a panic; reqs: the mmio_phys_to_virt requests
   observed, in order, each with the address answered *)
Definition new_conform_b (d : pcifn) (rc : N) (reqs : list (N * N * N)) : bool :=
  let rd := cfg_read d in
  let '(caps, fin) := capabilities 65 rd in
  if negb fin then true      (* a cyclic list: outside the property, never given to the real code *)
  else
    let f := spec_found rd (map (fun c => fst (fst c)) caps) in
    (rc <? 2)
    && (if rc =? 0 then
          is_some (fd_common f) && is_some (fd_notify f) && is_some (fd_isr f)
          && (fd_mult f mod 2 =? 0)
          && (lenN reqs =? lenN (wanted f))
          && windows_ok_b (f_bars d) true (wanted f) reqs
        else
          (* refused: whatever was mapped before the refusal still lies inside memory BARs; only the
             last request may be the one whose address was found misaligned *)
          windows_ok_b (f_bars d) false (wanted f) reqs).

(* ================= (3) the common configuration structure, 4.1.4.3 ================= *)
Inductive dir := RO | RW.
Record creg := mkCreg { cr_off : N; cr_width : N; cr_dir : dir; cr_perq : bool }.

Definition S_device_feature_select : N := 0.
Definition S_device_feature : N := 4.
Definition S_driver_feature_select : N := 8.
Definition S_driver_feature : N := 12.
Definition S_config_msix_vector : N := 16.
Definition S_num_queues : N := 18.
Definition S_device_status : N := 20.
Definition S_config_generation : N := 21.
Definition S_queue_select : N := 22.
Definition S_queue_size : N := 24.
Definition S_queue_msix_vector : N := 26.
Definition S_queue_enable : N := 28.
Definition S_queue_notify_off : N := 30.
Definition S_queue_desc : N := 32.
Definition S_queue_driver : N := 40.
Definition S_queue_device : N := 48.
Definition S_queue_notify_data : N := 56.
Definition S_queue_reset : N := 58.

Definition common_table : list creg :=
  [ mkCreg S_device_feature_select 4 RW false;
    mkCreg S_device_feature 4 RO false;
    mkCreg S_driver_feature_select 4 RW false;
    mkCreg S_driver_feature 4 RW false;
    mkCreg S_config_msix_vector 2 RW false;
    mkCreg S_num_queues 2 RO false;
    mkCreg S_device_status 1 RW false;
    mkCreg S_config_generation 1 RO false;
    mkCreg S_queue_select 2 RW false;
    mkCreg S_queue_size 2 RW true;
    mkCreg S_queue_msix_vector 2 RW true;
    mkCreg S_queue_enable 2 RW true;
    mkCreg S_queue_notify_off 2 RO true;
    mkCreg S_queue_desc 8 RW true;
    mkCreg S_queue_driver 8 RW true;
    mkCreg S_queue_device 8 RW true;
    mkCreg S_queue_notify_data 2 RO true;
    mkCreg S_queue_reset 2 RW true ].

(* the windows of a transport as the platform mapped them: virtual address and length in bytes *)
Record wins := mkWins { w_common : N; w_common_len : N; w_notify : N; w_notify_len : N; w_mult : N;
                        w_isr : N; w_isr_len : N }.

Definition clookup (off : N) : option creg := find (fun r => cr_off r =? off) common_table.
Definition in_window (base len : N) (a : macc) : bool :=
  (base <=? m_addr a) && (m_addr a + m_width a <=? base + len).

(* an access is acceptable when it is, for one of the windows, an access the structure allows:
   common: a whole field of the table, with the field's width, not a write to a read-only field;
   notify: a 16-bit write; ISR: a read of the single byte *)
Definition acc_common_b (w : wins) (a : macc) : bool :=
  in_window (w_common w) (w_common_len w) a
  && match clookup (m_addr a - w_common w) with
     | Some r => (m_width a =? cr_width r) && match cr_dir r with RO => negb (m_write a) | RW => true end
     | None => false
     end.
Definition acc_notify_b (w : wins) (a : macc) : bool :=
  in_window (w_notify w) (w_notify_len w) a && m_write a && (m_width a =? 2)
  && ((m_addr a - w_notify w) mod 2 =? 0).
Definition acc_isr_b (w : wins) (a : macc) : bool :=
  in_window (w_isr w) (w_isr_len w) a && negb (m_write a) && (m_width a =? 1) && (m_addr a =? w_isr w).
Definition acc_ok (w : wins) (a : macc) : bool := acc_common_b w a || acc_notify_b w a || acc_isr_b w a.
Definition table_ok (w : wins) (tr : list macc) : bool := forallb (acc_ok w) tr.

Definition at_c (w : wins) (off : N) (a : macc) : bool := m_addr a =? w_common w + off.
Definition is_cw (w : wins) (off : N) (a : macc) : bool := m_write a && at_c w off a.
Definition is_cr (w : wins) (off : N) (a : macc) : bool := negb (m_write a) && at_c w off a.
Definition cwvals (w : wins) (off : N) (tr : list macc) : list N := map m_val (filter (is_cw w off) tr).
Definition crvals (w : wins) (off : N) (tr : list macc) : list N := map m_val (filter (is_cr w off) tr).
Definition no_reads (tr : list macc) : bool := forallb m_write tr.
Definition no_writes (tr : list macc) : bool := forallb (fun a => negb (m_write a)) tr.
Definition is_nil {A} (l : list A) : bool := match l with [] => true | _ => false end.
Fixpoint list_eqb (a b : list N) : bool :=
  match a, b with
  | [], [] => true
  | x :: a', y :: b' => (x =? y) && list_eqb a' b'
  | _, _ => false
  end.
Fixpoint memN (x : N) (l : list N) : bool :=
  match l with [] => false | y :: t => (x =? y) || memN x t end.

(* is the access an access to a per-queue field of the common structure (with that field's width) *)
Definition perq (w : wins) (a : macc) : bool :=
  acc_common_b w a
  && match clookup (m_addr a - w_common w) with Some r => cr_perq r | None => false end.

(* ---------- queue_select before any per-queue field, within the operation ---------- *)
Fixpoint qsel_scan (w : wins) (oq : option N) (sel : bool) (tr : list macc) : bool :=
  match tr with
  | [] => true
  | a :: t =>
      if is_cw w S_queue_select a then
        (match oq with Some q => m_val a =? q | None => true end) && qsel_scan w oq true t
      else if perq w a then sel && qsel_scan w oq sel t
      else qsel_scan w oq sel t
  end.

(* ---------- a queue is enabled last, after its size and its three addresses ---------- *)
Definition is_enable (w : wins) (a : macc) : bool := is_cw w S_queue_enable a && negb (m_val a =? 0).
Definition qparams : list N := [S_queue_size; S_queue_desc; S_queue_driver; S_queue_device].
(* written: offsets written since the last queue_select write *)
Fixpoint enable_scan (w : wins) (written : list N) (tr : list macc) : bool :=
  match tr with
  | [] => true
  | a :: t =>
      if is_cw w S_queue_select a then enable_scan w [] t
      else if is_enable w a then is_nil t && forallb (fun p => memN p written) qparams
      else if m_write a then enable_scan w ((m_addr a - w_common w) :: written) t
      else enable_scan w written t
  end.

(* ---------- (selector, data) pairs: the feature words ---------- *)
Fixpoint sel_scan (w : wins) (sel_off data_off : N) (wdata : bool) (cur : option N) (tr : list macc)
  : option (list (N * N)) :=
  match tr with
  | [] => Some []
  | a :: t =>
      if is_cw w sel_off a then sel_scan w sel_off data_off wdata (Some (m_val a)) t
      else if at_c w data_off a && Bool.eqb (m_write a) wdata then
        match cur, sel_scan w sel_off data_off wdata cur t with
        | Some s, Some ps => Some ((s, m_val a) :: ps)
        | _, _ => None
        end
      else sel_scan w sel_off data_off wdata cur t
  end.
Fixpoint assocN (k : N) (l : list (N * N)) : option N :=
  match l with [] => None | (k', x) :: t => if k' =? k then Some x else assocN k t end.
Definition words_ok (w : wins) (sel_off data_off : N) (wdata : bool) (value : N) (tr : list macc) : bool :=
  match sel_scan w sel_off data_off wdata None tr with
  | Some ps =>
      forallb (fun p => fst p <? 2) ps &&
      match assocN 0 ps, assocN 1 ps with
      | Some lo, Some hi => lo + two32 * hi =? value
      | _, _ => false
      end
  | None => false
  end.

(* ---------- notification, 4.1.4.4: queue_notify_off * notify_off_multiplier into the window ---------- *)
Definition in_notify (w : wins) (a : macc) : bool := in_window (w_notify w) (w_notify_len w) a.
Definition notify_ok (w : wins) (q rc : N) (tr : list macc) : bool :=
  match crvals w S_queue_notify_off tr with
  | [off] =>
      if rc =? 0 then
        (* the notification is the last access; everything before it concerns the common structure *)
        match rev tr with
        | a :: pre =>
            m_write a && (m_width a =? 2) && (m_val a =? q)
            && (m_addr a =? w_notify w + off * w_mult w)
            && (off * w_mult w + 2 <=? w_notify_len w)
            && forallb (acc_common_b w) pre
        | [] => false
        end
      else
        (* refused (a panic): nothing may have been touched but the common structure *)
        forallb (acc_common_b w) tr
  | _ => false
  end.

(* ---------- drop: reset, then wait until the device reports the reset complete ---------- *)
(* device_status reads back 0 when the reset is done; bits 4 and 5 of the byte are reserved (no status
   flag), the driver's test ignores them *)
Definition STATUS_FLAGS : N := 207.
Definition drop_ok (w : wins) (tr : list macc) : bool :=
  match tr with
  | a :: rest =>
      is_cw w S_device_status a && (m_val a =? 0)
      && forallb (is_cr w S_device_status) rest
      && match rev rest with
         | l :: _ => N.land (m_val l) STATUS_FLAGS =? 0
         | [] => false
         end
  | [] => false
  end.

(* ---------- per operation ---------- *)
(* operation codes: Model/Pci.v op_code *)
Definition queue_of (opc a1 : N) : option N :=
  if (opc =? 3) || (opc =? 4) || (opc =? 9) || (opc =? 11) then Some a1 else None.

(* the fields of the common structure an operation may touch *)
Definition allowed (opc : N) : list N :=
  match opc with
  | 1 => [S_device_feature_select; S_device_feature]
  | 2 => [S_driver_feature_select; S_driver_feature]
  | 3 => [S_queue_select; S_queue_size]
  | 4 => [S_queue_select; S_queue_notify_off]
  | 5 | 6 | 14 => [S_device_status]
  | 9 => [S_queue_select; S_queue_size; S_queue_desc; S_queue_driver; S_queue_device; S_queue_enable]
  | 11 => [S_queue_select; S_queue_enable]
  | _ => []
  end.
Definition allowed_b (w : wins) (opc : N) (a : macc) : bool :=
  (acc_common_b w a && memN (m_addr a - w_common w) (allowed opc))
  || (acc_notify_b w a && (opc =? 4))
  || (acc_isr_b w a && (opc =? 12)).

Definition op_ok (w : wins) (opc a1 a2 a3 a4 a5 rc rv : N) (tr : list macc) : bool :=
  match opc with
  | 1 => words_ok w S_device_feature_select S_device_feature false rv tr
  | 2 => words_ok w S_driver_feature_select S_driver_feature true a1 tr
  | 3 => list_eqb (crvals w S_queue_size tr) [rv]
  | 4 => notify_ok w a1 rc tr
  | 5 => no_writes tr && match crvals w S_device_status tr with [x] => rv =? N.land x STATUS_FLAGS | _ => false end
  | 6 => no_reads tr && list_eqb (cwvals w S_device_status tr) [a1 mod 256]
  | 9 =>
      no_reads tr && list_eqb (cwvals w S_queue_select tr) [a1]
      && list_eqb (cwvals w S_queue_size tr) [a2 mod 65536]
      && list_eqb (cwvals w S_queue_desc tr) [a3] && list_eqb (cwvals w S_queue_driver tr) [a4]
      && list_eqb (cwvals w S_queue_device tr) [a5] && list_eqb (cwvals w S_queue_enable tr) [1]
  | 11 =>
      list_eqb (cwvals w S_queue_select tr) [a1]
      && match crvals w S_queue_enable tr with [x] => rv =? b2n (x =? 1) | _ => false end
  | 12 => match tr with [a] => rv =? m_val a | _ => false end
  | 14 => drop_ok w tr
  | _ => is_nil tr           (* device_type, set_guest_page_size, requires_legacy_layout, queue_unset *)
  end.

(* the monitor: the property evaluated on one operation's access trace *)
Definition pci_conform_b (w : wins) (opc a1 a2 a3 a4 a5 rc rv : N) (tr : list macc) : bool :=
  table_ok w tr
  && forallb (allowed_b w opc) tr
  && qsel_scan w (queue_of opc a1) false tr
  && ((opc =? 4) || enable_scan w [] tr)   (* a notification is not a write to the common structure *)
  && ((rc =? 0) || (opc =? 4))          (* only notify may refuse (panic) *)
  && op_ok w opc a1 a2 a3 a4 a5 rc rv tr.

(* ---------- a whole session: new; operations; drop ---------- *)
(* every access of the transport's life lies in the windows and respects the table; the life ends
   with the reset and the wait *)
Fixpoint last_reset (w : wins) (tr : list macc) (acc : list macc) : list macc :=
  match tr with
  | [] => acc
  | a :: t => if is_cw w S_device_status a && (m_val a =? 0) then last_reset w t (a :: t) else last_reset w t acc
  end.
Definition session_conform_b (w : wins) (tr : list macc) : bool :=
  table_ok w tr && drop_ok w (last_reset w tr []).
