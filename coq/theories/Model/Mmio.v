(* C10: the MMIO transport, register access by register access.                          *)
(* Transcribed from src/transport/mmio.rs (VirtIOHeader, MmioTransport::new /             *)
(* new_from_unique, impl Transport for MmioTransport, impl Drop), src/transport/mod.rs    *)
(* (TryFrom<u32> for DeviceType, begin_init, finish_init, InterruptStatus) and            *)
(* src/transport/some.rs (SomeTransport::Mmio arms).                                      *)
(*                                                                                        *)
(* Every operation is a function from its arguments and the values the device answers to  *)
(* reads (a list, consumed in order; an exhausted list answers 0) to                      *)
(* (result, ordered list of register accesses). An access is (is_write, offset, width in  *)
(* bytes, value). safe-mmio performs one access of size_of::<T>() bytes for a field of    *)
(* 1/2/4/8 bytes (backend/mmio_ops.rs read/write), and every field used here is a u32 (or *)
(* the transparent u32 wrapper DeviceStatus), hence width 4.                              *)
From VD Require Import Base.Words.

Inductive version := Legacy | Modern.

Record access := mkAcc { a_write : bool; a_off : N; a_width : N; a_val : N }.

(* ---------- #[repr(C)] struct VirtIOHeader, field by field, in declaration order ---------- *)
Inductive field :=
| F_magic | F_version | F_device_id | F_vendor_id | F_device_features | F_device_features_sel
| F_r1 | F_driver_features | F_driver_features_sel | F_legacy_guest_page_size | F_r2
| F_queue_sel | F_queue_num_max | F_queue_num | F_legacy_queue_align | F_legacy_queue_pfn
| F_queue_ready | F_r3 | F_queue_notify | F_r4 | F_interrupt_status | F_interrupt_ack | F_r5
| F_status | F_r6 | F_queue_desc_low | F_queue_desc_high | F_r7 | F_queue_driver_low
| F_queue_driver_high | F_r8 | F_queue_device_low | F_queue_device_high | F_r9
| F_config_generation.

(* safe-mmio wrapper of the field: which accessor methods exist for it *)
Inductive fkind := KReadPure | KWriteOnly | KReadPureWrite | KReserved.

(* (field, wrapper, size in bytes); every member is u32-aligned, so repr(C) inserts no padding *)
Definition header_layout : list (field * fkind * N) :=
  [ (F_magic, KReadPure, 4); (F_version, KReadPure, 4); (F_device_id, KReadPure, 4);
    (F_vendor_id, KReadPure, 4); (F_device_features, KReadPure, 4);
    (F_device_features_sel, KWriteOnly, 4); (F_r1, KReserved, 8);
    (F_driver_features, KWriteOnly, 4); (F_driver_features_sel, KWriteOnly, 4);
    (F_legacy_guest_page_size, KWriteOnly, 4); (F_r2, KReserved, 4);
    (F_queue_sel, KWriteOnly, 4); (F_queue_num_max, KReadPure, 4); (F_queue_num, KWriteOnly, 4);
    (F_legacy_queue_align, KWriteOnly, 4); (F_legacy_queue_pfn, KReadPureWrite, 4);
    (F_queue_ready, KReadPureWrite, 4); (F_r3, KReserved, 8); (F_queue_notify, KWriteOnly, 4);
    (F_r4, KReserved, 12); (F_interrupt_status, KReadPure, 4); (F_interrupt_ack, KWriteOnly, 4);
    (F_r5, KReserved, 8); (F_status, KReadPureWrite, 4); (F_r6, KReserved, 12);
    (F_queue_desc_low, KWriteOnly, 4); (F_queue_desc_high, KWriteOnly, 4); (F_r7, KReserved, 8);
    (F_queue_driver_low, KWriteOnly, 4); (F_queue_driver_high, KWriteOnly, 4); (F_r8, KReserved, 8);
    (F_queue_device_low, KWriteOnly, 4); (F_queue_device_high, KWriteOnly, 4);
    (F_r9, KReserved, 84); (F_config_generation, KReadPure, 4) ].

Definition field_tag (f : field) : N :=
  match f with
  | F_magic => 0 | F_version => 1 | F_device_id => 2 | F_vendor_id => 3 | F_device_features => 4
  | F_device_features_sel => 5 | F_r1 => 6 | F_driver_features => 7 | F_driver_features_sel => 8
  | F_legacy_guest_page_size => 9 | F_r2 => 10 | F_queue_sel => 11 | F_queue_num_max => 12
  | F_queue_num => 13 | F_legacy_queue_align => 14 | F_legacy_queue_pfn => 15 | F_queue_ready => 16
  | F_r3 => 17 | F_queue_notify => 18 | F_r4 => 19 | F_interrupt_status => 20
  | F_interrupt_ack => 21 | F_r5 => 22 | F_status => 23 | F_r6 => 24 | F_queue_desc_low => 25
  | F_queue_desc_high => 26 | F_r7 => 27 | F_queue_driver_low => 28 | F_queue_driver_high => 29
  | F_r8 => 30 | F_queue_device_low => 31 | F_queue_device_high => 32 | F_r9 => 33
  | F_config_generation => 34
  end.

(* offset_of!(VirtIOHeader, f): the sizes of the members declared before f *)
Fixpoint offset_in (l : list (field * fkind * N)) (f : field) (acc : N) : N :=
  match l with
  | [] => acc
  | (g, _, sz) :: t => if field_tag g =? field_tag f then acc else offset_in t f (acc + sz)
  end.
Definition offset_of (f : field) : N := offset_in header_layout f 0.
Definition header_size : N := fold_right (fun x s => snd x + s) 0 header_layout.

Definition kind_of (f : field) : fkind :=
  match find (fun x => field_tag (fst (fst x)) =? field_tag f) header_layout with
  | Some (_, k, _) => k
  | None => KReserved
  end.

(* the offsets the compiler derives from the declaration (computed once, from header_layout) *)
Definition o_magic : N := Eval vm_compute in offset_of F_magic.
Definition o_version : N := Eval vm_compute in offset_of F_version.
Definition o_device_id : N := Eval vm_compute in offset_of F_device_id.
Definition o_vendor_id : N := Eval vm_compute in offset_of F_vendor_id.
Definition o_device_features : N := Eval vm_compute in offset_of F_device_features.
Definition o_device_features_sel : N := Eval vm_compute in offset_of F_device_features_sel.
Definition o_driver_features : N := Eval vm_compute in offset_of F_driver_features.
Definition o_driver_features_sel : N := Eval vm_compute in offset_of F_driver_features_sel.
Definition o_guest_page_size : N := Eval vm_compute in offset_of F_legacy_guest_page_size.
Definition o_queue_sel : N := Eval vm_compute in offset_of F_queue_sel.
Definition o_queue_num_max : N := Eval vm_compute in offset_of F_queue_num_max.
Definition o_queue_num : N := Eval vm_compute in offset_of F_queue_num.
Definition o_queue_align : N := Eval vm_compute in offset_of F_legacy_queue_align.
Definition o_queue_pfn : N := Eval vm_compute in offset_of F_legacy_queue_pfn.
Definition o_queue_ready : N := Eval vm_compute in offset_of F_queue_ready.
Definition o_queue_notify : N := Eval vm_compute in offset_of F_queue_notify.
Definition o_interrupt_status : N := Eval vm_compute in offset_of F_interrupt_status.
Definition o_interrupt_ack : N := Eval vm_compute in offset_of F_interrupt_ack.
Definition o_status : N := Eval vm_compute in offset_of F_status.
Definition o_queue_desc_low : N := Eval vm_compute in offset_of F_queue_desc_low.
Definition o_queue_desc_high : N := Eval vm_compute in offset_of F_queue_desc_high.
Definition o_queue_driver_low : N := Eval vm_compute in offset_of F_queue_driver_low.
Definition o_queue_driver_high : N := Eval vm_compute in offset_of F_queue_driver_high.
Definition o_queue_device_low : N := Eval vm_compute in offset_of F_queue_device_low.
Definition o_queue_device_high : N := Eval vm_compute in offset_of F_queue_device_high.
Definition o_config_generation : N := Eval vm_compute in offset_of F_config_generation.

(* field!(..).write(v) / field_shared!(..).read() on a 4-byte field: one 32-bit access *)
Definition W (off v : N) : access := mkAcc true off 4 v.
Definition R (off v : N) : access := mkAcc false off 4 v.

(* the k-th value the device answers (a u32); an exhausted list answers 0 *)
Definition ans_nth (ans : list N) (k : nat) : N := w32 (nth k ans 0).

(* ---------- constants ---------- *)
Definition MAGIC_VALUE : N := 0x74726976.
Definition LEGACY_VERSION : N := 1.
Definition MODERN_VERSION : N := 2.
Definition CONFIG_SPACE_OFFSET : N := 0x100.
Definition PAGE_SIZE : N := 0x1000.

Definition version_num (v : version) : N := match v with Legacy => 1 | Modern => 2 end.

(* TryFrom<u32> for DeviceType (src/transport/mod.rs), the result as the enum's u8 discriminant.
   As written, ID 5 yields DeviceType::MemoryBalloon (discriminant 13), not MemoryBallooning (5). *)
Definition device_type_of (id : N) : option N :=
  match id with
  | 1 => Some 1 | 2 => Some 2 | 3 => Some 3 | 4 => Some 4
  | 5 => Some 13
  | 6 => Some 6 | 7 => Some 7 | 8 => Some 8 | 9 => Some 9 | 10 => Some 10 | 11 => Some 11
  | 12 => Some 12 | 13 => Some 13
  | 16 => Some 16 | 17 => Some 17 | 18 => Some 18 | 19 => Some 19 | 20 => Some 20
  | 21 => Some 21 | 22 => Some 22 | 23 => Some 23 | 24 => Some 24 | 25 => Some 25
  | _ => None
  end.

(* ---------- probing: MmioTransport::new + new_from_unique ---------- *)
(* MmioError *)
Definition ME_BadMagic : N := 1.
Definition ME_UnsupportedVersion : N := 2.
Definition ME_InvalidDeviceID : N := 3.
Definition ME_MmioRegionTooSmall : N := 4.

Inductive probe_result :=
| POk (v : version) (device_type : N)
| PErr (code payload : N).

(* magic / version / device_id: what the device answers when that register is read *)
Definition probe (mmio_size magic version device_id : N) : probe_result * list access :=
  (* mmio_size.checked_sub(CONFIG_SPACE_OFFSET) *)
  if mmio_size <? CONFIG_SPACE_OFFSET then (PErr ME_MmioRegionTooSmall 0, [])
  else
    let magic := w32 magic in
    let t1 := [R o_magic magic] in
    if negb (magic =? MAGIC_VALUE) then (PErr ME_BadMagic magic, t1)
    else
      let device_id := w32 device_id in
      let t2 := t1 ++ [R o_device_id device_id] in
      match device_type_of device_id with
      | None => (PErr ME_InvalidDeviceID device_id, t2)
      | Some dt =>
          let version := w32 version in
          let t3 := t2 ++ [R o_version version] in
          if version =? LEGACY_VERSION then (POk Legacy dt, t3)
          else if version =? MODERN_VERSION then (POk Modern dt, t3)
          else (PErr ME_UnsupportedVersion version, t3)
      end.

(* ---------- the Transport interface ---------- *)
Inductive op :=
| ODeviceType
| OReadDeviceFeatures
| OWriteDriverFeatures (features : N)
| OMaxQueueSize (queue : N)
| ONotify (queue : N)
| OGetStatus
| OSetStatus (status : N)
| OSetGuestPageSize (size : N)
| ORequiresLegacyLayout
| OQueueSet (queue size descriptors driver_area device_area : N)
| OQueueUnset (queue : N)
| OQueueUsed (queue : N)
| OAckInterrupt
| OReadConfigGeneration
| ODrop
| OVendorId                      (* inherent method, not part of Transport *)
| OBeginInit (supported : N)     (* provided method of the trait, run on this transport *)
| OFinishInit.

(* u64 `a - b`: overflow panics in the debug profile and wraps in release *)
Definition sub_u64 (m : mode) (a b : N) : outcome N :=
  if b <=? a then Ok (a - b)
  else match m with Debug => Panic | Release => Ok (a + two64 - b) end.

(* src/lib.rs align_up_phys: (size + PAGE_SIZE_PHYS) & !(PAGE_SIZE_PHYS - 1), as written *)
Definition align_up_phys (x : N) : N := N.ldiff (x + PAGE_SIZE) 4095.

Definition read_device_features_trace (lo hi : N) : list access :=
  [W o_device_features_sel 0; R o_device_features lo;
   W o_device_features_sel 1; R o_device_features hi].

Definition write_driver_features_trace (f : N) : list access :=
  [W o_driver_features_sel 0; W o_driver_features (w32 f);
   W o_driver_features_sel 1; W o_driver_features (w32 (N.shiftr f 32))].

(* the three asserts and the unwrap of the legacy branch of queue_set; Ok pfn when all pass *)
Definition legacy_queue_set_checks (m : mode) (size desc drv dev : N) : outcome N :=
  match sub_u64 m drv desc with
  | Ok d1 =>
      if negb (d1 =? 16 * size) then Panic
      else match sub_u64 m dev desc with
           | Ok d2 =>
               if negb (d2 =? align_up_phys (16 * size + 2 * (size + 3))) then Panic
               else
                 let pfn := desc / PAGE_SIZE in
                 if two32 <=? pfn then Panic                    (* try_into::<u32>().unwrap() *)
                 else if negb (pfn * PAGE_SIZE =? desc) then Panic
                 else Ok pfn
           | _ => Panic
           end
  | _ => Panic
  end.

(* `while queue_ready.read() != 0 {}`: one read per iteration, until the device answers 0 *)
Fixpoint spin_ready (ans : list N) : list access :=
  match ans with
  | [] => [R o_queue_ready 0]
  | a :: t => if w32 a =? 0 then [R o_queue_ready 0] else R o_queue_ready (w32 a) :: spin_ready t
  end.

Definition VERSION_1_BIT : N := 0x100000000.

Definition exec (m : mode) (v : version) (device_type : N) (o : op) (ans : list N)
  : outcome N * list access :=
  match o with
  | ODeviceType => (Ok device_type, [])
  | OReadDeviceFeatures =>
      let lo := ans_nth ans 0 in
      let hi := ans_nth ans 1 in
      (* u64::from(lo) + ((hi as u64) << 32): both terms below 2^64 and the sum as well *)
      (Ok (lo + N.shiftl hi 32), read_device_features_trace lo hi)
  | OWriteDriverFeatures f => (Ok 0, write_driver_features_trace f)
  | OMaxQueueSize q =>
      let a := ans_nth ans 0 in (Ok a, [W o_queue_sel q; R o_queue_num_max a])
  | ONotify q => (Ok 0, [W o_queue_notify q])
  | OGetStatus => let a := ans_nth ans 0 in (Ok a, [R o_status a])
  | OSetStatus s => (Ok 0, [W o_status s])
  | OSetGuestPageSize p =>
      match v with
      | Legacy => (Ok 0, [W o_guest_page_size p])
      | Modern => (Ok 0, [])
      end
  | ORequiresLegacyLayout => (Ok (match v with Legacy => 1 | Modern => 0 end), [])
  | OQueueSet q size desc drv dev =>
      match v with
      | Legacy =>
          match legacy_queue_set_checks m size desc drv dev with
          | Ok pfn =>
              (Ok 0, [W o_queue_sel q; W o_queue_num size; W o_queue_align PAGE_SIZE;
                      W o_queue_pfn pfn])
          | _ => (Panic, [])
          end
      | Modern =>
          (Ok 0, [W o_queue_sel q; W o_queue_num size;
                  W o_queue_desc_low (w32 desc); W o_queue_desc_high (w32 (N.shiftr desc 32));
                  W o_queue_driver_low (w32 drv); W o_queue_driver_high (w32 (N.shiftr drv 32));
                  W o_queue_device_low (w32 dev); W o_queue_device_high (w32 (N.shiftr dev 32));
                  W o_queue_ready 1])
      end
  | OQueueUnset q =>
      match v with
      | Legacy =>
          (Ok 0, [W o_queue_sel q; W o_queue_num 0; W o_queue_align 0; W o_queue_pfn 0])
      | Modern =>
          (Ok 0, [W o_queue_sel q; W o_queue_ready 0] ++ spin_ready ans ++
                 [W o_queue_num 0; W o_queue_desc_low 0; W o_queue_desc_high 0;
                  W o_queue_driver_low 0; W o_queue_driver_high 0;
                  W o_queue_device_low 0; W o_queue_device_high 0])
      end
  | OQueueUsed q =>
      let a := ans_nth ans 0 in
      (Ok (b2n (negb (a =? 0))),
       [W o_queue_sel q; R (match v with Legacy => o_queue_pfn | Modern => o_queue_ready end) a])
  | OAckInterrupt =>
      let a := ans_nth ans 0 in
      if negb (a =? 0) then
        (* InterruptStatus::from_bits_truncate: the two defined bits *)
        (Ok (N.land a 3), [R o_interrupt_status a; W o_interrupt_ack a])
      else (Ok 0, [R o_interrupt_status a])
  | OReadConfigGeneration =>
      match v with
      | Legacy => (Ok 0, [])           (* the legacy layout has no ConfigGeneration register *)
      | Modern => let a := ans_nth ans 0 in (Ok a, [R o_config_generation a])
      end
  | ODrop => (Ok 0, [W o_status 0])                    (* self.set_status(DeviceStatus::empty()) *)
  | OVendorId => let a := ans_nth ans 0 in (Ok a, [R o_vendor_id a])
  | OBeginInit supported =>
      (* `supported` is a value of the flags type F, so its bits are among F's defined bits and
         from_bits_truncate(device) & supported = device & supported *)
      let lo := ans_nth ans 0 in
      let hi := ans_nth ans 1 in
      let device := lo + N.shiftl hi 32 in
      let negotiated := N.land device supported in
      let t1 := [W o_status 0; W o_status 3] ++ read_device_features_trace lo hi in
      match m with
      | Debug =>
          if negb (N.land device VERSION_1_BIT =? 0) && (N.land negotiated VERSION_1_BIT =? 0)
          then (Panic, t1)                                   (* the debug_assert! *)
          else (Ok negotiated,
                t1 ++ write_driver_features_trace negotiated ++ [W o_status 11] ++
                match v with Legacy => [W o_guest_page_size PAGE_SIZE] | Modern => [] end)
      | Release =>
          (Ok negotiated,
           t1 ++ write_driver_features_trace negotiated ++ [W o_status 11] ++
           match v with Legacy => [W o_guest_page_size PAGE_SIZE] | Modern => [] end)
      end
  | OFinishInit => (Ok 0, [W o_status 15])
  end.

(* SomeTransport::Mmio(t): every method is `Self::Mmio(mmio) => mmio.method(args)`; the provided
   methods (begin_init, finish_init) run the trait's default body on the wrapper; dropping the
   wrapper drops the MmioTransport inside *)
Definition some_exec (m : mode) (v : version) (device_type : N) (o : op) (ans : list N)
  : outcome N * list access := exec m v device_type o ans.

(* ---------- flat encodings for the correspondence check ---------- *)
Definition enc_access (a : access) : list N := [b2n (a_write a); a_off a; a_width a; a_val a].
Definition enc_trace (l : list access) : list N := concat (map enc_access l).

Fixpoint dec_trace (fuel : nat) (l : list N) : list access :=
  match fuel, l with
  | S k, w :: off :: width :: val :: rest => mkAcc (n2b w) off width val :: dec_trace k rest
  | _, _ => []
  end.

Definition op_code (o : op) : N :=
  match o with
  | ODeviceType => 0 | OReadDeviceFeatures => 1 | OWriteDriverFeatures _ => 2 | OMaxQueueSize _ => 3
  | ONotify _ => 4 | OGetStatus => 5 | OSetStatus _ => 6 | OSetGuestPageSize _ => 7
  | ORequiresLegacyLayout => 8 | OQueueSet _ _ _ _ _ => 9 | OQueueUnset _ => 10 | OQueueUsed _ => 11
  | OAckInterrupt => 12 | OReadConfigGeneration => 13 | ODrop => 14 | OVendorId => 15
  | OBeginInit _ => 16 | OFinishInit => 17
  end.

(* up to five arguments, unused ones 0 *)
Definition op_args (o : op) : list N :=
  match o with
  | OWriteDriverFeatures f => [f; 0; 0; 0; 0]
  | OMaxQueueSize q | ONotify q | OQueueUnset q | OQueueUsed q => [q; 0; 0; 0; 0]
  | OSetStatus s => [s; 0; 0; 0; 0]
  | OSetGuestPageSize p => [p; 0; 0; 0; 0]
  | OQueueSet q size desc drv dev => [q; size; desc; drv; dev]
  | OBeginInit s => [s; 0; 0; 0; 0]
  | _ => [0; 0; 0; 0; 0]
  end.

Definition op_decode (code a1 a2 a3 a4 a5 : N) : option op :=
  match code with
  | 0 => Some ODeviceType | 1 => Some OReadDeviceFeatures | 2 => Some (OWriteDriverFeatures a1)
  | 3 => Some (OMaxQueueSize a1) | 4 => Some (ONotify a1) | 5 => Some OGetStatus
  | 6 => Some (OSetStatus a1) | 7 => Some (OSetGuestPageSize a1) | 8 => Some ORequiresLegacyLayout
  | 9 => Some (OQueueSet a1 a2 a3 a4 a5) | 10 => Some (OQueueUnset a1) | 11 => Some (OQueueUsed a1)
  | 12 => Some OAckInterrupt | 13 => Some OReadConfigGeneration | 14 => Some ODrop
  | 15 => Some OVendorId | 16 => Some (OBeginInit a1) | 17 => Some OFinishInit
  | _ => None
  end.

(* read_config_generation as it stood before the repair (fix: commit in /repo): the version was not
   consulted. Kept for C10_prefix_config_generation_refuted. *)
Definition read_config_generation_prefix (ans : list N) : outcome N * list access :=
  let a := ans_nth ans 0 in (Ok a, [R o_config_generation a]).
