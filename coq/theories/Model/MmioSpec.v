(* C10, the specification side: the MMIO register tables of VirtIO 1.2, section 4.2.2          *)
(* (table MMIO Device Register Layout) and section 4.2.4 (table MMIO Device Legacy Register      *)
(* Layout), written from the specification text and NOT derived from the driver source, and      *)
(* the property's constraints as a boolean predicate over an access trace. The predicate is     *)
(* (a) proved of the model's trace for all arguments (Proofs/MmioProofs.v) and (b) evaluated on *)
(* the trace observed from the implementation (monitor kinds 1002, 1011, 1021).                 *)
(* Only the record type `access` and `version` are shared with Model/Mmio.v.                    *)
From VD Require Import Base.Words Model.Mmio.

Inductive dir := RO | WO | RW.

(* offset, direction, present in the legacy layout, present in the modern layout, per-queue
   (its meaning depends on the queue selected through QueueSel) *)
Record reg := mkReg { r_off : N; r_dir : dir; r_legacy : bool; r_modern : bool; r_perq : bool }.

Definition S_MagicValue : N := 0x000.
Definition S_Version : N := 0x004.
Definition S_DeviceID : N := 0x008.
Definition S_VendorID : N := 0x00c.
Definition S_DeviceFeatures : N := 0x010.      (* legacy name: HostFeatures *)
Definition S_DeviceFeaturesSel : N := 0x014.   (* HostFeaturesSel *)
Definition S_DriverFeatures : N := 0x020.      (* GuestFeatures *)
Definition S_DriverFeaturesSel : N := 0x024.   (* GuestFeaturesSel *)
Definition S_GuestPageSize : N := 0x028.       (* legacy only *)
Definition S_QueueSel : N := 0x030.
Definition S_QueueNumMax : N := 0x034.
Definition S_QueueNum : N := 0x038.
Definition S_QueueAlign : N := 0x03c.          (* legacy only *)
Definition S_QueuePFN : N := 0x040.            (* legacy only *)
Definition S_QueueReady : N := 0x044.          (* modern only *)
Definition S_QueueNotify : N := 0x050.
Definition S_InterruptStatus : N := 0x060.
Definition S_InterruptACK : N := 0x064.
Definition S_Status : N := 0x070.
Definition S_QueueDescLow : N := 0x080.        (* modern only, as are all below *)
Definition S_QueueDescHigh : N := 0x084.
Definition S_QueueDriverLow : N := 0x090.
Definition S_QueueDriverHigh : N := 0x094.
Definition S_QueueDeviceLow : N := 0x0a0.
Definition S_QueueDeviceHigh : N := 0x0a4.
Definition S_SHMSel : N := 0x0ac.
Definition S_SHMLenLow : N := 0x0b0.
Definition S_SHMLenHigh : N := 0x0b4.
Definition S_SHMBaseLow : N := 0x0b8.
Definition S_SHMBaseHigh : N := 0x0bc.
Definition S_QueueReset : N := 0x0c0.
Definition S_ConfigGeneration : N := 0x0fc.
Definition S_Config : N := 0x100.              (* device-specific configuration space from here *)

Definition regtable : list reg :=
  [ mkReg S_MagicValue RO true true false;
    mkReg S_Version RO true true false;
    mkReg S_DeviceID RO true true false;
    mkReg S_VendorID RO true true false;
    mkReg S_DeviceFeatures RO true true false;
    mkReg S_DeviceFeaturesSel WO true true false;
    mkReg S_DriverFeatures WO true true false;
    mkReg S_DriverFeaturesSel WO true true false;
    mkReg S_GuestPageSize WO true false false;
    mkReg S_QueueSel WO true true false;
    mkReg S_QueueNumMax RO true true true;
    mkReg S_QueueNum WO true true true;
    mkReg S_QueueAlign WO true false true;
    mkReg S_QueuePFN RW true false true;
    mkReg S_QueueReady RW false true true;
    mkReg S_QueueNotify WO true true false;
    mkReg S_InterruptStatus RO true true false;
    mkReg S_InterruptACK WO true true false;
    mkReg S_Status RW true true false;
    mkReg S_QueueDescLow WO false true true;
    mkReg S_QueueDescHigh WO false true true;
    mkReg S_QueueDriverLow WO false true true;
    mkReg S_QueueDriverHigh WO false true true;
    mkReg S_QueueDeviceLow WO false true true;
    mkReg S_QueueDeviceHigh WO false true true;
    mkReg S_SHMSel WO false true false;
    mkReg S_SHMLenLow RO false true false;
    mkReg S_SHMLenHigh RO false true false;
    mkReg S_SHMBaseLow RO false true false;
    mkReg S_SHMBaseHigh RO false true false;
    mkReg S_QueueReset RW false true true;
    mkReg S_ConfigGeneration RO false true false ].

Definition MAGIC : N := 0x74726976.            (* little-endian ASCII virt *)
Definition REGISTER_BLOCK : N := 0x100.

(* ---------- every access: a defined register of this version, permitted direction, 32 bits ---------- *)
Definition in_version (v : version) (r : reg) : bool :=
  match v with Legacy => r_legacy r | Modern => r_modern r end.

Definition lookup (v : version) (off : N) : option reg :=
  find (fun r => (r_off r =? off) && in_version v r) regtable.

Definition dir_ok (d : dir) (write : bool) : bool :=
  match d, write with
  | RO, false => true
  | WO, true => true
  | RW, _ => true
  | _, _ => false
  end.

Definition acc_ok (v : version) (a : access) : bool :=
  (a_width a =? 4) &&
  match lookup v (a_off a) with
  | Some r => dir_ok (r_dir r) (a_write a)
  | None => false
  end.

Definition table_ok (v : version) (tr : list access) : bool := forallb (acc_ok v) tr.

Definition perq (v : version) (off : N) : bool :=
  match lookup v off with Some r => r_perq r | None => false end.

Fixpoint memN (x : N) (l : list N) : bool :=
  match l with [] => false | y :: t => (x =? y) || memN x t end.

Fixpoint list_eqb (a b : list N) : bool :=
  match a, b with
  | [], [] => true
  | x :: a', y :: b' => (x =? y) && list_eqb a' b'
  | _, _ => false
  end.

Definition is_w (off : N) (a : access) : bool := a_write a && (a_off a =? off).
Definition is_r (off : N) (a : access) : bool := negb (a_write a) && (a_off a =? off).
(* the values written to / read from a register, in order *)
Definition wvals (off : N) (tr : list access) : list N := map a_val (filter (is_w off) tr).
Definition rvals (off : N) (tr : list access) : list N := map a_val (filter (is_r off) tr).
Definition no_reads (tr : list access) : bool := forallb a_write tr.
Definition no_writes (tr : list access) : bool := forallb (fun a => negb (a_write a)) tr.

(* ---------- QueueSel before any per-queue register, within the operation ---------- *)
(* oq: the queue the operation is about (when it has one): QueueSel must be written with it *)
Fixpoint qsel_scan (v : version) (oq : option N) (sel : bool) (tr : list access) : bool :=
  match tr with
  | [] => true
  | a :: t =>
      if is_w S_QueueSel a then
        (match oq with Some q => a_val a =? q | None => true end) && qsel_scan v oq true t
      else if perq v (a_off a) then sel && qsel_scan v oq sel t
      else qsel_scan v oq sel t
  end.

(* ---------- a queue is enabled last, after all its parameters ---------- *)
(* modern: QueueReady := non-zero; legacy: QueuePFN := non-zero *)
Definition is_enable (v : version) (a : access) : bool :=
  a_write a &&
  match v with Legacy => a_off a =? S_QueuePFN | Modern => a_off a =? S_QueueReady end &&
  negb (a_val a =? 0).

Definition params (v : version) : list N :=
  match v with
  | Legacy => [S_QueueNum; S_QueueAlign]
  | Modern => [S_QueueNum; S_QueueDescLow; S_QueueDescHigh; S_QueueDriverLow; S_QueueDriverHigh;
               S_QueueDeviceLow; S_QueueDeviceHigh]
  end.

(* written: registers written since the last QueueSel write *)
Fixpoint enable_scan (v : version) (written : list N) (tr : list access) : bool :=
  match tr with
  | [] => true
  | a :: t =>
      if is_w S_QueueSel a then enable_scan v [] t
      else if is_enable v a then
        (match t with [] => true | _ => false end) && forallb (fun p => memN p written) (params v)
      else if a_write a then enable_scan v (a_off a :: written) t
      else enable_scan v written t
  end.

(* ---------- (selector, data) register pairs: the feature words ---------- *)
(* the data accesses in order, each with the selector value in force; None when a data access
   happens before any selector write *)
Fixpoint sel_scan (sel_off data_off : N) (wdata : bool) (cur : option N) (tr : list access)
  : option (list (N * N)) :=
  match tr with
  | [] => Some []
  | a :: t =>
      if is_w sel_off a then sel_scan sel_off data_off wdata (Some (a_val a)) t
      else if (a_off a =? data_off) && Bool.eqb (a_write a) wdata then
        match cur, sel_scan sel_off data_off wdata cur t with
        | Some s, Some ps => Some ((s, a_val a) :: ps)
        | _, _ => None
        end
      else sel_scan sel_off data_off wdata cur t
  end.

Fixpoint assocN (k : N) (l : list (N * N)) : option N :=
  match l with [] => None | (k', x) :: t => if k' =? k then Some x else assocN k t end.

(* the 64-bit value moved as word 0 (bits 0..31) and word 1 (bits 32..63) *)
Definition words_ok (sel_off data_off : N) (wdata : bool) (value : N) (tr : list access) : bool :=
  match sel_scan sel_off data_off wdata None tr with
  | Some ps =>
      forallb (fun p => fst p <? 2) ps &&
      match assocN 0 ps, assocN 1 ps with
      | Some lo, Some hi => lo + two32 * hi =? value
      | _, _ => false
      end
  | None => false
  end.

(* a 64-bit address written as a Low / High register pair *)
Definition pair_ok (lo_off hi_off addr : N) (tr : list access) : bool :=
  match wvals lo_off tr, wvals hi_off tr with
  | [lo], [hi] => lo + two32 * hi =? addr
  | _, _ => false
  end.

(* modern queue_unset (4.2.2.2): after QueueReady := 0 the driver reads it back until it is 0,
   and only then touches the queue's parameters *)
Fixpoint ready_sync (synced : bool) (tr : list access) : bool :=
  match tr with
  | [] => synced
  | a :: t =>
      if is_w S_QueueReady a then ready_sync false t
      else if is_r S_QueueReady a then ready_sync (a_val a =? 0) t
      else if a_write a && memN (a_off a) (params Modern) then synced && ready_sync synced t
      else ready_sync synced t
  end.

(* ---------- per operation: the registers it may touch ---------- *)
(* operation codes: Model/Mmio.v op_code *)
Definition queue_regs (v : version) : list N :=
  match v with
  | Legacy => [S_QueueSel; S_QueueNum; S_QueueAlign; S_QueuePFN]
  | Modern => [S_QueueSel; S_QueueNum; S_QueueDescLow; S_QueueDescHigh; S_QueueDriverLow;
               S_QueueDriverHigh; S_QueueDeviceLow; S_QueueDeviceHigh; S_QueueReady]
  end.

Definition allowed (v : version) (opc : N) : list N :=
  match opc with
  | 1 => [S_DeviceFeaturesSel; S_DeviceFeatures]                         (* read_device_features *)
  | 2 => [S_DriverFeaturesSel; S_DriverFeatures]                         (* write_driver_features *)
  | 3 => [S_QueueSel; S_QueueNumMax]                                     (* max_queue_size *)
  | 4 => [S_QueueNotify]                                                 (* notify *)
  | 5 | 6 | 14 | 17 => [S_Status]                   (* get_status, set_status, drop, finish_init *)
  | 7 => match v with Legacy => [S_GuestPageSize] | Modern => [] end     (* set_guest_page_size *)
  | 9 | 10 => queue_regs v                                               (* queue_set, queue_unset *)
  | 11 => [S_QueueSel; match v with Legacy => S_QueuePFN | Modern => S_QueueReady end]
  | 12 => [S_InterruptStatus; S_InterruptACK]                            (* ack_interrupt *)
  | 13 => match v with Legacy => [] | Modern => [S_ConfigGeneration] end (* no such legacy register *)
  | 15 => [S_VendorID]
  | 16 => [S_Status; S_DeviceFeaturesSel; S_DeviceFeatures; S_DriverFeaturesSel; S_DriverFeatures]
          ++ match v with Legacy => [S_GuestPageSize] | Modern => [] end  (* begin_init *)
  | _ => []                                       (* device_type, requires_legacy_layout: none *)
  end.

Definition queue_of (opc a1 : N) : option N :=
  if (opc =? 3) || (opc =? 9) || (opc =? 10) || (opc =? 11) then Some a1 else None.

Definition is_nil {A} (l : list A) : bool := match l with [] => true | _ => false end.

(* ---------- per operation: values and order ---------- *)
(* rc rv: observed result class (0 = returned, 2 = panicked) and returned value *)
Definition op_ok (v : version) (opc a1 a2 a3 a4 a5 rc rv : N) (tr : list access) : bool :=
  match opc with
  | 1 => words_ok S_DeviceFeaturesSel S_DeviceFeatures false rv tr
  | 2 => words_ok S_DriverFeaturesSel S_DriverFeatures true a1 tr
  | 3 => list_eqb (rvals S_QueueNumMax tr) [rv]
  | 4 => list_eqb (wvals S_QueueNotify tr) [a1] && no_reads tr
  | 5 => list_eqb (rvals S_Status tr) [rv] && no_writes tr
  | 6 => list_eqb (wvals S_Status tr) [a1] && no_reads tr
  | 7 => match v with
         | Legacy => list_eqb (wvals S_GuestPageSize tr) [a1]
         | Modern => true
         end
  | 9 =>
      if rc =? 0 then
        no_reads tr && list_eqb (wvals S_QueueSel tr) [a1] && list_eqb (wvals S_QueueNum tr) [a2] &&
        match v with
        | Modern =>
            pair_ok S_QueueDescLow S_QueueDescHigh a3 tr &&
            pair_ok S_QueueDriverLow S_QueueDriverHigh a4 tr &&
            pair_ok S_QueueDeviceLow S_QueueDeviceHigh a5 tr &&
            list_eqb (wvals S_QueueReady tr) [1]
        | Legacy =>
            (* used-ring alignment = guest page size = 4096; page frame number of the table *)
            list_eqb (wvals S_QueueAlign tr) [4096] &&
            match wvals S_QueuePFN tr with [pfn] => pfn * 4096 =? a3 | _ => false end
        end
      else is_nil tr                         (* a refused registration leaves nothing half-written *)
  | 10 =>
      list_eqb (wvals S_QueueSel tr) [a1] &&
      forallb (fun a => negb (a_write a) || (a_off a =? S_QueueSel) || (a_val a =? 0)) tr &&
      match v with
      | Legacy => list_eqb (wvals S_QueuePFN tr) [0]
      | Modern => list_eqb (wvals S_QueueReady tr) [0] && ready_sync false tr
      end
  | 11 =>
      list_eqb (wvals S_QueueSel tr) [a1] &&
      forallb (fun a => negb (a_write a) || (a_off a =? S_QueueSel)) tr &&
      match rvals (match v with Legacy => S_QueuePFN | Modern => S_QueueReady end) tr with
      | [x] => rv =? b2n (negb (x =? 0))
      | _ => false
      end
  | 12 =>
      match tr with a :: _ => negb (a_write a) | [] => false end &&
      match rvals S_InterruptStatus tr with
      | [x] => (rv =? N.land x 3) &&
               list_eqb (wvals S_InterruptACK tr) (if x =? 0 then [] else [x])
      | _ => false
      end
  | 13 => match v with
          | Modern => list_eqb (rvals S_ConfigGeneration tr) [rv] && no_writes tr
          | Legacy => true
          end
  | 14 => list_eqb (wvals S_Status tr) [0] && no_reads tr       (* drop = reset *)
  | 15 => list_eqb (rvals S_VendorID tr) [rv] && no_writes tr
  | 16 =>
      if rc =? 0 then
        words_ok S_DriverFeaturesSel S_DriverFeatures true rv tr &&
        match v with Legacy => list_eqb (wvals S_GuestPageSize tr) [4096] | Modern => true end
      else true
  | 17 => no_reads tr
  | _ => true
  end.

(* the monitor: the property evaluated on one operation's access trace *)
Definition mmio_conform_b (v : version) (opc a1 a2 a3 a4 a5 rc rv : N) (tr : list access) : bool :=
  table_ok v tr
  && forallb (fun a => memN (a_off a) (allowed v opc)) tr
  && qsel_scan v (queue_of opc a1) false tr
  && enable_scan v [] tr
  && op_ok v opc a1 a2 a3 a4 a5 rc rv tr.

(* ---------- probing ---------- *)
(* device IDs the driver crate has a type for (VirtIO 1.2 section 5: 1..13 and 16..25 of them) *)
Definition known_ids : list N :=
  [1; 2; 3; 4; 5; 6; 7; 8; 9; 10; 11; 12; 13; 16; 17; 18; 19; 20; 21; 22; 23; 24; 25].

Definition probe_accepts (size magic version device_id : N) : bool :=
  (REGISTER_BLOCK <=? size) && (magic =? MAGIC) && ((version =? 1) || (version =? 2))
  && memN device_id known_ids.

(* rc = 0: accepted, ra = transport version, rb = device type; the version is not known while
   probing, so only registers that exist, readable, in both layouts may be touched *)
Definition probe_conform_b (size magic version device_id rc ra rb : N) (tr : list access) : bool :=
  no_writes tr
  && table_ok Legacy tr && table_ok Modern tr
  && forallb (fun a => a_off a + a_width a <=? size) tr
  && (if rc =? 0 then probe_accepts size magic version device_id && (ra =? version) && negb (rb =? 0)
      else true).

(* ---------- a whole session (probe; operations; drop) ---------- *)
(* legacy 4.2.4: GuestPageSize is written during initialisation, before any queue is used;
   g: written since the last reset. None = violated, Some g = state at the end *)
Fixpoint gps_run (g : bool) (tr : list access) : option bool :=
  match tr with
  | [] => Some g
  | a :: t =>
      if is_w S_Status a && (a_val a =? 0) then gps_run false t
      else if is_w S_GuestPageSize a && negb (a_val a =? 0) then gps_run true t
      else if is_w S_QueuePFN a && negb (a_val a =? 0) then (if g then gps_run g t else None)
      else gps_run g t
  end.

Definition ends_with_reset (tr : list access) : bool :=
  match rev tr with
  | a :: _ => is_w S_Status a && (a_val a =? 0)
  | [] => false
  end.

Definition session_conform_b (v : version) (tr : list access) : bool :=
  table_ok v tr
  && match v with
     | Legacy => match gps_run false tr with Some _ => true | None => false end
     | Modern => true
     end
  && ends_with_reset tr.
