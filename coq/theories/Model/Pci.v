(* C11: the PCI transport.  Transcribed from src/transport/pci.rs:                           *)
(*   device_type, PciTransport::new (vendor / device id test, the capability scan, the four  *)
(*   VirtioCapabilityInfo reads, notify_off_multiplier), get_bar_region,                     *)
(*   get_bar_region_slice, #[repr(C)] struct CommonCfg, impl Transport for PciTransport      *)
(*   (without read_config_generation / read_config_space / write_config_space: C13),         *)
(*   impl Drop; and the SomeTransport::Pci arms of src/transport/some.rs.                    *)
(* Built on Model/PciBus.v: the configuration space is the reference PCI function `pcifn`,   *)
(* `bar_info` is the C12 model (run against it, with its access trace), the capability walk  *)
(* is `cap_next` / `capabilities_offset`.                                                    *)
(*                                                                                           *)
(* The environment: (a) the PCI function (configuration space), (b) the virtual addresses    *)
(* the platform answers to Hal::mmio_phys_to_virt (v0..v3, one per call, in call order),     *)
(* (c) the values the device answers to MMIO reads (a list consumed in order).               *)
(*                                                                                           *)
(* Three defects of the code as found are switchable (`fixes`): the functions applied to     *)
(* `FIXED` are the code AFTER the repairs (corpus/findings/C11_*_fix.diff); applied to       *)
(* `PREFIX` (or to one flag cleared) they are the code as it was, kept for the `_refuted`    *)
(* lemmas and for replaying the findings.                                                    *)
From VD Require Import Base.Words Model.PciBus.
From VD Require Model.Mmio.

(* ================= constants ================= *)
Definition VIRTIO_VENDOR_ID : N := 0x1af4.
Definition PCI_DEVICE_ID_OFFSET : N := 0x1040.
Definition PCI_CAP_ID_VNDR : N := 9.
Definition CAP_BAR_OFFSET : N := 4.
Definition CAP_BAR_OFFSET_OFFSET : N := 8.
Definition CAP_LENGTH_OFFSET : N := 12.
Definition CAP_NOTIFY_OFF_MULTIPLIER_OFFSET : N := 16.
Definition VIRTIO_PCI_CAP_COMMON_CFG : N := 1.
Definition VIRTIO_PCI_CAP_NOTIFY_CFG : N := 2.
Definition VIRTIO_PCI_CAP_ISR_CFG : N := 3.
Definition VIRTIO_PCI_CAP_DEVICE_CFG : N := 4.

(* device_type(pci_device_id): the transitional ids, else id - 0x1040 through TryFrom<u16> (= TryFrom<u32>,
   Model/Mmio.v device_type_of); the result as the enum's u8 discriminant *)
Definition device_type (id : N) : option N :=
  if id =? 0x1000 then Some 1          (* Network *)
  else if id =? 0x1001 then Some 2     (* Block *)
  else if id =? 0x1002 then Some 13    (* TRANSITIONAL_MEMORY_BALLOONING => DeviceType::MemoryBalloon *)
  else if id =? 0x1003 then Some 3     (* Console *)
  else if id =? 0x1004 then Some 8     (* ScsiHost *)
  else if id =? 0x1005 then Some 4     (* EntropySource *)
  else if id =? 0x1009 then Some 9     (* _9P *)
  else if PCI_DEVICE_ID_OFFSET <=? id then Mmio.device_type_of (id - PCI_DEVICE_ID_OFFSET)
  else None.

(* VirtioPciError, as (code, payload, payload) *)
Definition PE_InvalidDeviceId : N := 1.              (* payload: the id *)
Definition PE_InvalidVendorId : N := 2.              (* payload: the id *)
Definition PE_MissingCommonConfig : N := 3.
Definition PE_MissingNotifyConfig : N := 4.
Definition PE_InvalidNotifyOffMultiplier : N := 5.   (* payload: the multiplier *)
Definition PE_MissingIsrConfig : N := 6.
Definition PE_UnexpectedIoBar : N := 7.
Definition PE_BarNotAllocated : N := 8.              (* payload: the bar index *)
Definition PE_BarOffsetOutOfRange : N := 9.
Definition PE_Misaligned : N := 10.                  (* payloads: address, alignment *)
Definition PE_Pci : N := 11.                         (* payload: the PciError (EInvalidBarType) *)

(* which repairs are in: fx_sum64: offset + length added in u64 (F4);
   fx_bar: capabilities with a reserved bar value (> 5) are ignored (F13);
   fx_fit: capabilities that would extend beyond the 256-byte configuration space are ignored (F14) *)
Record fixes := mkFx { fx_sum64 : bool; fx_bar : bool; fx_fit : bool }.
Definition FIXED : fixes := mkFx true true true.
Definition PREFIX : fixes := mkFx false false false.

(* plain `+` on u8 / u32 / u64: None = arithmetic-overflow panic (debug profile) *)
Definition add_w (bound : N) (m : mode) (a b : N) : option N :=
  if a + b <? bound then Some (a + b)
  else match m with Debug => None | Release => Some ((a + b) mod bound) end.
Definition add_u8 := add_w 256.
Definition add_u32 := add_w two32.
Definition add_u64 := add_w two64.

(* ================= the capability scan of PciTransport::new ================= *)
(* VirtioCapabilityInfo *)
Record capinfo := mkCap { ci_bar : N; ci_off : N; ci_len : N }.
(* the five `let mut` of the scan *)
Record found := mkFound { fd_common : option capinfo; fd_notify : option capinfo; fd_mult : N;
                          fd_isr : option capinfo; fd_device : option capinfo }.
Definition found0 : found := mkFound None None 0 None None.
Definition is_none {A} (o : option A) : bool := match o with None => true | Some _ => false end.

(* read_word: a u32 *)
Definition rdw (rdc : N -> N) (off : N) : N := w32 (rdc off).

(* the body of `for capability in root.capabilities(device_function)`, for the item (o, id, private_header).
   First component None = overflow panic; second component: the configuration offsets read, in order. *)
Definition scan_cap (fx : fixes) (m : mode) (rdc : N -> N) (o id ph : N) (f : found) : option found * list N :=
  if negb (id =? PCI_CAP_ID_VNDR) then (Some f, [])
  else
    let cap_len := w8 ph in
    let cfg_type := w8 (N.shiftr ph 8) in
    if cap_len <? 16 then (Some f, [])
    else if fx_fit fx && (256 <? o + cap_len) then (Some f, [])
    else
      match add_u8 m o CAP_BAR_OFFSET with
      | None => (None, [])
      | Some o4 =>
      match add_u8 m o CAP_BAR_OFFSET_OFFSET with
      | None => (None, [o4])
      | Some o8 =>
      match add_u8 m o CAP_LENGTH_OFFSET with
      | None => (None, [o4; o8])
      | Some o12 =>
        let info := mkCap (w8 (rdw rdc o4)) (rdw rdc o8) (rdw rdc o12) in
        if fx_bar fx && (5 <? ci_bar info) then (Some f, [o4; o8; o12])
        else if (cfg_type =? VIRTIO_PCI_CAP_COMMON_CFG) && is_none (fd_common f) then
          (Some (mkFound (Some info) (fd_notify f) (fd_mult f) (fd_isr f) (fd_device f)), [o4; o8; o12])
        else if (cfg_type =? VIRTIO_PCI_CAP_NOTIFY_CFG) && (20 <=? cap_len) && is_none (fd_notify f) then
          match add_u8 m o CAP_NOTIFY_OFF_MULTIPLIER_OFFSET with
          | None => (None, [o4; o8; o12])
          | Some o16 =>
              (Some (mkFound (fd_common f) (Some info) (rdw rdc o16) (fd_isr f) (fd_device f)), [o4; o8; o12; o16])
          end
        else if (cfg_type =? VIRTIO_PCI_CAP_ISR_CFG) && is_none (fd_isr f) then
          (Some (mkFound (fd_common f) (fd_notify f) (fd_mult f) (Some info) (fd_device f)), [o4; o8; o12])
        else if (cfg_type =? VIRTIO_PCI_CAP_DEVICE_CFG) && is_none (fd_device f) then
          (Some (mkFound (fd_common f) (fd_notify f) (fd_mult f) (fd_isr f) (Some info)), [o4; o8; o12])
        else (Some f, [o4; o8; o12])
      end end end.

Inductive scanres := SFound (f : found) | SPanic | SDiverge.

(* the loop: CapabilityIterator::next (Model/PciBus.v cap_next: one header read), then the body.
   The real loop has no bound; out of fuel = the list is cyclic and the real loop never ends. *)
Fixpoint scan_loop (fx : fixes) (fuel : nat) (m : mode) (rdc : N -> N) (cur : option N) (f : found)
  : scanres * list N :=
  match cur with
  | None => (SFound f, [])
  | Some o =>
      match fuel with
      | O => (SDiverge, [])
      | S k =>
          match cap_next rdc cur with
          | (Some (o', id, ph), nx) =>
              match scan_cap fx m rdc o' id ph f with
              | (Some f', rds) => let '(r, t) := scan_loop fx k m rdc nx f' in (r, o :: rds ++ t)
              | (None, rds) => (SPanic, o :: rds)
              end
          | (None, _) => (SFound f, [])
          end
      end
  end.

(* 64 four-aligned offsets exist below 256: a walk of 65 items has visited one of them twice *)
Definition SCAN_FUEL : nat := 65.
(* root.capabilities(): get_status_command (one read of 0x04), the pointer register 0x34 when the status
   bit is set; then the loop *)
Definition scan (fx : fixes) (m : mode) (rdc : N -> N) : scanres * list N :=
  let first := capabilities_offset rdc in
  let '(r, t) := scan_loop fx SCAN_FUEL m rdc first found0 in
  (r, 4 :: (if is_none first then [] else [52]) ++ t).

(* ================= get_bar_region / get_bar_region_slice ================= *)
Inductive gres := GOk (vaddr : N) | GErr (code p1 p2 : N) | GPanic.

(* everything after `root.bar_info(device_function, struct_info.bar)`; `vans`: what mmio_phys_to_virt
   answers; second component: the mmio_phys_to_virt request (paddr, size) if one is made *)
Definition region_check (fx : fixes) (m : mode) (bi : outcome (option barinfo)) (info : capinfo)
    (size_of_t align_of_t vans : N) : gres * list (N * N) :=
  match bi with
  | Err e => (GErr PE_Pci e 0, [])
  | Panic | UB => (GPanic, [])
  | Ok None => (GErr PE_BarNotAllocated (ci_bar info) 0, [])
  | Ok (Some (BarIO _ _)) => (GErr PE_UnexpectedIoBar 0 0, [])
  | Ok (Some (BarMem _ _ bar_address bar_size)) =>
      if bar_address =? 0 then (GErr PE_BarNotAllocated (ci_bar info) 0, [])
      else
        (* repaired: u64::from(offset) + u64::from(length), which cannot overflow;
           before: u64::from(offset + length), the sum in u32 *)
        match (if fx_sum64 fx then Some (ci_off info + ci_len info)
               else add_u32 m (ci_off info) (ci_len info)) with
        | None => (GPanic, [])
        | Some sum =>
            if (bar_size <? sum) || (ci_len info <? size_of_t) then (GErr PE_BarOffsetOutOfRange 0 0, [])
            else
              (* bar_address as PhysAddr + struct_info.offset as PhysAddr, in u64 *)
              match add_u64 m bar_address (ci_off info) with
              | None => (GPanic, [])
              | Some paddr =>
                  if negb (vans mod align_of_t =? 0) then (GErr PE_Misaligned vans align_of_t, [(paddr, ci_len info)])
                  else (GOk vans, [(paddr, ci_len info)])
              end
        end
  end.

(* the state threaded through `new`: the function, the configuration accesses so far, the
   mmio_phys_to_virt requests so far *)
Record nst := mkNst { n_fn : pcifn; n_log : list acc; n_reqs : list (N * N) }.
Definition read_acc (d : pcifn) (off : N) : acc := mkAcc false off (cfg_read d off) (f_cmd d).
Definition log_reads (s : nst) (offs : list N) : nst :=
  mkNst (n_fn s) (n_log s ++ map (read_acc (n_fn s)) offs) (n_reqs s).

Definition get_bar_region (fx : fixes) (m : mode) (s : nst) (info : capinfo) (size_of_t align_of_t vans : N)
  : gres * nst :=
  let '(bi, d', tr) := bar_info m (n_fn s) (ci_bar info) in
  let '(g, rq) := region_check fx m bi info size_of_t align_of_t vans in
  (g, mkNst d' (n_log s ++ tr) (n_reqs s ++ rq)).

(* ================= #[repr(C)] struct CommonCfg ================= *)
Inductive cfield :=
| C_device_feature_select | C_device_feature | C_driver_feature_select | C_driver_feature
| C_msix_config | C_num_queues | C_device_status | C_config_generation | C_queue_select
| C_queue_size | C_queue_msix_vector | C_queue_enable | C_queue_notify_off
| C_queue_desc | C_queue_driver | C_queue_device.
Inductive ckind := KReadPure | KReadPureWrite.
(* member, wrapper, size in bytes (u8 / u16 / u32 / u64: alignment = size) *)
Definition common_layout : list (cfield * ckind * N) :=
  [ (C_device_feature_select, KReadPureWrite, 4); (C_device_feature, KReadPure, 4);
    (C_driver_feature_select, KReadPureWrite, 4); (C_driver_feature, KReadPureWrite, 4);
    (C_msix_config, KReadPureWrite, 2); (C_num_queues, KReadPure, 2);
    (C_device_status, KReadPureWrite, 1); (C_config_generation, KReadPure, 1);
    (C_queue_select, KReadPureWrite, 2); (C_queue_size, KReadPureWrite, 2);
    (C_queue_msix_vector, KReadPureWrite, 2); (C_queue_enable, KReadPureWrite, 2);
    (C_queue_notify_off, KReadPureWrite, 2); (C_queue_desc, KReadPureWrite, 8);
    (C_queue_driver, KReadPureWrite, 8); (C_queue_device, KReadPureWrite, 8) ].
Definition cfield_tag (f : cfield) : N :=
  match f with
  | C_device_feature_select => 0 | C_device_feature => 1 | C_driver_feature_select => 2
  | C_driver_feature => 3 | C_msix_config => 4 | C_num_queues => 5 | C_device_status => 6
  | C_config_generation => 7 | C_queue_select => 8 | C_queue_size => 9 | C_queue_msix_vector => 10
  | C_queue_enable => 11 | C_queue_notify_off => 12 | C_queue_desc => 13 | C_queue_driver => 14
  | C_queue_device => 15
  end.
(* repr(C): each member at the next multiple of its alignment; the struct padded to its own alignment *)
Definition round_up (x a : N) : N := (x + a - 1) / a * a.
Fixpoint coffset_in (l : list (cfield * ckind * N)) (f : cfield) (acc : N) : N :=
  match l with
  | [] => acc
  | (g, _, sz) :: t =>
      if cfield_tag g =? cfield_tag f then round_up acc sz else coffset_in t f (round_up acc sz + sz)
  end.
Definition coffset_of (f : cfield) : N := coffset_in common_layout f 0.
Definition common_align : N := fold_right (fun x a => N.max (snd x) a) 1 common_layout.
Definition common_size : N :=
  round_up (fold_left (fun acc x => round_up acc (snd x) + snd x) common_layout 0) common_align.

Definition c_device_feature_select : N := Eval vm_compute in coffset_of C_device_feature_select.
Definition c_device_feature : N := Eval vm_compute in coffset_of C_device_feature.
Definition c_driver_feature_select : N := Eval vm_compute in coffset_of C_driver_feature_select.
Definition c_driver_feature : N := Eval vm_compute in coffset_of C_driver_feature.
Definition c_device_status : N := Eval vm_compute in coffset_of C_device_status.
Definition c_queue_select : N := Eval vm_compute in coffset_of C_queue_select.
Definition c_queue_size : N := Eval vm_compute in coffset_of C_queue_size.
Definition c_queue_enable : N := Eval vm_compute in coffset_of C_queue_enable.
Definition c_queue_notify_off : N := Eval vm_compute in coffset_of C_queue_notify_off.
Definition c_queue_desc : N := Eval vm_compute in coffset_of C_queue_desc.
Definition c_queue_driver : N := Eval vm_compute in coffset_of C_queue_driver.
Definition c_queue_device : N := Eval vm_compute in coffset_of C_queue_device.
(* size_of::<CommonCfg>(), align_of::<CommonCfg>() *)
Definition COMMON_SIZE : N := Eval vm_compute in common_size.
Definition COMMON_ALIGN : N := Eval vm_compute in common_align.

(* ================= PciTransport ================= *)
(* the pointers are virtual addresses; notify_region: [WriteOnly<u16>] of t_notify_len elements;
   config_space: [u32] of (snd) elements *)
Record ptrans := mkT { t_devtype : N; t_common : N; t_notify : N; t_notify_len : N; t_mult : N;
                       t_isr : N; t_cfg : option (N * N) }.

Inductive nres := NOk (t : ptrans) | NErr (code p1 p2 : N) | NPanic | NDiverge.

(* PciTransport::new.  v0..v3: the answers of Hal::mmio_phys_to_virt to the calls for the common,
   notify, ISR and device-specific windows (a call that is not reached does not consume its answer) *)
Definition new (fx : fixes) (m : mode) (d : pcifn) (v0 v1 v2 v3 : N) : nres * nst :=
  let s0 := log_reads (mkNst d [] []) [0] in
  let device_vendor := rdw (cfg_read d) 0 in
  let device_id := w16 (N.shiftr device_vendor 16) in
  let vendor_id := w16 device_vendor in
  if negb (vendor_id =? VIRTIO_VENDOR_ID) then (NErr PE_InvalidVendorId vendor_id 0, s0)
  else
  match device_type device_id with
  | None => (NErr PE_InvalidDeviceId device_id 0, s0)
  | Some dt =>
  let s1 := log_reads s0 (snd (scan fx m (cfg_read d))) in
  match fst (scan fx m (cfg_read d)) with
  | SPanic => (NPanic, s1)
  | SDiverge => (NDiverge, s1)
  | SFound f =>
  match fd_common f with
  | None => (NErr PE_MissingCommonConfig 0 0, s1)
  | Some ic =>
  match get_bar_region fx m s1 ic COMMON_SIZE COMMON_ALIGN v0 with
  | (GErr c p q, s2) => (NErr c p q, s2)
  | (GPanic, s2) => (NPanic, s2)
  | (GOk cv, s2) =>
  match fd_notify f with
  | None => (NErr PE_MissingNotifyConfig 0 0, s2)
  | Some inn =>
  if negb (fd_mult f mod 2 =? 0) then (NErr PE_InvalidNotifyOffMultiplier (fd_mult f) 0, s2)
  else
  (* get_bar_region_slice::<WriteOnly<u16>>: length / 2 elements *)
  match get_bar_region fx m s2 inn 2 2 v1 with
  | (GErr c p q, s3) => (NErr c p q, s3)
  | (GPanic, s3) => (NPanic, s3)
  | (GOk nv, s3) =>
  match fd_isr f with
  | None => (NErr PE_MissingIsrConfig 0 0, s3)
  | Some ii =>
  match get_bar_region fx m s3 ii 1 1 v2 with
  | (GErr c p q, s4) => (NErr c p q, s4)
  | (GPanic, s4) => (NPanic, s4)
  | (GOk iv, s4) =>
  match fd_device f with
  | None => (NOk (mkT dt cv nv (ci_len inn / 2) (fd_mult f) iv None), s4)
  | Some idv =>
  (* get_bar_region_slice::<u32>: length / 4 elements *)
  match get_bar_region fx m s4 idv 4 4 v3 with
  | (GErr c p q, s5) => (NErr c p q, s5)
  | (GPanic, s5) => (NPanic, s5)
  | (GOk dv, s5) => (NOk (mkT dt cv nv (ci_len inn / 2) (fd_mult f) iv (Some (dv, ci_len idv / 4))), s5)
  end end end end end end end end end end.

(* ================= impl Transport for PciTransport, impl Drop ================= *)
(* one MMIO access: virtual address, width in bytes, value.  safe-mmio performs one access of
   size_of::<T>() bytes for a field of 1 / 2 / 4 / 8 bytes. *)
Record macc := mkM { m_write : bool; m_addr : N; m_width : N; m_val : N }.
Definition MW (addr width v : N) : macc := mkM true addr width v.
Definition MR (addr width v : N) : macc := mkM false addr width v.

Inductive op :=
| ODeviceType
| OReadDeviceFeatures
| OWriteDriverFeatures (features : N)
| OMaxQueueSize (queue : N)
| ONotify (queue : N)
| OGetStatus
| OSetStatus (status : N)
| OSetGuestPageSize (size : N)
| ORequiresLegacyLayout
| OQueueSet (queue size descriptors driver_area device_area : N)
| OQueueUnset (queue : N)
| OQueueUsed (queue : N)
| OAckInterrupt
| ODrop.

(* the k-th value the device answers, truncated to the width of the field read; exhausted = 0 *)
Definition ans8 (ans : list N) (k : nat) : N := w8 (nth k ans 0).
Definition ans16 (ans : list N) (k : nat) : N := w16 (nth k ans 0).
Definition ans32 (ans : list N) (k : nat) : N := w32 (nth k ans 0).

(* the named bits of DeviceStatus: 1 | 2 | 4 | 8 | 64 | 128 *)
Definition STATUS_NAMED_BITS : N := 207.

(* `while self.get_status() != DeviceStatus::empty() {}`: one 8-bit read of device_status per iteration,
   until from_bits_truncate of the value read is empty *)
Fixpoint spin_status (addr : N) (ans : list N) : list macc :=
  match ans with
  | [] => [MR addr 1 0]
  | a :: t => if N.land (w8 a) STATUS_NAMED_BITS =? 0 then [MR addr 1 (w8 a)]
              else MR addr 1 (w8 a) :: spin_status addr t
  end.

Definition exec (m : mode) (t : ptrans) (o : op) (ans : list N) : outcome N * list macc :=
  let c := t_common t in
  match o with
  | ODeviceType => (Ok (t_devtype t), [])
  | OReadDeviceFeatures =>
      let lo := ans32 ans 0 in
      let hi := ans32 ans 1 in
      (Ok (N.lor lo (N.shiftl hi 32)),
       [MW (c + c_device_feature_select) 4 0; MR (c + c_device_feature) 4 lo;
        MW (c + c_device_feature_select) 4 1; MR (c + c_device_feature) 4 hi])
  | OWriteDriverFeatures f =>
      (Ok 0, [MW (c + c_driver_feature_select) 4 0; MW (c + c_driver_feature) 4 (w32 f);
              MW (c + c_driver_feature_select) 4 1; MW (c + c_driver_feature) 4 (w32 (N.shiftr f 32))])
  | OMaxQueueSize q =>
      let a := ans16 ans 0 in (Ok a, [MW (c + c_queue_select) 2 q; MR (c + c_queue_size) 2 a])
  | ONotify q =>
      let off := ans16 ans 0 in
      (* usize::from(queue_notify_off) * self.notify_off_multiplier as usize: below 2^48 *)
      let offset_bytes := off * t_mult t in
      let index := offset_bytes / 2 in
      let t1 := [MW (c + c_queue_select) 2 q; MR (c + c_queue_notify_off) 2 off] in
      (* self.notify_region.get(index).unwrap() *)
      if index <? t_notify_len t then (Ok 0, t1 ++ [MW (t_notify t + 2 * index) 2 q])
      else (Panic, t1)
  | OGetStatus =>
      let a := ans8 ans 0 in (Ok (N.land a STATUS_NAMED_BITS), [MR (c + c_device_status) 1 a])
  | OSetStatus s => (Ok 0, [MW (c + c_device_status) 1 (w8 s)])      (* status.bits() as u8 *)
  | OSetGuestPageSize _ => (Ok 0, [])
  | ORequiresLegacyLayout => (Ok 0, [])
  | OQueueSet q size desc drv dev =>
      (Ok 0, [MW (c + c_queue_select) 2 q; MW (c + c_queue_size) 2 (w16 size);
              MW (c + c_queue_desc) 8 desc; MW (c + c_queue_driver) 8 drv; MW (c + c_queue_device) 8 dev;
              MW (c + c_queue_enable) 2 1])
  | OQueueUnset _ => (Ok 0, [])
  | OQueueUsed q =>
      let a := ans16 ans 0 in
      (Ok (b2n (a =? 1)), [MW (c + c_queue_select) 2 q; MR (c + c_queue_enable) 2 a])
  | OAckInterrupt =>
      (* InterruptStatus::from_bits_retain(isr_status.into()): all eight bits *)
      let a := ans8 ans 0 in (Ok a, [MR (t_isr t) 1 a])
  | ODrop => (Ok 0, MW (c + c_device_status) 1 0 :: spin_status (c + c_device_status) ans)
  end.

(* SomeTransport::Pci(t): every method is `Self::Pci(pci) => pci.method(args)`; dropping the wrapper
   drops the PciTransport inside *)
Definition some_exec (m : mode) (t : ptrans) (o : op) (ans : list N) : outcome N * list macc :=
  exec m t o ans.

(* ---------- flat encodings ---------- *)
Definition op_code (o : op) : N :=
  match o with
  | ODeviceType => 0 | OReadDeviceFeatures => 1 | OWriteDriverFeatures _ => 2 | OMaxQueueSize _ => 3
  | ONotify _ => 4 | OGetStatus => 5 | OSetStatus _ => 6 | OSetGuestPageSize _ => 7
  | ORequiresLegacyLayout => 8 | OQueueSet _ _ _ _ _ => 9 | OQueueUnset _ => 10 | OQueueUsed _ => 11
  | OAckInterrupt => 12 | ODrop => 14
  end.
Definition op_args (o : op) : list N :=
  match o with
  | OWriteDriverFeatures f => [f; 0; 0; 0; 0]
  | OMaxQueueSize q | ONotify q | OQueueUnset q | OQueueUsed q => [q; 0; 0; 0; 0]
  | OSetStatus s => [s; 0; 0; 0; 0]
  | OSetGuestPageSize p => [p; 0; 0; 0; 0]
  | OQueueSet q size desc drv dev => [q; size; desc; drv; dev]
  | _ => [0; 0; 0; 0; 0]
  end.
Definition op_decode (code a1 a2 a3 a4 a5 : N) : option op :=
  match code with
  | 0 => Some ODeviceType | 1 => Some OReadDeviceFeatures | 2 => Some (OWriteDriverFeatures a1)
  | 3 => Some (OMaxQueueSize a1) | 4 => Some (ONotify a1) | 5 => Some OGetStatus
  | 6 => Some (OSetStatus a1) | 7 => Some (OSetGuestPageSize a1) | 8 => Some ORequiresLegacyLayout
  | 9 => Some (OQueueSet a1 a2 a3 a4 a5) | 10 => Some (OQueueUnset a1) | 11 => Some (OQueueUsed a1)
  | 12 => Some OAckInterrupt | 14 => Some ODrop
  | _ => None
  end.
