#!/bin/sh
# usage: goal.sh theories/Proofs/File.v LINE  -- show the proof state after line LINE
f=$1; n=$2
d=/verif/build/goal; mkdir -p $d
b=$(basename $f)
head -n $n /verif/coq/$f > $d/$b
printf '\nShow.\n' >> $d/$b
cd /verif/coq && timeout 120 coqc -Q theories VD -o $d/${b}o $d/$b 2>&1 | head -${3:-60}
