f=$1; n=$2
V=$(cd "$(dirname "$0")/.." && pwd); d=$V/build/goal; mkdir -p $d; b=$(basename $f)
head -n $n $V/coq/$f > $d/$b; printf '\nShow.\n' >> $d/$b
cd $V/coq && timeout 120 coqc -Q theories VD -o $d/${b}o $d/$b 2>&1 | grep -v "Warning\|^File.*characters 2-" | tail -${3:-40}
