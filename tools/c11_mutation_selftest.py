#!/usr/bin/env python3
"""Mutation self-test of ./check C11 against the FIXED scratch copy of the repo (a git checkout with the three
C11 repairs applied; harness/Cargo.toml must point at it). Each mutation is applied alone, the crate's own tests are
run (they must still pass: nothing in the suite executes the PCI transport), then ./check C11; the file is restored
with `git checkout` afterwards. usage: C11_REPO=/tmp/wb_c11b/repo tools/c11_mutation_selftest.py [M1 M2 ...]"""
import subprocess, sys, os, re, json, shutil
R = os.environ.get('C11_REPO', '/tmp/wb_c11b/repo')
V = os.path.dirname(os.path.dirname(os.path.abspath(__file__)))
F = os.path.join(R, 'src/transport/pci.rs')

MUTS = [
 ('M1 bounds check forgets the length (offset alone compared with the BAR size)',
  "    if u64::from(struct_info.offset) + u64::from(struct_info.length) > bar_size",
  "    if u64::from(struct_info.offset) > bar_size"),
 ('M2 the LAST common capability wins instead of the first',
  "                VIRTIO_PCI_CAP_COMMON_CFG if common_cfg.is_none() => {",
  "                VIRTIO_PCI_CAP_COMMON_CFG => {"),
 ('M3 a notify capability of 16..19 bytes is accepted (multiplier read beyond it)',
  "                VIRTIO_PCI_CAP_NOTIFY_CFG if cap_len >= 20 && notify_cfg.is_none() => {",
  "                VIRTIO_PCI_CAP_NOTIFY_CFG if cap_len >= 16 && notify_cfg.is_none() => {"),
 ('M4 notify ignores the advertised multiplier (assumes 2)',
  "        let offset_bytes = usize::from(queue_notify_off) * self.notify_off_multiplier as usize;",
  "        let offset_bytes = usize::from(queue_notify_off) * 2;"),
 ('M5 queue_set enables the queue before writing the device area',
  """        field!(self.common_cfg, queue_device).write(device_area);
        field!(self.common_cfg, queue_enable).write(1);""",
  """        field!(self.common_cfg, queue_enable).write(1);
        field!(self.common_cfg, queue_device).write(device_area);"""),
 ('M6 drop resets but does not wait for the reset to complete',
  "        while self.get_status() != DeviceStatus::empty() {}",
  "        let _ = DeviceStatus::empty();"),
 ('M7 alignment of the mapped address checked against half the required alignment',
  "    if !(vaddr.as_ptr() as usize).is_multiple_of(align_of::<T>()) {",
  "    if !(vaddr.as_ptr() as usize).is_multiple_of((align_of::<T>() / 2).max(1)) {"),
 ('M8 a memory BAR that was never given an address is accepted',
  """    if bar_address == 0 {
        return Err(VirtioPciError::BarNotAllocated(struct_info.bar));
    }""",
  """    if bar_address == 0 && false {
        return Err(VirtioPciError::BarNotAllocated(struct_info.bar));
    }"""),
 ('M9 the notify slice has `length` elements instead of length / 2',
  "        struct_info.length as usize / size_of::<T>(),",
  "        if size_of::<T>() == 2 { struct_info.length as usize } else { struct_info.length as usize / size_of::<T>() },"),
 ('M10 reserved bar value 6 is let through',
  "            if struct_info.bar > 5 {",
  "            if struct_info.bar > 6 {"),
 ('M11 a capability ending one byte beyond configuration space is let through',
  "            if usize::from(capability.offset) + usize::from(cap_len) > 256 {",
  "            if usize::from(capability.offset) + usize::from(cap_len) > 257 {"),
 ('M12 queue_used does not select the queue',
  """        field!(self.common_cfg, queue_select).write(queue);
        field_shared!(self.common_cfg, queue_enable).read() == 1""",
  """        let _ = queue;
        field_shared!(self.common_cfg, queue_enable).read() == 1"""),
 ('M13 an odd notify_off_multiplier is accepted when it is 1',
  "        if notify_off_multiplier % 2 != 0 {",
  "        if notify_off_multiplier % 2 != 0 && notify_off_multiplier != 1 {"),
 ('M14 CommonCfg: queue_enable and queue_notify_off declared in the wrong order',
  """    pub queue_enable: ReadPureWrite<u16>,
    pub queue_notify_off: ReadPureWrite<u16>,""",
  """    pub queue_notify_off: ReadPureWrite<u16>,
    pub queue_enable: ReadPureWrite<u16>,"""),
 ('M15 the length needed by the structure is not checked when offset is 0',
  "        || size_of::<T>() > struct_info.length as usize",
  "        || (struct_info.offset != 0 && size_of::<T>() > struct_info.length as usize)"),
 ('M16 the repaired sum is undone for lengths below 16 (u32 addition again)',
  "    if u64::from(struct_info.offset) + u64::from(struct_info.length) > bar_size",
  "    if (if struct_info.length < 16 { u64::from(struct_info.offset.wrapping_add(struct_info.length)) } else { u64::from(struct_info.offset) + u64::from(struct_info.length) }) > bar_size"),
]

def sh(cmd, cwd, timeout=2400):
    p = subprocess.run(cmd, shell=True, cwd=cwd, stdout=subprocess.PIPE, stderr=subprocess.STDOUT, text=True, timeout=timeout)
    return p.returncode, p.stdout

orig = open(F).read()
rows = []
only = sys.argv[1:]
try:
    for name, a, b in MUTS:
        if only and name.split()[0] not in only: continue
        assert a in orig, name
        open(F, 'w').write(orig.replace(a, b, 1))
        rc, out = sh('CARGO_TARGET_DIR=%s/target cargo test --offline 2>&1 | grep -E "^test result|error(\\[|:)" | head -5' % R, R)
        tests_ok = 'test result: ok. 57 passed' in out
        shutil.rmtree(os.path.join(V, 'replays', 'C11'), ignore_errors=True)
        rc, out = sh('./check C11', V)
        lines = [l for l in out.splitlines() if l.startswith(('VIOLATION', 'OK', 'NOTE', 'BROKEN', 'KNOWN'))]
        verdict, detail = 'missed', ''
        vio = [l for l in lines if l.startswith('VIOLATION')]
        if vio:
            if any('no-failing-input-found' in l for l in vio): verdict = 'no-failing-input-found'
            else:
                verdict = 'monitor VIOLATION with replay'
                kinds, first = set(), ''
                for l in vio:
                    m2 = re.search(r'replay=(\S+)', l)
                    meta = open(os.path.join(V, m2.group(1))).readline()
                    k = re.search(r'"kind": "(\d+)", "scenario": "([^"]+)"', meta)
                    if k:
                        kinds.add(k.group(1))
                        if not first: first = '%s (%s)' % (m2.group(1), k.group(2))
                detail = 'monitor kinds %s; first: %s' % (sorted(kinds), first)
        notes = [l for l in lines if l.startswith('NOTE')]
        rows.append((name, 'pass' if tests_ok else 'FAIL: ' + out[-200:], verdict, detail, notes[0][:200] if notes else ''))
        print(rows[-1], flush=True)
finally:
    open(F, 'w').write(orig)
    sh('git checkout src/transport/pci.rs', R)
    shutil.rmtree(os.path.join(V, 'replays', 'C11'), ignore_errors=True)
json.dump(rows, open(os.path.join(V, 'build', 'c11_mutation_results%s.json' % ('_'.join(only))), 'w'), indent=1)
