"""Which lemmas make up each property (consumed by tools/mkprops.py): loaded from tools/spec.d/Cxx.py (SPEC_ENTRY)."""
import glob, os
SPEC = {}
for _f in sorted(glob.glob(os.path.join(os.path.dirname(os.path.abspath(__file__)), 'spec.d', 'C*.py'))):
    _ns = {'__file__': _f}
    exec(open(_f).read(), _ns)
    if _ns.get('SPEC_ENTRY'): SPEC[os.path.basename(_f)[:-3]] = _ns['SPEC_ENTRY']
