"""Which lemmas make up each property (consumed by tools/mkprops.py)."""
Q = ['Model.Queue', 'Proofs.QueueInv', 'Proofs.QueueReach', 'Proofs.QueueProps']
SPEC = {
 'C01': dict(title='Every published buffer chain is well-formed and describes the caller\'s buffers', imports=Q, theorems=[
   ('C01_add_publishes', 'Proofs/QueueProps.v', 'add_publishes', 'for every reachable state (any history, size 2^k, flags) and any device: what the device reaches from the new ring entry is exactly the caller\'s buffers (address, length, direction, order), readable before writable, in the slot designated by the previous index, index +1 mod 2^16, indirect iff enabled and more than one buffer, no cell of another outstanding chain touched'),
   ('C01_all_outstanding_wf', 'Proofs/QueueProps.v', 'all_chains_walk', 'at any time, every outstanding chain still walks to the buffers submitted for it'),
   ('C01_disjoint', 'Proofs/QueueProps.v', 'chains_disjoint', 'no descriptor belongs to two outstanding chains; the counter is exact'),
   ('C01_invariant', 'Proofs/QueueReach.v', 'Reach_Inv', 'the invariant behind all of the above holds in every reachable state'),
   ('C01_walk_of_chain', 'Proofs/QueueProps.v', 'walk_chain_ok', None),
 ], examples=[
   'Example C01_nonvacuous : exists s1 evs, add (qnew 4 false false) [mkBuf 1 8 100] [mkBuf 2 16 200] 0 = (Ok 0, s1, evs)\n  /\\ walk (q_dtable s1) (fun _ => None) 0 4 = Some [(100, 8, false); (200, 16, true)].\nProof. eexists; eexists; vm_compute; split; reflexivity. Qed.',
   'Example C01_nonvacuous_indirect : exists s1 evs, add (qnew 4 true false) [mkBuf 1 8 100] [mkBuf 2 16 200] 900 = (Ok 0, s1, evs)\n  /\\ walk (q_dtable s1) (fun a => if a =? 900 then nthN (q_ind s1) 0 None else None) 0 4 = Some [(100, 8, false); (200, 16, true)].\nProof. eexists; eexists; vm_compute; split; reflexivity. Qed.']),
 'C02': dict(title='The device never sees an available index covering an incomplete entry', imports=Q, theorems=[
   ('C02_idx_last', 'Proofs/QueueProps.v', 'add_store_order', 'the stores of a successful submission are: shares and descriptor stores into cells of the new chain only (cells of no outstanding chain), then the ring slot, then the fence, then the index - the index store is last'),
   ('C02_no_idx_store_in_pop', 'Proofs/QueueProps.v', 'pop_stores_no_idx', 'consuming a completion (whatever the device wrote) never stores the available index or a ring slot'),
   ('C02_refused_add_stores_nothing', 'Proofs/QueueProps.v', 'add_refusals', 'a refused submission stores nothing'),
   ('C02_entries_stay_complete', 'Proofs/QueueProps.v', 'all_chains_walk', 'in every reachable state every outstanding entry is completely written (sequentially consistent memory)'),
 ]),
 'C03': dict(title='Completions are consumed exactly once in any order; descriptor counts stay exact', imports=Q, theorems=[
   ('C03_pop_refines', 'Proofs/QueueProps.v', 'pop_refines', 'for every reachable state, every outstanding chain c and EVERY used-ring content: nothing ready -> NotReady, nothing changes; another id first -> WrongToken, nothing changes; this chain next -> Ok(len), the chain is removed, its cells become the head of the free list, everything else untouched'),
   ('C03_counts', 'Proofs/QueueProps.v', 'counts_exact', None),
   ('C03_refusal', 'Proofs/QueueProps.v', 'add_refusals', 'InvalidParam iff no buffers, QueueFull iff the capacity predicate fails, both without side effects; otherwise accepted'),
   ('C03_add_cases', 'Proofs/QueueReach.v', 'add_cases', None),
   ('C03_invariant', 'Proofs/QueueReach.v', 'Reach_Inv', 'holds for arbitrary index values: no lemma bounds avail_idx / last_used_idx, all index arithmetic is mod 2^16'),
 ], examples=[
   'Example C03_wrap_nonvacuous : exists s1 evs, add (qset_indices (qnew 4 false true) 65535) [mkBuf 1 8 100] [] 0 = (Ok 0, s1, evs)\n  /\\ q_avail_idx s1 = 0 /\\ nthN (q_aring s1) 3 7 = 0.\nProof. eexists; eexists; vm_compute; repeat split; reflexivity. Qed.']),
 'C04': dict(title='Each buffer is shared with the device once and unshared once, arguments matching', imports=Q, theorems=[
   ('C04_ledger', 'Proofs/QueueProps.v', 'ledger_balanced', 'as multisets: all shares = all unshares + the shares of the outstanding chains; every tuple carries (device address, buffer identity, length, direction)'),
   ('C04_unshare_at_pop', 'Proofs/QueueProps.v', 'ledger_pop_evs', 'the unshares of a successful pop are exactly the shares of the chain it consumes (same address, range, direction)'),
   ('C04_pop_events', 'Proofs/QueueProps.v', 'pop_refines', 'and they happen inside that pop and nowhere else'),
   ('C04_no_share_on_refusal', 'Proofs/QueueProps.v', 'add_refusals', None),
   ('C04_addresses', 'Proofs/QueueProps.v', 'add_publishes', 'every address the device reaches from a published slot is the share answer for that buffer'),
 ]),
 'C05': dict(title='No lost wake-ups: notifications are requested whenever the other side needs one', imports=['Model.Queue', 'Proofs.NotifyProofs'], theorems=[
   ('C05_flag_mode', 'Proofs/NotifyProofs.v', 'flag_mode', None),
   ('C05_flag_is_bit0', 'Proofs/NotifyProofs.v', 'land1_testbit', None),
   ('C05_event_mode', 'Proofs/NotifyProofs.v', 'event_mode', 'all 2^16 x 2^16 index pairs and every batch 1..2^15 at once'),
   ('C05_event_mode_arith', 'Proofs/NotifyProofs.v', 'event_mode_sound', None),
   ('C05_plain_comparison_refuted', 'Proofs/NotifyProofs.v', 'plain_refuted', 'the comparison used before the repair (fix: commit 3eeee1c) is refuted'),
   ('C05_plain_agrees_away_from_wrap', 'Proofs/NotifyProofs.v', 'plain_agrees', None),
   ('C05_rearm', 'Proofs/NotifyProofs.v', 'rearm_need_event', 'used_event := last_used_idx after every pop (C03_pop_refines) makes the next completion interrupt'),
   ('C05_driver_setting', 'Proofs/NotifyProofs.v', 'set_dev_notify_flag', None),
   ('C05_driver_setting_event_idx', 'Proofs/NotifyProofs.v', 'set_dev_notify_event_idx', None),
 ]),
 'C07': dict(title='A misbehaving device cannot corrupt driver state or cause invalid memory access', imports=Q + ['Proofs.QueueNonInt'], theorems=[
   ('C07_pop_any_used_ring', 'Proofs/QueueProps.v', 'pop_refines', 'u_idx, u_id, u_len are universally quantified: whatever the device writes, the outcome is Ok / NotReady / WrongToken and the successor state is reachable (hence satisfies the invariant)'),
   ('C07_invariant', 'Proofs/QueueReach.v', 'Reach_Inv', None),
   ('C07_add_noninterference', 'Proofs/QueueNonInt.v', 'add_indep', 'results, events and private state do not depend on the contents of descriptor table / available ring / flags / used_event'),
   ('C07_pop_noninterference', 'Proofs/QueueNonInt.v', 'pop_indep', None),
   ('C07_query_noninterference', 'Proofs/QueueNonInt.v', 'queries_indep', None),
 ]),
 'C19': dict(title='Event queues deliver each device event once, in order, and stay fully stocked', imports=Q, theorems=[
   ('C19_lifo_token', 'Proofs/QueueProps.v', 'lifo_token', 'after a successful pop of chain c the immediately following one-buffer add returns the same token (also with indirect enabled: a one-buffer chain is direct)'),
   ('C19_pop', 'Proofs/QueueProps.v', 'pop_refines', None),
 ]),
}
