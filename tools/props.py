"""Per-property configuration for ./check"""
TRUSTED_BASE = [
    'Coq 8.16.1 kernel (coqc); coqchk re-check in setup; vm_compute used in finite sweeps and Examples; native_compute not used',
    'axioms: none (every property theorem is reported "Closed under the global context" by Print Assumptions)',
    'extraction: Require Extraction + ExtrOcamlBasic only (its Extract Inductive bool/option/unit/list/prod/sumbool/sumor and inlined andb/orb/negb/fst/snd); no Extract Constant of our own; OCaml 4.13.1 ocamlopt; hand-written runner/driver.ml (parsing, comparison)',
    'correspondence check: Rust harness /verif/harness (LedgerHal, ModelTransport, emulated MMIO/PCI devices, reference devices, generators) built from /repo working tree with --cfg virtio_drivers_verif, debug and release; a divergence the generators do not reach is not detected',
    'the hand-written Gallina model (coq/theories/Model) and the flat encodings in Extract/Dispatch.v',
    'rustc/cargo as installed',
]
PROPS = {
    'C06': dict(models=['Model/Layout.v'], exhaustive=True,
                assumptions=['Hal::dma_alloc returns page-aligned, non-overlapping regions (hypotheses of C06_regions)',
                             'zeroing of DMA memory is the platform\'s duty; the check observes that the driver stores nothing but descriptor links before queue_set'],
                trusted_extra=['drop order of VirtQueueLayout fields is transcribed (tied by the observed dealloc order)']),
    'C01': dict(models=['Model/Queue.v'], design_ref='DESIGN.md 3.0, 3 C01',
                assumptions=['caller contract of add: buffers non-empty and shorter than 2^32 (bufs_ok)', 'sequentially consistent memory'],
                trusted_extra=['harness reference device walks chains through device addresses resolved by the ledger Hal']),
    'C02': dict(models=['Model/Queue.v'], design_ref='DESIGN.md 3 C02',
                assumptions=['memory is sequentially consistent: fences are events whose position is proved and compared; their hardware effect is trusted', 'source lint: fence(SeqCst) between ring-slot store and Release store of idx'],
                level_note='PARTIAL with respect to weak memory: the theorems cover the order of stores and the completeness of every outstanding entry under sequential consistency. Trusted: Coq kernel, extraction, hand-written model, harness, the semantics of fence(SeqCst)/Release.'),
    'C03': dict(models=['Model/Queue.v'], design_ref='DESIGN.md 3 C03',
                assumptions=['caller contract of pop_used: the buffers passed are those submitted for the token (keys match)']),
    'C04': dict(models=['Model/Queue.v'], design_ref='DESIGN.md 3 C04',
                assumptions=['LedgerHal is the instrumented platform: every share bounced to a distinct device address, copy-in at share, copy-back at unshare']),
    'C05': dict(models=['Model/Queue.v'], design_ref='DESIGN.md 3 C05',
                assumptions=['batch between two checks is between 1 and 2^15 entries', 'co-simulation is sequentially consistent and single-threaded (device runs inside notify or inside the busy-wait hook)']),
}
HOOK_COMMITS = ['d6ca0bd', 'd91ee48']
NOT_YET = {}
