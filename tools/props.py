"""Per-property configuration for ./check: loaded from tools/spec.d/Cxx.py (PROPS_ENTRY)."""
import glob, os
TRUSTED_BASE = ['Coq 8.16.1 kernel (coqc); coqchk re-check in setup; vm_compute used in finite sweeps and Examples; native_compute not used',
 'axioms: none (every property theorem is reported "Closed under the global context" by Print Assumptions)',
 'extraction: Require Extraction + ExtrOcamlBasic only (its Extract Inductive bool/option/unit/list/prod/sumbool/sumor and inlined andb/orb/negb/fst/snd); no '
 'Extract Constant of our own; OCaml 4.13.1 ocamlopt; hand-written runner/driver.ml (parsing, comparison); cross-checked on every run by replaying a sample of the trace inside Coq (vm_compute of Dispatch.step, tools/coqcross.py)',
 'constants translator tools/srcconsts.py (a line parser for const items, bitflags members and enum discriminants of /repo/src; arithmetic only) and the hand-written pairing tools/consts_map.py; the equality of each pair is decided by coqc',
 'correspondence check: Rust harness /verif/harness (LedgerHal, ModelTransport, emulated MMIO/PCI devices, reference devices, generators) built from /repo '
 'working tree with --cfg virtio_drivers_verif, debug and release; a divergence the generators do not reach is not detected',
 'the hand-written Gallina model (coq/theories/Model) and the flat encodings in Extract/Dispatch.v',
 'rustc/cargo as installed']
PROPS = {}
for _f in sorted(glob.glob(os.path.join(os.path.dirname(os.path.abspath(__file__)), 'spec.d', 'C*.py'))):
    _ns = {'__file__': _f}
    exec(open(_f).read(), _ns)
    if _ns.get('PROPS_ENTRY'): PROPS[os.path.basename(_f)[:-3]] = _ns['PROPS_ENTRY']
HOOK_COMMITS = ['d6ca0bd', 'd91ee48', '12cd8cb', '967fdcb', '51b3fc8', '7a8ee2c', 'e79ac33']
NOT_YET = {}
