"""Per-property configuration for ./check"""
TRUSTED_BASE = [
    'Coq 8.16.1 kernel (coqc); coqchk re-check in setup; vm_compute used in finite sweeps and Examples; native_compute not used',
    'axioms: none (every property theorem is reported "Closed under the global context" by Print Assumptions)',
    'extraction: Require Extraction + ExtrOcamlBasic only (its Extract Inductive bool/option/unit/list/prod/sumbool/sumor and inlined andb/orb/negb/fst/snd); no Extract Constant of our own; OCaml 4.13.1 ocamlopt; hand-written runner/driver.ml (parsing, comparison)',
    'correspondence check: Rust harness /verif/harness (LedgerHal, ModelTransport, emulated MMIO/PCI devices, reference devices, generators) built from /repo working tree with --cfg virtio_drivers_verif, debug and release; a divergence the generators do not reach is not detected',
    'the hand-written Gallina model (coq/theories/Model) and the flat encodings in Extract/Dispatch.v',
    'rustc/cargo as installed',
]
PROPS = {
    'C06': dict(models=['Model/Layout.v'], exhaustive=True,
                assumptions=['Hal::dma_alloc returns page-aligned, non-overlapping regions (hypotheses of C06_regions)',
                             'zeroing of DMA memory is the platform\'s duty; the check observes that the driver stores nothing but descriptor links before queue_set'],
                trusted_extra=['drop order of VirtQueueLayout fields is transcribed (tied by the observed dealloc order)']),
}
HOOK_COMMITS = ['d6ca0bd', 'd91ee48']
NOT_YET = {}
