#!/usr/bin/env python3
"""Mutation self-test of ./check C20 (GPU part) against the FIXED scratch copy of the repo (harness/Cargo.toml must point at it).
Each mutation compiles, passes the crate's 57 pinned unit tests, and breaks property C20 only on something specific
(a boundary value, a particular answer, a multi-step history)."""
import subprocess, sys, os, re, json, shutil
R = os.environ.get('C20_REPO', '/tmp/wb_c20gpu/repo')
V = os.path.dirname(os.path.dirname(os.path.abspath(__file__)))
GPU = 'src/device/gpu/mod.rs'
EDID = 'src/device/gpu/edid.rs'

MUTS = [
 ('M0 the repaired defect put back (size = width * height * 4 unchecked, after create_2d)', GPU,
  ["""        let size = width
            .checked_mul(height)
            .and_then(|pixels| pixels.checked_mul(4))
            .filter(|&size| size != 0)
            .ok_or(Error::InvalidParam)?;
""", "        let frame_buffer_dma = Dma::new(\n            pages(size as usize),\n            BufferDirection::DriverToDevice,\n            self.access_platform,\n        )?;\n\n        self.resource_attach_backing(RESOURCE_ID_FB"],
  ["", "        let size = width * height * 4;\n        let frame_buffer_dma = Dma::new(\n            pages(size as usize),\n            BufferDirection::DriverToDevice,\n            self.access_platform,\n        )?;\n\n        self.resource_attach_backing(RESOURCE_ID_FB"]),
 ('M1 attach_backing length loses bit 31 (only backings of 2 GiB and more)', GPU,
  ["            addr: paddr,\n            length,"], ["            addr: paddr,\n            length: length & 0x7fff_ffff,"]),
 ('M2 transfer_to_host_2d: rect width leaks into the high half of the le64 offset for widths >= 4096', GPU,
  ["            rect,\n            offset,\n            resource_id,"], ["            rect,\n            offset: offset | ((rect.width as u64 >> 12) << 32),\n            resource_id,"]),
 ('M3 check_type compares only the low 16 bits of the response type', GPU,
  ["        if self.hdr_type == expected {"], ["        if self.hdr_type.0 & 0xffff == expected.0 {"]),
 ('M4 tear-down order: unref before detach_backing (second change_resolution only)', GPU,
  ["            self.resource_detach_backing(RESOURCE_ID_FB)?;\n            self.resource_unref(RESOURCE_ID_FB)?;"],
  ["            self.resource_unref(RESOURCE_ID_FB)?;\n            self.resource_detach_backing(RESOURCE_ID_FB)?;"]),
 ('M5 old framebuffer memory released before the device detached it', GPU,
  ["            self.set_scanout(Rect::default(), SCANOUT_ID, 0)?;\n            self.resource_detach_backing(RESOURCE_ID_FB)?;\n            self.resource_unref(RESOURCE_ID_FB)?;\n            self.frame_buffer_dma = None;"],
  ["            self.set_scanout(Rect::default(), SCANOUT_ID, 0)?;\n            self.frame_buffer_dma = None;\n            self.resource_detach_backing(RESOURCE_ID_FB)?;\n            self.resource_unref(RESOURCE_ID_FB)?;"]),
 ('M6 cursor x position loses bit 31', GPU,
  ["                x: pos_x,"], ["                x: pos_x & 0x7fff_ffff,"]),
 ('M7 detailed timing: the top bit of the upper nibble of h_active is dropped (widths >= 2048)', EDID,
  ["        let h_active = bytes[2] as u32 | ((bytes[4] as u32 & 0xF0) << 4);"], ["        let h_active = bytes[2] as u32 | ((bytes[4] as u32 & 0x70) << 4);"]),
 ('M8 get_edid keeps only the low 16 bits of the size the device reported', GPU,
  ["            size: rsp.size,"], ["            size: rsp.size & 0xffff,"]),
 ('M9 get_edid always asks for scanout 0', GPU,
  ["            header: CtrlHeader::with_type(Command::GET_EDID),\n            scanout,"], ["            header: CtrlHeader::with_type(Command::GET_EDID),\n            scanout: scanout & 0,"]),
 ('M10 standard timing: a slot is taken as unused as soon as its first byte is 0x01', EDID,
  ["        if *bytes == Self::UNUSED {"], ["        if bytes[0] == Self::UNUSED[0] {"]),
 ('M11 setup_cursor forgets the new cursor buffer (memory released while attached)', GPU,
  ["        self.cursor_buffer_dma = Some(cursor_buffer_dma);"], ["        self.cursor_buffer_dma = Some(cursor_buffer_dma);\n        self.cursor_buffer_dma = None;"]),
 ('M12 flush sends resource_flush before transfer_to_host_2d', GPU,
  ["        self.transfer_to_host_2d(rect, 0, RESOURCE_ID_FB)?;\n        // flush data to screen\n        self.resource_flush(rect, RESOURCE_ID_FB)?;"],
  ["        self.resource_flush(rect, RESOURCE_ID_FB)?;\n        // flush data to screen\n        self.transfer_to_host_2d(rect, 0, RESOURCE_ID_FB)?;"]),
]

def sh(cmd, cwd, timeout=1500):
    p = subprocess.run(cmd, shell=True, cwd=cwd, stdout=subprocess.PIPE, stderr=subprocess.STDOUT, text=True, timeout=timeout)
    return p.returncode, p.stdout

rows = []
only = sys.argv[1:]
for name, rel, olds, news in MUTS:
    if only and name.split()[0] not in only: continue
    F = os.path.join(R, rel)
    orig = open(F).read()
    try:
        txt = orig
        for a, b in zip(olds, news):
            assert a in txt, (name, a)
            txt = txt.replace(a, b, 1)
        open(F, 'w').write(txt)
        rc, tout = sh('CARGO_TARGET_DIR=%s/target timeout 1400 cargo test --offline 2>&1 | grep -E "^test result|^error" | head -5' % R, R)
        tests_ok = 'test result: ok. 57 passed' in tout
        shutil.rmtree(os.path.join(V, 'replays', 'C20'), ignore_errors=True)
        rc, out = sh('./check C20', V)
        lines = [l for l in out.splitlines() if l.startswith(('VIOLATION', 'OK', 'NOTE', 'BROKEN', 'KNOWN'))]
        verdict, detail = 'missed', ''
        vio = [l for l in lines if l.startswith('VIOLATION')]
        if vio:
            if any('no-failing-input-found' in l for l in vio): verdict = 'no-failing-input-found'
            else:
                verdict = 'monitor VIOLATION with replay'
                kinds, first = set(), ''
                for l in vio:
                    m2 = re.search(r'replay=(\S+)', l)
                    meta = open(os.path.join(V, m2.group(1))).readline()
                    k = re.search(r'"kind": "(\d+)", "scenario": "([^"]+)"', meta)
                    if k:
                        kinds.add(k.group(1))
                        if not first: first = '%s in %s' % (k.group(1), k.group(2))
                    elif 'did not terminate' in meta: kinds.add('hang')
                detail = 'monitor kinds %s; first: %s' % (sorted(kinds), first)
        notes = [l for l in lines if l.startswith('NOTE')]
        rows.append((name, 'pass' if tests_ok else 'FAIL: ' + tout.strip()[-160:], verdict, detail, notes[0][:160] if notes else ''))
        print(rows[-1], flush=True)
    finally:
        open(F, 'w').write(orig)
        sh('git checkout -q -- %s' % rel, R)
shutil.rmtree(os.path.join(V, 'replays', 'C20'), ignore_errors=True)
json.dump(rows, open(os.path.join(V, 'build', 'c20gpu_mutation_results%s.json' % ('_'.join(only))), 'w'), indent=1)
