#!/usr/bin/env python3
"""Runs the behaviour-preserving rewrites under seeded_harmless/ (written by a sub-agent that saw only the source; class
"internal" = no externally visible difference at all, class "reorder" = two independent externally visible effects swapped
where the specification prescribes no order) against the checks of the properties anchored in the files they touch, in a
scratch worktree (never /repo). Writes seeded_harmless/<id>/result.json and prints one line per (patch, property)."""
import subprocess, sys, os, json, glob
V = os.path.dirname(os.path.dirname(os.path.abspath(__file__)))
MAP = [('src/queue/owning.rs', ['C19', 'C07']), ('src/queue.rs', ['C01', 'C02', 'C03', 'C05', 'C06']), ('src/hal.rs', ['C06', 'C09', 'C04']),
       ('src/transport/mod.rs', ['C08', 'C13']), ('src/transport/mmio.rs', ['C10', 'C06']), ('src/transport/pci/bus.rs', ['C12', 'C11']),
       ('src/transport/pci.rs', ['C11', 'C13']), ('src/device/blk.rs', ['C14', 'C08']), ('src/device/console', ['C15', 'C13']),
       ('src/device/net/', ['C16', 'C08', 'C09']), ('src/device/socket/vsock.rs', ['C17', 'C18']), ('src/device/socket/connectionmanager.rs', ['C18', 'C17']),
       ('src/device/gpu/', ['C20', 'C09']), ('src/device/sound.rs', ['C20', 'C19']), ('src/device/input.rs', ['C19', 'C08'])]
def sh(*a, **k): return subprocess.run(list(a), capture_output=True, text=True, **k)
args = sys.argv[1:]; shard = (0, 1)
if args and args[0] == '--shard': k, n = args[1].split('/'); shard = (int(k), int(n)); args = args[2:]
WT = '/tmp/harmrepo%d' % shard[0]
sh('git', '-C', '/repo', 'worktree', 'remove', '--force', WT); sh('rm', '-rf', WT)
assert sh('git', '-C', '/repo', 'worktree', 'add', WT, 'HEAD').returncode == 0
sh('cp', '/repo/Cargo.lock', WT + '/Cargo.lock')
env = dict(os.environ, VERIF_REPO=WT, VERIF_SKIP_PROOFS='1', VERIF_ALT='h%d' % shard[0])
for i, d in enumerate(sorted(glob.glob(os.path.join(V, 'seeded_harmless', 'h*')))):
    if i % shard[1] != shard[0] or (args and os.path.basename(d) not in args): continue
    meta = json.load(open(os.path.join(d, 'meta.json')))
    sh('git', '-C', WT, 'checkout', '--', '.'); sh('git', '-C', WT, 'clean', '-fdq', '-e', 'target', '-e', 'Cargo.lock')
    if sh('git', '-C', WT, 'apply', os.path.join(d, 'patch.diff')).returncode != 0: print(os.path.basename(d), 'PATCH DOES NOT APPLY'); continue
    props = []
    for f in meta.get('files', []):
        for pre, ps in MAP:
            if f.startswith(pre):
                props += [p for p in ps if p not in props]; break
    res = {}
    for p in props:
        out = sh(os.path.join(V, 'check'), p, cwd=V, env=env)
        lines = [l for l in out.stdout.splitlines() if l.startswith(('VIOLATION', 'OK', 'KNOWN', 'BROKEN'))]
        v = 'quiet' if out.returncode == 0 else ('no-failing-input-found' if any('no-failing-input-found' in l for l in lines) else 'ALARM-with-replay')
        res[p] = dict(verdict=v, lines=lines[:3], notes=[l[:300] for l in out.stdout.splitlines() if l.startswith('NOTE')][:2])
        print(os.path.basename(d), meta.get('class'), p, v, flush=True)
    json.dump(dict(id=os.path.basename(d), cls=meta.get('class'), summary=meta.get('summary'), results=res), open(os.path.join(d, 'result.json'), 'w'), indent=1)
sh('git', '-C', '/repo', 'worktree', 'remove', '--force', WT)
# the scratch build output of this invocation (cargo target, traces, evidence copies) is several GiB: remove it
_alt = 'h%d' % shard[0]
for _d in ('target_alt', 'target_noalloc_alt', 'harness_alt', 'traces_alt', 'evidence_alt'):
    sh('rm', '-rf', os.path.join(V, 'build', _d + _alt))
