#!/usr/bin/env python3
"""Mutation self-test of ./check C13 against the FIXED scratch copy of the repo (harness/Cargo.toml must point at it).
Each mutation compiles, passes `cargo test --offline` (57 unit tests) and breaks property C13; the table says how
./check C13 reports it. Every mutation is undone afterwards (the file is restored)."""
import subprocess, sys, os, re, json, shutil
R = os.environ.get('C13_REPO', '/tmp/wb_c13/repo')
V = os.path.dirname(os.path.dirname(os.path.abspath(__file__)))

MUTS = [
 ('M1 read_consistent accepts a generation that moved forward (before <= after)', 'src/transport/mod.rs',
  "            if before == after {", "            if before <= after {"),
 ('M2 read_consistent reads `before` only after the closure ran', 'src/transport/mod.rs',
  """            let before = self.read_config_generation();
            let result = f();
""",
  """            let result = f();
            let before = self.read_config_generation();
"""),
 ('M3 MMIO read: an access ending exactly at the end of the window is refused (<=)', 'src/transport/mmio.rs',
  """            .is_none_or(|end| self.config_space.len() < end)
        {
            Err(Error::ConfigSpaceTooSmall)
        } else {
            // SAFETY: The caller of `MmioTransport::new` guaranteed that the header pointer was
            // valid, including the config space. We have checked that the value is properly aligned
            // for `T` and within the bounds of the config space. Reading""",
  """            .is_none_or(|end| self.config_space.len() <= end)
        {
            Err(Error::ConfigSpaceTooSmall)
        } else {
            // SAFETY: The caller of `MmioTransport::new` guaranteed that the header pointer was
            // valid, including the config space. We have checked that the value is properly aligned
            // for `T` and within the bounds of the config space. Reading"""),
 ('M4 PCI read: window counted as 8 bytes per u32 word (accepts accesses beyond it)', 'src/transport/pci.rs',
  """            .is_none_or(|end| config_space.len() * size_of::<u32>() < end)
        {
            Err(Error::ConfigSpaceTooSmall)
        } else {
            // SAFETY: If we have a config space pointer it must be valid for its length, and we
            // just checked that the offset and size of the access was within the length and
            // properly aligned. Reading""",
  """            .is_none_or(|end| config_space.len() * size_of::<u64>() < end)
        {
            Err(Error::ConfigSpaceTooSmall)
        } else {
            // SAFETY: If we have a config space pointer it must be valid for its length, and we
            // just checked that the offset and size of the access was within the length and
            // properly aligned. Reading"""),
 ('M5 MMIO write: the end of the access computed with wrapping_add (F6 again, release AND debug)', 'src/transport/mmio.rs',
  """        if offset
            .checked_add(size_of::<T>())
            .is_none_or(|end| self.config_space.len() < end)
        {
            Err(Error::ConfigSpaceTooSmall)
        } else {
            // SAFETY: The caller of `MmioTransport::new` guaranteed that the header pointer was
            // valid, including the config space. We have checked that the value is properly aligned
            // for `T` and within the bounds of the config space.
            unsafe {
                let ptr = self.config_space.ptr_nonnull()""",
  """        if self.config_space.len() < offset.wrapping_add(size_of::<T>()) {
            Err(Error::ConfigSpaceTooSmall)
        } else {
            // SAFETY: The caller of `MmioTransport::new` guaranteed that the header pointer was
            // valid, including the config space. We have checked that the value is properly aligned
            // for `T` and within the bounds of the config space.
            unsafe {
                let ptr = self.config_space.ptr_nonnull()"""),
 ('M6 PCI read_config_generation reads device_status instead of config_generation', 'src/transport/pci.rs',
  "        field_shared!(self.common_cfg, config_generation)\n            .read()\n            .into()",
  "        field_shared!(self.common_cfg, device_status)\n            .read()\n            .into()"),
 ('M7 blk: capacity assembled from two plain reads, outside read_consistent', 'src/device/blk.rs',
  """        let capacity = transport.read_consistent(|| {
            Ok((read_config!(transport, BlkConfig, capacity_low)? as u64)
                | ((read_config!(transport, BlkConfig, capacity_high)? as u64) << 32))
        })?;""",
  """        let capacity = (read_config!(transport, BlkConfig, capacity_low)? as u64)
            | ((read_config!(transport, BlkConfig, capacity_high)? as u64) << 32);"""),
 ('M8 PCI write: the offset-alignment assertion dropped (misaligned access performed)', 'src/transport/pci.rs',
  """        assert_eq!(offset % align_of::<T>(), 0);

        let config_space = self
            .config_space
            .as_mut()""",
  """        let config_space = self
            .config_space
            .as_mut()"""),
 ('M9 9p: tag_len read once BEFORE read_consistent, only the bytes inside it', 'src/device/virtio_9p.rs',
  """    transport.read_consistent(|| {
        let tag_len: u16 = transport.read_config_space(0)?;
        if tag_len == 0 {""",
  """    let tag_len: u16 = transport.read_config_space(0)?;
    transport.read_consistent(|| {
        if tag_len == 0 {"""),
 ('M10 MMIO modern read_config_generation answers a constant', 'src/transport/mmio.rs',
  "            MmioVersion::Modern => field_shared!(self.header, config_generation).read(),",
  "            MmioVersion::Modern => field_shared!(self.header, config_generation).read() & 0,"),
 ('M11 net: MAC read without read_consistent', 'src/device/net/dev_raw.rs',
  "        let mac = transport.read_consistent(|| read_config!(transport, Config, mac))?;",
  "        let mac = read_config!(transport, Config, mac)?;"),
 ('M12 PCI read: Missing capability reported as TooSmall', 'src/transport/pci.rs',
  """            .as_ref()
            .ok_or(Error::ConfigSpaceMissing)?;""",
  """            .as_ref()
            .ok_or(Error::ConfigSpaceTooSmall)?;"""),
 ('M13 console: rows read with a plain read after read_consistent(cols)', 'src/device/console.rs',
  """            self.transport.read_consistent(|| {
                Ok(Some(Size {
                    columns: read_config!(self.transport, Config, cols)?,
                    rows: read_config!(self.transport, Config, rows)?,
                }))
            })""",
  """            let columns = self.transport.read_consistent(|| read_config!(self.transport, Config, cols))?;
            Ok(Some(Size {
                columns,
                rows: read_config!(self.transport, Config, rows)?,
            }))"""),
 ('M14 SomeTransport::Pci read_config_generation masks the byte to 4 bits (wraps after 16 changes)', 'src/transport/some.rs',
  "            Self::Pci(pci) => pci.read_config_generation(),",
  "            Self::Pci(pci) => pci.read_config_generation() & 0xf,"),
]

def sh(cmd, cwd, timeout=1500):
    p = subprocess.run(cmd, shell=True, cwd=cwd, stdout=subprocess.PIPE, stderr=subprocess.STDOUT, text=True, timeout=timeout)
    return p.returncode, p.stdout

rows = []
only = sys.argv[1:]  # optional list of mutation ids
for name, rel, a, b in MUTS:
    if only and name.split()[0] not in only: continue
    F = os.path.join(R, rel)
    orig = open(F).read()
    try:
        assert orig.count(a) >= 1, name
        open(F, 'w').write(orig.replace(a, b, 1))
        rc, out = sh('CARGO_TARGET_DIR=%s/target cargo test --offline 2>&1 | grep -E "^test result|error(\\[|:)" | head -5' % R, R)
        tests_ok = 'test result: ok. 57 passed' in out
        shutil.rmtree(os.path.join(V, 'replays', 'C13'), ignore_errors=True)
        rc, out = sh('./check C13', V)
        lines = [l for l in out.splitlines() if l.startswith(('VIOLATION', 'OK', 'NOTE', 'BROKEN', 'KNOWN'))]
        verdict, detail = 'missed', ''
        vio = [l for l in lines if l.startswith('VIOLATION')]
        if vio:
            if any('no-failing-input-found' in l for l in vio): verdict = 'no-failing-input-found'
            else:
                verdict = 'monitor VIOLATION with replay'
                kinds, scen = set(), ''
                for l in vio:
                    m2 = re.search(r'replay=(\S+)', l)
                    meta = open(os.path.join(V, m2.group(1))).readline()
                    k = re.search(r'"kind": "(\d+)", "scenario": "([^"]+)"', meta)
                    if k: kinds.add(k.group(1)); scen = scen or k.group(2)
                    if 'did not terminate' in meta: kinds.add('hang')
                detail = 'monitor kinds %s; first: %s (%s)' % (sorted(kinds), re.search(r'replay=(\S+)', vio[0]).group(1), scen)
        notes = [l for l in lines if l.startswith('NOTE')]
        rows.append((name, 'pass' if tests_ok else 'FAIL: ' + out[-200:], verdict, detail, notes[0][:200] if notes else ''))
        print(rows[-1], flush=True)
    finally:
        open(F, 'w').write(orig)
shutil.rmtree(os.path.join(V, 'replays', 'C13'), ignore_errors=True)
json.dump(rows, open(os.path.join(V, 'build', 'c13_mutation_results%s.json' % ('_'.join(only))), 'w'), indent=1)
