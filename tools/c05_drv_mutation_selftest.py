#!/usr/bin/env python3
"""Mutation self-test of the driver-level layer of ./check C05 (harness/src/scen/c05_drv.rs, monitors 155 per round of a
driver operation and 164 for blocking helpers) against a scratch copy of the repo (harness/Cargo.toml must point at it;
C05_REPO names it).  Every change is a diff under tools/c05_drv_mutations/ (plus the two seeded changes C05-m3 / C05-m4);
M* must give a monitor VIOLATION with a replay, H* (behaviour-preserving rewrites) must stay OK.
usage: tools/c05_drv_mutation_selftest.py [--tests] [name-prefix ...]     (--tests also runs the crate's unit tests)"""
import subprocess, sys, os, re, json, shutil, glob
R = os.environ.get('C05_REPO', '/tmp/wb_c05d/repo')
V = os.path.dirname(os.path.dirname(os.path.abspath(__file__)))
WHAT = {
 'C05-m3': 'seeded: VirtIONetRaw::receive_begin asks send_queue.should_notify() before notify(QUEUE_RECEIVE) (queues must disagree)',
 'C05-m4': 'seeded: OwningQueue::poll notifies after `let value = result?;` (handler error / oversized length re-queues silently)',
 'Ma_vsock_send_no_notify': 'vsock data packets are added and waited for without should_notify/notify (header-only packets still notify)',
 'Mb_sound_xfer_nb_wrong_queue': 'VirtIOSound::pcm_xfer_nb asks control_queue.should_notify() before notify(TX)',
 'Mc_input_notifies_status_queue': 'VirtIOInput::pop_pending_event notifies the status queue after re-queuing on the event queue',
 'Md_console_checks_before_add': 'console poll_retrieve evaluates should_notify before add (stale index: event index exactly at the next entry)',
 'Me_blk_write_nb_always_notifies': 'VirtIOBlk::write_blocks_nb notifies although the device set its suppression flag',
 'Mf_sound_xfer_notifies_first_only': 'VirtIOSound::pcm_xfer notifies only while nothing else is in flight (later periods are silent)',
 'Mg_vsock_new_no_notify': 'VirtIOSocket::new stocks the rx queue and never tells the device',
 'H1_net_local': 'harmless: receive_begin computes should_notify into a local before notify',
 'H2_owning_notify_in_poll': 'harmless: the should_notify/notify step moved from add_buffer_to_queue into poll, before the result is returned',
}

def sh(cmd, cwd, timeout=2400, env=None):
    p = subprocess.run(cmd, shell=True, cwd=cwd, stdout=subprocess.PIPE, stderr=subprocess.STDOUT, text=True, timeout=timeout, env=env)
    return p.returncode, p.stdout

args = sys.argv[1:]
tests = '--tests' in args
only = [a for a in args if not a.startswith('--')]
items = [('C05-m3', os.path.join(V, 'seeded/C05-m3/patch.diff')), ('C05-m4', os.path.join(V, 'seeded/C05-m4/patch.diff'))]
items += [(os.path.basename(p)[:-5], p) for p in sorted(glob.glob(os.path.join(V, 'tools/c05_drv_mutations/*.diff')))]
rows = []
env = dict(os.environ, VERIF_SKIP_PROOFS='1')
for name, diff in items:
    if only and not any(name.startswith(o) for o in only): continue
    sh('git checkout -q -- .', R)
    rc, out = sh('git apply %s' % diff, R)
    if rc != 0: rows.append((name, 'does not apply', '', '')); print(rows[-1], flush=True); continue
    try:
        tests_ok = ''
        if tests:
            rc, out = sh('CARGO_TARGET_DIR=%s/target timeout 1400 cargo test --offline 2>&1 | grep -E "^test result|error(\\[|:)" | head -5' % R, R)
            tests_ok = 'pass' if 'test result: ok. 57 passed' in out else 'FAIL: ' + out.strip()[-120:]
        shutil.rmtree(os.path.join(V, 'replays', 'C05'), ignore_errors=True)
        rc, out = sh('./check C05', V, env=env)
        lines = [l for l in out.splitlines() if l.startswith(('VIOLATION', 'OK', 'NOTE', 'BROKEN', 'KNOWN'))]
        vio = [l for l in lines if l.startswith('VIOLATION')]
        verdict, detail = ('OK (not flagged)' if any(l.startswith('OK') for l in lines) else 'missed/broken: ' + ' '.join(lines)[:200]), ''
        if vio:
            if any('no-failing-input-found' in l for l in vio): verdict = 'no-failing-input-found'
            else:
                verdict = 'monitor VIOLATION with replay'
                kinds, first = set(), ''
                for l in vio:
                    m2 = re.search(r'replay=(\S+)', l)
                    rp = os.path.join(V, m2.group(1))
                    meta = open(rp).readline()
                    k = re.search(r'"kind": "(\d+)", "scenario": "([^"]+)"', meta)
                    if k:
                        kinds.add(k.group(1))
                        if not first:
                            ops = [x for x in open(rp) if x.startswith('# drv=')]
                            first = '%s in %s (%s)' % (k.group(1), k.group(2), ops[-1].strip()[2:] if ops else '')
                    elif 'did not terminate' in meta: kinds.add('hang')
                detail = 'monitor kinds %s; first: %s' % (sorted(kinds), first)
        expect_ok = name.startswith('H')
        good = (verdict.startswith('OK') if expect_ok else verdict.startswith('monitor VIOLATION'))
        rows.append((name, WHAT.get(name, ''), tests_ok, verdict, detail, 'as expected' if good else 'UNEXPECTED'))
        print(rows[-1], flush=True)
    finally:
        sh('git checkout -q -- .', R)
shutil.rmtree(os.path.join(V, 'replays', 'C05'), ignore_errors=True)
os.makedirs(os.path.join(V, 'build'), exist_ok=True)
json.dump(rows, open(os.path.join(V, 'tools', 'c05_drv_mutation_results.json'), 'w'), indent=1)
sys.exit(0 if all(r[-1] == 'as expected' for r in rows) else 1)
