#!/usr/bin/env python3
"""Mutation self-test of ./check C16 against a scratch copy of the repo (harness/Cargo.toml must point at it).
usage: C16_REPO=/path/to/scratch/repo tools/c16_mutation_selftest.py [M1 M2 ...]"""
import subprocess, sys, os, re, json, shutil
R = os.environ.get('C16_REPO', '/tmp/wb_c16/repo')
V = os.path.dirname(os.path.dirname(os.path.abspath(__file__)))
RAW = 'src/device/net/dev_raw.rs'; DEV = 'src/device/net/dev.rs'; BUF = 'src/device/net/net_buf.rs'

MUTS = [
 ('M1 header size keyed on the wrong feature bit (EVENT_IDX instead of MRG_RXBUF): differs only for a non-VERSION_1 device with event-idx', RAW,
  "                && !negotiated_features.contains(Features::MRG_RXBUF),",
  "                && !negotiated_features.contains(Features::RING_EVENT_IDX),"),
 ('M2 receive_complete always subtracts the 12-byte header: wrong packet_len only without VERSION_1', RAW,
  """        let len = unsafe { self.recv_queue.pop_used(token, &[], &mut [rx_buf])? } as usize;
        let hdr_size = if self.legacy_header {
            size_of::<VirtioNetHdrLegacy>()""",
  """        let len = unsafe { self.recv_queue.pop_used(token, &[], &mut [rx_buf])? } as usize;
        let hdr_size = if self.legacy_header && len < 12 {
            size_of::<VirtioNetHdrLegacy>()"""),
 ('M3 send treats a 1-byte frame like the empty frame (payload dropped at length 1 only)', RAW,
  "                if tx_buf.is_empty() {",
  "                if tx_buf.len() <= 1 {"),
 ('M4 recycle does not update rx_buf.idx: shows only when a buffer comes back under a different token (several buffers held, returned out of order)', DEV,
  "        rx_buf.idx = new_token;\n", "        let _ = &mut rx_buf;\n"),
 ('M5 RxBuffer::packet truncates packets above 1500 bytes', BUF,
  "        &self.buf.as_bytes()[hdr_size..hdr_size + self.packet_len]",
  "        &self.buf.as_bytes()[hdr_size..hdr_size + self.packet_len.min(1500)]"),
 ('M6 can_send true with a single free descriptor', RAW,
  "        self.send_queue.available_desc() >= 2", "        self.send_queue.available_desc() >= 1"),
 ('M7 recycle forgets the buffer when it lands in the last slot', DEV,
  "        self.rx_buffers[new_token as usize] = Some(rx_buf);",
  "        if new_token as usize + 1 != QUEUE_SIZE || QUEUE_SIZE == 1 { self.rx_buffers[new_token as usize] = Some(rx_buf); }"),
 ('M8 transmit_begin shares at most 1524 bytes of the buffer (long frames cut)', RAW,
  "        let token = unsafe { self.send_queue.add(&[tx_buf], &mut [])? };",
  "        let token = unsafe { self.send_queue.add(&[&tx_buf[..tx_buf.len().min(1524)]], &mut [])? };"),
 ('M9 send puts the frame before the header', RAW,
  "                        &[header.as_bytes(), tx_buf],", "                        &[tx_buf, header.as_bytes()],"),
 ('M10 receive takes the buffer of the NEXT slot when the token is 2 (wrong buffer handed out)', DEV,
  "            let mut rx_buf = self.rx_buffers[token as usize]",
  "            let mut rx_buf = self.rx_buffers[if token == 2 && QUEUE_SIZE > 3 && self.rx_buffers[3].is_some() { 3 } else { token as usize }]"),
 ('M11 can_recv looks at the transmit queue', DEV,
  "        self.inner.poll_receive().is_some()", "        self.inner.poll_receive().is_some() && self.inner.can_send()"),
 ('M12 VirtIONet header for packet(): legacy flag inverted when buffers are created (wrong offset without VERSION_1 and with it)', DEV,
  "            let mut rx_buf = RxBuffer::new(i, buf_len, inner.legacy_header);",
  "            let mut rx_buf = RxBuffer::new(i, buf_len, inner.legacy_header && i != 1);"),
]

def sh(cmd, cwd, timeout=1500):
    p = subprocess.run(cmd, shell=True, cwd=cwd, stdout=subprocess.PIPE, stderr=subprocess.STDOUT, text=True, timeout=timeout)
    return p.returncode, p.stdout

rows = []
only = sys.argv[1:]
for name, rel, a, b in MUTS:
    if only and name.split()[0] not in only: continue
    F = os.path.join(R, rel)
    orig = open(F).read()
    try:
        assert a in orig, name
        open(F, 'w').write(orig.replace(a, b, 1))
        rc, out = sh('CARGO_TARGET_DIR=%s/target cargo test --offline 2>&1 | grep -E "^test result|^error" | head -5' % R, R)
        tests_ok = 'test result: ok. 57 passed' in out
        shutil.rmtree(os.path.join(V, 'replays', 'C16'), ignore_errors=True)
        rc, out = sh('./check C16', V)
        lines = [l for l in out.splitlines() if l.startswith(('VIOLATION', 'OK', 'NOTE', 'BROKEN', 'KNOWN'))]
        verdict, detail = 'missed', ''
        vio = [l for l in lines if l.startswith('VIOLATION')]
        if vio:
            if all('no-failing-input-found' in l for l in vio): verdict = 'no-failing-input-found'
            else:
                verdict = 'monitor VIOLATION with replay'
                kinds = set(); first = ''
                for l in vio:
                    m2 = re.search(r'replay=(\S+)', l)
                    meta = open(os.path.join(V, m2.group(1))).readline()
                    k = re.search(r'"kind": "(\d+)"', meta)
                    if k: kinds.add(k.group(1))
                    if not first:
                        sc = re.search(r'"scenario": "([^"]+)"', meta)
                        first = '%s (%s)' % (m2.group(1), sc.group(1) if sc else '')
                detail = 'monitor kinds %s; first: %s' % (sorted(kinds), first)
        notes = [l for l in lines if l.startswith('NOTE')]
        rows.append((name, 'pass' if tests_ok else 'FAIL:' + out[-200:], verdict, detail, notes[0][:200] if notes else ''))
        print(rows[-1], flush=True)
    finally:
        open(F, 'w').write(orig)
        sh('git checkout -q -- .', R)
json.dump(rows, open(os.path.join(V, 'build', 'c16_mutation_results%s.json' % ('_'.join(only))), 'w'), indent=1)
