"""C17: check configuration (PROPS_ENTRY, consumed by ./check and gen_manifest.py) and the list of lemmas that make up
the property file (SPEC_ENTRY, consumed by tools/mkprops.py)."""
PROPS_ENTRY = {'models': ['Model/Vsock.v', 'Model/VsockSpec.v', 'Model/ConnMgr.v', 'Model/ConnMgrSpec.v'],
 'design_ref': 'DESIGN.md 3 C17',
 'assumptions': ['the check also runs multi-connection histories of C18 (scenario c18-history-*): the stream and credit clauses are per connection',
                 'ONE established stream connection is modelled (ConnectionInfo + its RingBuffer, the parts of VsockConnectionManager::poll / recv / send / '
                 'update_credit that concern it); the connection table, connection set-up / tear-down and packets of other connections are property C18',
                 'the transmit virtqueue accepts and completes every packet (add_notify_wait_pop returns Ok; C01-C05): a packet is the event (header, '
                 'payload length); if the queue refused a packet, send would return that error AFTER advancing tx_cnt (conservative, not modelled)',
                 'the peer is honest in the sense of VirtIO 1.2 5.10.6.3: a data packet fits buf_alloc - (tx_cnt - fwd_cnt) of the last driver packet it saw, and '
                 'it reports as consumed only bytes that were sent to it; its header fields are 32-bit; packets are delivered in order',
                 'per-connection capacity >= 1 (capacity 0 makes RingBuffer::add / drain divide by zero: excluded, documented) and < 2^32 (it is a u32)',
                 'the reference observer of Model/VsockSpec.v (header layout table, bounded FIFO, both credit windows with unbounded counters) is a faithful '
                 'reading of VirtIO 1.2 section 5.10.6, written from the specification and not from the driver',
                 'usize is 64 bits (the harness platform): 44 + len cannot overflow, so SocketError::InvalidNumber is unreachable'],
 'trusted_extra': ['harness reference vsock device + peer (harness/src/scen/c17.rs): reads every transmit chain through device addresses, fills rx buffers, keeps '
                   'its own 32-bit credit windows; the monitors (kinds 1751-1771) re-derive every judgement in Coq from the raw observations (44 header bytes, '
                   'payload length, results), they do not trust the harness peer',
                   'cfg(virtio_drivers_verif) hooks corpus/findings/C17_hooks.diff: ConnectionInfo::verif_counters / verif_set_counters, VerifRingBuffer, '
                   'verif_read_header_and_body, VsockConnectionManager::verif_connection / verif_set_counters (add-only)',
                   'a real > 4 GiB stream is NOT run: the counters are pre-set next to 2^32 through the hook instead, so that both wrap within a few dozen operations']}

SPEC_ENTRY = {'title': 'Socket streams are loss-free and obey credit-based flow control both ways',
 'imports': ['Model.Vsock', 'Model.VsockSpec', 'Proofs.VsockProofs'],
 'theorems': [('C17_header_layout',
               'Proofs/VsockProofs.v',
               'hdr_on_wire',
               'the 44 bytes the crate emits for a header decode, by the offsets of struct virtio_vsock_hdr in VirtIO 1.2 5.10.6, to exactly the fields it was built from'),
              ('C17_header_decoder',
               'Proofs/VsockProofs.v',
               'dec_hdr_is_spec',
               "the crate's decoder (read_from_prefix, field after field) is the specification's decoder on EVERY byte string of at least 44 bytes"),
              ('C17_header',
               'Proofs/VsockProofs.v',
               'send_header',
               'every packet put on the transmit queue by send (the data packet, or the credit request of a refused send) carries in the bytes the specification '
               "assigns to them: src/dst cid and port of the connection, type = stream, the payload length, and the driver's CURRENT buf_alloc and fwd_cnt; send "
               'changes neither'),
              ('C17_header_credit_update', 'Proofs/VsockProofs.v', 'credit_update_header', 'the same for credit_update'),
              ('C17_read_header_and_body',
               'Proofs/VsockProofs.v',
               'rhb_sound',
               'a body handed out lies inside the received buffer and has the length the header states'),
              ('C17_tx_credit_iff',
               'Proofs/VsockProofs.v',
               'send_accepts_iff',
               'send succeeds iff len <= peer_buf_alloc - ((tx_cnt - peer_fwd_cnt) mod 2^32) (truncated at 0), for EVERY value of the counters and every usize '
               'length: no hypothesis, hence also across 2^32 and after the peer has shrunk its buffer'),
              ('C17_tx_send_ok', 'Proofs/VsockProofs.v', 'send_ok_spec', 'a successful send: exactly one RW packet, tx_cnt advanced by len modulo 2^32, nothing else changed'),
              ('C17_tx_refused',
               'Proofs/VsockProofs.v',
               'send_refused_spec',
               'a refused send: InsufficientBufferSpaceInPeer, no counter changes, nothing sent except ONE credit request when none is pending'),
              ('C17_tx_no_panic', 'Proofs/VsockProofs.v', 'send_never_panics', 'send never panics, whatever the counters (both profiles: the repaired code has no plain arithmetic)'),
              ('C17_tx_in_flight_bounded',
               'Proofs/VsockProofs.v',
               'in_flight_bounded',
               'after a successful non-empty send the bytes in flight have grown by len and do not exceed the space the peer last advertised'),
              ('C17_tx_single_credit_request',
               'Proofs/VsockProofs.v',
               'single_credit_request',
               'over ANY sequence of sends, events other than a credit update, and recvs: at most one credit request (none if one was pending)'),
              ('C17_tx_credit_update_rearms', 'Proofs/VsockProofs.v', 'credit_update_rearms', None),
              ('C17_ringbuffer_add',
               'Proofs/VsockProofs.v',
               'rb_add_refines',
               'RingBuffer::add for every capacity >= 1, every cursor position and fill: appends to the abstract queue when the bytes fit, otherwise returns false and '
               'changes nothing; never panics'),
              ('C17_ringbuffer_drain',
               'Proofs/VsockProofs.v',
               'rb_drain_refines',
               'RingBuffer::drain: hands out the first min(used, |out|) bytes of the abstract queue, keeps the rest; never panics'),
              ('C17_ringbuffer',
               'Proofs/VsockProofs.v',
               'rb_refines_fifo',
               'every history of add / drain from a well-formed buffer produces the answers of the bounded FIFO byte queue and stays well formed'),
              ('C17_rx_credit',
               'Proofs/VsockProofs.v',
               'rx_credit_never_overstates',
               'in every reachable state the credit a peer derives from any header the driver builds equals the free space of the ring buffer minus the bytes still '
               'in the rx virtqueue: never more'),
              ('C17_step',
               'Proofs/VsockProofs.v',
               'sys_step_ok',
               'one operation (send / peer control packet / peer data / recv / update_credit) from a related state with a rule-abiding environment: every judgement '
               'of the reference observer is true and the relation is kept'),
              ('C17_lossless',
               'Proofs/VsockProofs.v',
               'sys_run_ok',
               'C17_lossless + C17_wrap: for every history with a peer that honours the advertised credit, from any starting value of the free-running counters, '
               'every observer judgement is true (sends accepted iff credit suffices, single credit request, headers current, credit never overstated, no peer data '
               'refused) and bytes read ++ bytes buffered = bytes the peer sent, in order'),
              ('C17_initial_state', 'Proofs/VsockProofs.v', 'Rel_init', 'the hypothesis of C17_lossless holds of a fresh connection with ANY 32-bit counter values (nothing in flight)'),
              ('C17_wrap_refuted_tx_add',
               'Proofs/VsockProofs.v',
               'send_prefix_refuted_tx_wrap',
               'code as found (before fix C17_F7): tx_cnt + len crossing 2^32 panics in the debug profile although the credit suffices'),
              ('C17_wrap_refuted_tx_sub', 'Proofs/VsockProofs.v', 'send_prefix_refuted_tx_wrapped', 'code as found: after tx_cnt has wrapped, tx_cnt - peer_fwd_cnt panics in debug'),
              ('C17_wrap_refuted_fwd', 'Proofs/VsockProofs.v', 'done_forwarding_prefix_refuted', 'code as found: fwd_cnt crossing 2^32 panics in debug'),
              ('C17_wrap_refuted_recv', 'Proofs/VsockProofs.v', 'recv_prefix_refuted', 'code as found: recv panics after the bytes have left the ring buffer: they are lost'),
              ('C17_tx_credit_refuted',
               'Proofs/VsockProofs.v',
               'send_prefix_refuted_credit_underflow',
               'code as found (before fix C17_F12): peer buffer shrunk below the bytes in flight: release ACCEPTS a payload with no credit left, debug panics'),
              ('C17_tx_credit_partial',
               'Proofs/VsockProofs.v',
               'send_prefix_partial',
               'what did hold of the code as found: it agrees with the repaired code when the bytes in flight fit the advertised space and (debug) no counter '
               'is involved in a wrap')],
 'examples': ['Example C17_in_flight_bounded_nonvacuous :\n'
 '  let c := mkConn 2 1234 4321 50 4294967290 4294967294 1024 7 false in\n'
 '  conn_wf c /\\ in_flight c = 4\n'
 '  /\\ send c 66 46 = (Ok tt, set_tx_cnt c 44, [Pkt (mkHdr 66 2 4321 1234 46 1 5 0 1024 7) 46])\n'
 '  /\\ in_flight (set_tx_cnt c 44) = 50.\n'
 'Proof. exact in_flight_bounded_nonvacuous. Qed.',
 'Example C17_single_credit_request_nonvacuous :\n'
 '  let c := mkConn 2 1234 4321 10 0 0 1024 0 false in\n'
 '  let ev := mkEvent 2 1234 66 4321 10 0 (TReceived 0) in\n'
 '  snd (crun c 66 [CSend 11; CSend 12; CEvent ev; CSend 20; CSend 4])\n'
 '  = [Pkt (mkHdr 66 2 4321 1234 0 1 7 0 1024 0) 0; Pkt (mkHdr 66 2 4321 1234 4 1 5 0 1024 0) 4].\n'
 'Proof. exact single_credit_request_nonvacuous. Qed.',
 'Example C17_rb_refines_fifo_nonvacuous :\n'
 '  rb_wf (rb_new 3) /\\\n'
 '  rb_run (rb_new 3) [RAdd [1; 2]; RDrain 1; RAdd [3; 4]; RAdd [5]; RDrain 5]\n'
 '  = (mkRB [4; 2; 3] 0 1, [Ok [1]; Ok [1]; Ok [1]; Ok [0]; Ok [2; 3; 4]]).\n'
 'Proof. exact rb_refines_fifo_nonvacuous. Qed.',
 'Example C17_sys_run_nonvacuous :\n'
 '  let v := mkV (mkConn 2 1234 4321 8 4294967294 4294967294 3 4294967295 false) (rb_new 3) in\n'
 '  let st := spec_init 66 2 1234 4321 3 4294967295 4294967294 0 8 false in\n'
 '  Rel v st /\\\n'
 "  let '(e, b, v', st', delivered, sent) :=\n"
 '    sys_run v st [SSend 5; SSend 4; SSend 4; SPeerData [7; 8] 8 0; SRecv 1; SPeerCtrl 6 8 5; SSend 4;\n'
 '                  SPeerData [9; 10] 8 0; SRecv 5; SUpdateCredit; SPeerData [11; 12; 13] 8 4; SRecv 2] in\n'
 '  e = true /\\ b = true /\\ delivered = [7; 8; 9; 10; 11; 12] /\\ sent = [7; 8; 9; 10; 11; 12; 13]\n'
 "  /\\ c_tx_cnt (v_info v') = 7 /\\ c_fwd_cnt (v_info v') = 5 /\\ c_pending (v_info v') = false\n"
 "  /\\ s_tx_total st' = 9 /\\ s_delivered st' = 6 /\\ v_rb v' = mkRB [13; 11; 12] 1 0.\n"
 'Proof. exact sys_run_nonvacuous. Qed.']}

# ---- the monitors evaluated on the IMPLEMENTATION's observations, tied to the statements they stand for (Proofs/VsockMonProofs.v):
# ---- "meaning" = what a true verdict implies, for any input list; "holds_of_model" = no false alarm on code that behaves like the model
SPEC_ENTRY['imports'] += [m for m in ['Extract.VsockIO', 'Proofs.VsockMonProofs'] if m not in SPEC_ENTRY['imports']]
SPEC_ENTRY['theorems'] += [
  ('C17_monitor_1751_meaning', 'Proofs/VsockMonProofs.v', 'mon1751_meaning', 'line [cap]: the specification queue becomes the empty queue of that capacity'),
  ('C17_monitor_1752_meaning', 'Proofs/VsockMonProofs.v', 'mon1752_meaning', 'add: accepted exactly when the bytes fit (queue ++ bytes), refused exactly when not (unchanged)'),
  ('C17_monitor_1753_meaning', 'Proofs/VsockMonProofs.v', 'mon1753_meaning', 'drain: n = min(out_len, length), the bytes are the n oldest, the rest stays'),
  ('C17_monitor_fifo_bounded', 'Proofs/VsockMonProofs.v', 'mon_fifo_bounded', 'the specification queue never outgrows its capacity'),
  ('C17_monitor_1760_meaning', 'Proofs/VsockMonProofs.v', 'mon1760_meaning', 'observer set-up: ten numbers, explicit initial record'),
  ('C17_monitor_1761_meaning', 'Proofs/VsockMonProofs.v', 'mon1761_meaning', "send: fits => Ok, one RW packet with correct fields, payload intact, in flight still within the peer's space; else refused, at most one credit request"),
  ('C17_monitor_1762_meaning', 'Proofs/VsockMonProofs.v', 'mon1762_meaning', 'peer control packet: credit request answered by one credit update with current numbers; others reported, nothing sent'),
  ('C17_monitor_1763_meaning', 'Proofs/VsockMonProofs.v', 'mon1763_meaning', 'peer data within the advertised credit is accepted, payload appended to the unread stream'),
  ('C17_monitor_1764_meaning', 'Proofs/VsockMonProofs.v', 'mon1764_meaning', 'recv returns exactly the min(out_len, buffered) oldest unread bytes'),
  ('C17_monitor_1765_meaning', 'Proofs/VsockMonProofs.v', 'mon1765_meaning', 'update_credit: one credit update with the current buf_alloc / fwd_cnt'),
  ('C17_monitor_1766_meaning', 'Proofs/VsockMonProofs.v', 'mon1766_meaning', 'connect / shutdown packet: addressing, stream type, current buf_alloc / fwd_cnt, no payload'),
  ('C17_monitor_1767_meaning', 'Proofs/VsockMonProofs.v', 'mon1767_meaning', 'exactly 44 bytes that decode by the specification offsets to the ten fields asked for'),
  ('C17_monitor_1767_fields', 'Proofs/VsockMonProofs.v', 'mon1767_fields', 'the same, each field as the little-endian number at its offset'),
  ('C17_monitor_1770_meaning', 'Proofs/VsockMonProofs.v', 'mon1770_meaning', '32-bit credit rule: fits <=> accepted with tx_cnt + len mod 2^32 and one RW packet; else refused, one credit request iff none pending'),
  ('C17_monitor_1770_in_flight', 'Proofs/VsockMonProofs.v', 'mon1770_in_flight_bounded', "after an accepted non-empty send (tx_cnt' - peer_fwd_cnt) mod 2^32 grew by len and is <= peer_buf_alloc, across the wrap"),
  ('C17_monitor_1771_meaning', 'Proofs/VsockMonProofs.v', 'mon1771_meaning', 'done_forwarding returned and fwd_cnt advanced by n modulo 2^32'),
  ('C17_monitor_stream_meaning', 'Proofs/VsockMonProofs.v', 'mon_stream_lossless_meaning', 'all observer lines accepted => unread ++ peer payloads = bytes read ++ unread afterwards, in order'),
  ('C17_monitor_stream_from_start', 'Proofs/VsockMonProofs.v', 'mon_stream_lossless_from_start', 'from a 1760 line: delivered = read ++ unread, and S = D + unread'),
  ('C17_monitor_opkts_decode', 'Proofs/VsockMonProofs.v', 'vk_dec_opkts_layout', 'every list decodes as a documented packet list (count >= packets present)'),
  ('C17_monitor_first_line', 'Proofs/VsockMonProofs.v', 'vsock_step_from_none', 'an accepted stateful line at scenario start (no state) is the same line from vs0'),
  ('C17_monitor_1751_holds_of_model', 'Proofs/VsockMonProofs.v', 'mon1751_holds_of_model', None),
  ('C17_monitor_1752_holds_of_model', 'Proofs/VsockMonProofs.v', 'mon1752_holds_of_model', 'the line of rb_add passes when the spec queue is rb_abs; it stays so'),
  ('C17_monitor_1753_holds_of_model', 'Proofs/VsockMonProofs.v', 'mon1753_holds_of_model', 'the line of rb_drain passes'),
  ('C17_monitor_1760_holds_of_model', 'Proofs/VsockMonProofs.v', 'mon1760_holds_of_model', 'the state set up by 1760 is Rel-related to the fresh connection'),
  ('C17_monitor_1761_holds_of_model', 'Proofs/VsockMonProofs.v', 'mon1761_holds_of_model', 'the line of vsend passes in every Rel state, Rel kept'),
  ('C17_monitor_1762_holds_of_model', 'Proofs/VsockMonProofs.v', 'mon1762_holds_of_model', None),
  ('C17_monitor_1763_holds_of_model', 'Proofs/VsockMonProofs.v', 'mon1763_holds_of_model', None),
  ('C17_monitor_1764_holds_of_model', 'Proofs/VsockMonProofs.v', 'mon1764_holds_of_model', None),
  ('C17_monitor_1765_holds_of_model', 'Proofs/VsockMonProofs.v', 'mon1765_holds_of_model', None),
  ('C17_monitor_1766_holds_of_model', 'Proofs/VsockMonProofs.v', 'mon1766_holds_of_model', 'any payload-free packet built on new_header passes'),
  ('C17_monitor_1767_holds_of_model', 'Proofs/VsockMonProofs.v', 'mon1767_holds_of_model', 'header encoder round trip'),
  ('C17_monitor_1767_holds_of_send', 'Proofs/VsockMonProofs.v', 'mon1767_holds_of_send', 'every packet of send, fields asked for computed from the connection'),
  ('C17_monitor_1770_holds_of_model', 'Proofs/VsockMonProofs.v', 'mon1770_holds_of_model', 'send passes for EVERY counter value, pending flag and length'),
  ('C17_monitor_1771_holds_of_model', 'Proofs/VsockMonProofs.v', 'mon1771_holds_of_model', 'done_forwarding passes unconditionally'),
  ('C17_monitor_nonvacuous', 'Proofs/VsockMonProofs.v', 'c17x_accepted_history', 'eleven observer lines, all accepted, fwd_cnt crossing 2^32'),
]
