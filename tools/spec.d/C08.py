"""C08: check configuration (PROPS_ENTRY, consumed by ./check and gen_manifest.py) and the list of lemmas that make up
the property file (SPEC_ENTRY, consumed by tools/mkprops.py)."""
PROPS_ENTRY = {'models': ['Model/Init.v', 'Model/InitSpec.v', 'Model/InitPci.v'],
 'design_ref': 'DESIGN.md 3 C08',
 'assumptions': ['the body of each constructor is transcribed statement by statement into the list `body d p1 p2` (Model/Init.v); the tie to the Rust source is '
                 'the correspondence check (ordered log of every Transport call / MMIO register access, every VirtQueue::new argument tuple, every dma_alloc and '
                 'share with its access_platform argument), not a theorem',
                 'environment inputs, universally quantified in the theorems: offered feature word, config-space bytes (constant during construction), answers '
                 'of read_config_generation (after the scripted ones the last repeats, so read_consistent terminates), per queue the answers of queue_used / '
                 'max_queue_size / dma_alloc and the used.flags / avail_event words the device has written; String::from_utf8 of the 9p mount tag is an input',
                 'the token asserts of the pre-posting loops (input, OwningQueue::new, VirtIONet::new: token == i) are not re-proved here (C19_new_stocked); '
                 'queue.add of one buffer on a queue with a free descriptor cannot fail (C01/C03)',
                 'release actions of a failing constructor (dealloc, unshare, queue_unset, reset on drop) are left out of the compared log: property C09',
                 'the 9p constructor is modelled as repaired by f0b6ba0 (F3 of C09): the mount tag is read before finish_init',
                 'feature-gated operations are modelled for the first request on a fresh queue against a device that completes a chain by zero-filling its writable part',
                 'PCI (kinds 812, 854; Model/InitPci.v): lower_pci renders each Transport call with the per-operation access model of C11 (Model/Pci.v exec, '
                 'transcribed from pci.rs and tied to it by the C11 correspondence) on a canonical transport whose four windows are 2^48 apart - that every real '
                 'window lies inside a memory BAR is C11, not re-proved here; read_config_generation (one 8-bit read at offset 21) and read_config_space (safe-mmio '
                 'chunks of Model/Config.v) are rendered as in C13. What the driver sees through PciTransport (pci_env): the device-specific window as whole 32-bit '
                 'words or absent (then ConfigSpaceMissing), config_generation 8 bits, queue_size 16 bits. Hypothesis pe_ok of the PCI theorems: '
                 'notify_off_multiplier even (PciTransport::new refuses an odd one: C11_windows) and the notification window at most 2^47 elements (its length is a '
                 'u32 of bytes). The decoder lift_pci / order_ok_pci is written from VirtIO 1.2 4.1.3.1, 4.1.4.3, 4.1.4.4, 4.1.5.2; a single 64-bit access to '
                 'queue_desc / queue_driver / queue_device (what the code does; 4.1.3.1 prescribes two 32-bit accesses) is accepted and recorded as an observation; '
                 'begin_init writes device_status := 0 and continues without waiting for device_status to read 0 (4.1.4.3.2 asks for the wait on PCI; Drop does wait): '
                 'outside the property text, recorded as an observation, not required by the automaton',
                 'VirtIO 1.2 3.1.1 step 6 (re-read the status to see that FEATURES_OK stuck) is not performed by begin_init; the property text does not ask for it and the '
                 'automaton does not require it (recorded as an observation)'],
 'trusted_extra': ['hook C08_hooks.diff (cfg virtio_drivers_verif, add-only): verif::queue_new reports the arguments of every VirtQueue::new; without it the three '
                   'negotiated flags are private to the queue',
                   'harness/src/scen/drivers.rs: ApHal (records the access_platform argument of each platform call), HookT (transparent Transport wrapper scripting '
                   'per-queue answers and generation answers, device writes at queue registration, minimal reference device), FuncDev (functional virtio-mmio '
                   'register file, legacy and modern) under the real MmioTransport',
                   'harness/src/scen/drivers.rs PciFuncDev: functional virtio-pci function (configuration space and capabilities built with the C11 '
                   'scenario\'s build_dev, one memory BAR holding the four structures, registers behind the selectors, per-queue queue_notify_off, '
                   'config_generation, device configuration bytes) under the real PciTransport obtained from the real PciTransport::new; the harness attributes '
                   'each logged BAR access to a window (common / notify / ISR / device) by the offsets the capabilities advertise',
                   'feature-gated operations are run on the model transport only']}

SPEC_ENTRY = {'title': 'Every driver performs the init handshake and honours the negotiated features',
 'imports': ['Model.Layout', 'Model.Init', 'Model.Mmio', 'Model.MmioSpec', 'Model.InitSpec', 'Model.InitPci', 'Model.Queue', 'Proofs.InitProofs', 'Proofs.InitPciProofs'],
 'theorems': [('C08_handshake_all_drivers',
               'Proofs/InitProofs.v', 'handshake_accept',
               'for each of the eleven constructors and EVERY environment (offered word, config bytes, generation answers, per-queue answers, generic parameters, '
               'profile): the ordered transport-call log is accepted by the initialisation automaton written from VirtIO 1.2 3.1.1 (reset first; ACKNOWLEDGE with/before '
               'DRIVER; features read after DRIVER; accepted set written before FEATURES_OK, a subset of offered and of supported keeping VERSION_1; FEATURES_OK '
               'before DRIVER_OK; status bits only added; every queue_set between FEATURES_OK and DRIVER_OK; no notify before DRIVER_OK), and a constructor that '
               'returns Ok leaves status = ACKNOWLEDGE|DRIVER|FEATURES_OK|DRIVER_OK'),
              ('C08_handshake_shape',
               'Proofs/InitProofs.v', 'handshake_shape',
               'the explicit form: SetStatus 0; SetStatus 3; ReadFeatures; WriteFeatures (offered & supported_X); SetStatus 11; GuestPageSize 4096; then set-up events '
               'containing no status write, no feature traffic and NO NOTIFY; then SetStatus 15; then events containing no status write and no queue_set. A constructor '
               'that does not reach DRIVER_OK returned an error (VirtIOSocket with RX_BUFFER_SIZE <= 44 panics before touching the device)'),
              ('C08_begin_init', 'Proofs/InitProofs.v', 'begin_init_ok',
               'begin_init with the SUPPORTED_FEATURES of any of the eleven drivers: the debug_assert never fires (every constant contains VERSION_1), both profiles'),
              ('C08_features', 'Proofs/InitProofs.v', 'features_written',
               'the word written to the device is offered & supported_X: a subset of both, VERSION_1 kept when offered, below 2^64'),
              ('C08_no_notify_before_driver_ok', 'Proofs/InitProofs.v', 'no_notify_before_driver_ok',
               'whenever a constructor notifies, the last status written before it contains DRIVER_OK (all eleven, after the repair of VirtIOInput::new)'),
              ('C08_queue_set_before_driver_ok', 'Proofs/InitProofs.v', 'queue_set_before_driver_ok', None),
              ('C08_ok_ends_live', 'Proofs/InitProofs.v', 'ok_ends_live', None),
              ('C08_queues', 'Proofs/InitProofs.v', 'construct_queues', 'a constructor that succeeds registered exactly its queues, with their sizes, in program order'),
              ('C08_queue_flags', 'Proofs/InitProofs.v', 'queue_flags',
               'gating: every VirtQueue::new receives indirect / event_idx / access_platform = bits 28 / 29 / 33 of the negotiated word'),
              ('C08_platform_flags', 'Proofs/InitProofs.v', 'platform_flags', 'every dma_alloc and share of a constructor carries access_platform = bit 33 of the negotiated word'),
              ('C08_flags_monitor', 'Proofs/InitProofs.v', 'construct_flags', 'the flags monitor (kind 852) holds of the model'),
              ('C08_blk_readonly', 'Proofs/InitProofs.v', 'blk_readonly_gate', 'readonly() = bit 5 (VIRTIO_BLK_F_RO) of the negotiated word'),
              ('C08_blk_flush', 'Proofs/InitProofs.v', 'blk_flush_gate', 'flush() emits a request iff bit 9 (VIRTIO_BLK_F_FLUSH) was negotiated; otherwise Ok without touching queue or transport'),
              ('C08_console_size', 'Proofs/InitProofs.v', 'console_size_gate', 'size() reads cols/rows iff bit 0 was negotiated, else Ok(None) without config access'),
              ('C08_console_emergency_write', 'Proofs/InitProofs.v', 'console_emerg_gate', 'emergency_write writes emerg_wr iff bit 2 was negotiated, else Unsupported'),
              ('C08_gpu_get_edid', 'Proofs/InitProofs.v', 'gpu_edid_gate', 'get_edid sends GET_EDID iff bit 1 was negotiated, else Unsupported without a request'),
              ('C08_net_header', 'Proofs/InitProofs.v', 'net_header_gate',
               'the network header is 12 bytes exactly when VERSION_1 was offered (hence negotiated), 10 otherwise - fill_buffer_header and the first buffer of send; '
               'MRG_RXBUF (bit 15) is not in SUPPORTED_FEATURES'),
              ('C08_gating_monitor', 'Proofs/InitProofs.v', 'gop_conforms',
               'the gating monitor (kind 853: indirect table / INDIRECT descriptor only with bit 28, used_event written only with bit 29, platform flag = bit 33, '
               'and the per-operation rule) holds of every modelled operation'),
              ('C08_input_prefix_refuted', 'Proofs/InitProofs.v', 'input_prefix_refuted',
               'VirtIOInput::new before the repair (defect F2): a concrete environment in which it returns Ok having notified queue 0 while the status was still '
               'ACKNOWLEDGE|DRIVER|FEATURES_OK; the automaton rejects the trace'),
              ('C08_input_prefix_partial', 'Proofs/InitProofs.v', 'input_prefix_partial',
               'the strongest statement true before the repair: with the notifications removed, the sequence is accepted for every environment (only the '
               'notification clause failed)'),
              ('C08_on_real_transports', 'Proofs/InitProofs.v', 'construct_mmio_accept',
               'each constructor on MmioTransport (legacy and modern; every Transport call replaced by the register accesses of the C10 model): the accesses, decoded '
               'with the register table of the specification, are accepted by the same automaton - Status writes in order, QueueReady/QueuePFN between FEATURES_OK and '
               'DRIVER_OK, no QueueNotify write before Status := 15'),
              ('C08_mmio_status_order', 'Proofs/InitProofs.v', 'lower_statuses', 'the Status register receives the same values in the same order as set_status is called'),
              ('C08_begin_init_is_c10_begin_init', 'Proofs/InitProofs.v', 'begin_init_is_c10_begin_init',
               'begin_init rendered call by call equals the OBeginInit operation of the C10 transport model'),
              ('C08_pci_handshake_all_drivers', 'Proofs/InitPciProofs.v', 'construct_pci_accept',
               'each constructor on PciTransport, for EVERY environment and EVERY PCI function (multiplier, notification window length, queue_notify_off answers, '
               'with or without a device-specific window, any window alignment): the accesses to the common configuration structure and the notification window '
               '(every Transport call replaced by the accesses of the C11 model), decoded with the layout of VirtIO 1.2 4.1.4.3, are accepted by the same '
               'automaton - device_status writes in order, the offered word read as two halves, the accepted word written as two halves before FEATURES_OK, '
               'queue_enable := 1 between FEATURES_OK and DRIVER_OK, no write to the notification window before device_status := 15; a constructor that '
               'returns Ok leaves device_status = 15'),
              ('C08_pci_access_rules', 'Proofs/InitPciProofs.v', 'lower_pci_order_ok',
               'for ANY sequence of Transport calls the accesses obey the PCI rules: natural width of every field, no write to a read-only field, queue_enable := 1 '
               'only after the three addresses of the selected queue and never := 0, a notification is the 16-bit write of q at queue_notify_off(q) * multiplier '
               'after that offset was read'),
              ('C08_pci_monitor', 'Proofs/InitPciProofs.v', 'construct_pci_monitor', 'the PCI monitor (kind 854) holds of the model of every constructor'),
              ('C08_pci_roundtrip', 'Proofs/InitPciProofs.v', 'lift_lower_pci_exact',
               'lift_pci (lower_pci tr) = the status / feature / queue_set / notify calls of tr with their arguments, in order, for every call sequence whose '
               'arguments fit the registers and whose notifications do not panic'),
              ('C08_pci_constructors_fit_registers', 'Proofs/InitPciProofs.v', 'construct_pci_narrow',
               'the calls of every constructor fit: status < 2^8, feature words < 2^64, queue sizes < 2^16 (max_queue_size is a 16-bit register on PCI)'),
              ('C08_pci_constructor_roundtrip', 'Proofs/InitPciProofs.v', 'construct_pci_roundtrip',
               'hence for every constructor the decoded accesses ARE its handshake calls, argument for argument'),
              ('C08_pci_call_decoded', 'Proofs/InitPciProofs.v', 'hs_step_norm',
               'a call the automaton accepts is still accepted after the truncation to register widths that the PCI transport applies'),
              ('C08_pci_monitor_notify_meaning', 'Proofs/InitPciProofs.v', 'pci_monitor_notify_meaning',
               'what a true verdict of monitor 854 means on ANY observed access sequence: before every write to the notification window the last 8-bit write to '
               'device_status contained DRIVER_OK'),
              ('C08_pci_monitor_enable_meaning', 'Proofs/InitPciProofs.v', 'pci_monitor_enable_meaning',
               '... and every write to queue_enable writes 1, after a device_status write with FEATURES_OK and before one with DRIVER_OK'),
              ('C08_monitor_notify_meaning', 'Proofs/InitProofs.v', 'hs_notify_sound', 'what a true verdict of the automaton means on ANY (in particular an observed) log'),
              ('C08_monitor_queue_set_meaning', 'Proofs/InitProofs.v', 'hs_queue_set_sound', None),
              ('C08_monitor_features_meaning', 'Proofs/InitProofs.v', 'hs_features_sound', None),
              ('C08_monitor_status_meaning', 'Proofs/InitProofs.v', 'hs_status_sound', None),
              ('C08_read_consistent_terminates', 'Proofs/InitProofs.v', 'read_consistent_result',
               'the fuel of the read_consistent loop is never exhausted: its result is the result of the closure'),
              ('C08_should_notify_is_queue_model', 'Proofs/InitProofs.v', 'should_notify_at_is_queue_model', None),
              ('C08_supported_version1', 'Proofs/InitProofs.v', 'supported_version1', None)],
 'examples': ['Example C08_constructors_succeed_nonvacuous :\n'
              '  forallb (fun d => is_ok (fst (construct d (env_good 0x330000225)))\n'
              '                    && (last_status 0 (snd (construct d (env_good 0x330000225))) =? 15)) all_drivers = true.\n'
              'Proof. exact constructors_succeed. Qed.',
              'Example C08_notify_after_driver_ok_nonvacuous :\n'
              '  exists pre post, snd (construct DInput (env_good 0)) = pre ++ TNotify 0 :: post /\\ last_status 0 pre = 15.\n'
              'Proof. exact notify_after_driver_ok_example. Qed.',
              'Example C08_failing_constructor_nonvacuous :\n'
              '  fst (construct DConsole (mkEnv Debug TKModel false 0 [] [] [mkQa false 256 0x40000000 0x40008000 0 0; mkQa true 256 0 0 0 0] 0 0 true))\n'
              '  = Err EAlreadyUsed.\n'
              'Proof. exact failing_constructor_example. Qed.',
              'Example C08_pci_constructors_succeed_nonvacuous :\n'
              '  forallb (fun d => is_ok (fst (construct_pci d pe_plain (env_good 0x330000225)))\n'
              '                    && list_eqb_N (pci_statuses (paccs_of (snd (construct_pci d pe_plain (env_good 0x330000225))))) [0; 3; 11; 15]\n'
              '                    && negb (fst (lower_pci Debug pe_plain (e_cfg (pci_env pe_plain (env_good 0x330000225)))\n'
              '                                            (snd (construct d (pci_env pe_plain (env_good 0x330000225)))))))\n'
              '          all_drivers = true /\\ pe_ok pe_plain = true.\n'
              'Proof. split; [exact pci_constructors_succeed|exact pe_plain_ok]. Qed.',
              'Example C08_pci_notify_panic_nonvacuous :\n'
              '  fst (construct_pci DInput (mkPe 2 4 [7; 0] true 35184372097024) (env_good 0)) = Panic\n'
              '  /\\ existsb (fun a => p_win a =? WIN_NOTIFY) (paccs_of (snd (construct_pci DInput (mkPe 2 4 [7; 0] true 35184372097024) (env_good 0)))) = false.\n'
              'Proof. exact pci_notify_panic_example. Qed.',
              'Example C08_pci_monitor_rejects_nonvacuous :\n'
              '  pci_handshake_b (supported DRng) 0x100000000 4 false\n'
              '       (hs_head ++ [mkP 0 true 8 4 0; mkP 0 true 12 4 0; mkP 0 true 8 4 0; mkP 0 true 12 4 1] ++ [mkP 0 true 20 1 11]) = false\n'
              '  /\\ pci_handshake_b (supported DRng) 0x100000000 4 false\n'
              '       (hs_head ++ hs_feat ++ [mkP 0 true 20 1 11; mkP 0 true 22 2 0; mkP 0 true 24 2 8; mkP 0 true 28 2 1;\n'
              '                               mkP 0 true 32 8 4096; mkP 0 true 40 8 8192; mkP 0 true 48 8 12288]) = false\n'
              '  /\\ pci_handshake_b (supported DRng) 0x100000000 4 false\n'
              '       (hs_head ++ hs_feat ++ [mkP 0 true 20 1 11; mkP 0 true 22 2 0; mkP 0 false 30 2 0; mkP 1 true 0 2 0]) = false.\n'
              'Proof. pose proof pci_monitor_rejects as H. repeat split; apply H. Qed.',
              'Example C08_mmio_nonvacuous :\n'
              '  fst (construct_mmio DRng (mkEnv Release TKMmioLegacy false 0x30000000 [] [] (good_qans 1) 0 0 true)) = Ok 0\n'
              '  /\\ status_writes (accesses_of (snd (construct_mmio DRng (mkEnv Release TKMmioLegacy false 0x30000000 [] [] (good_qans 1) 0 0 true))))\n'
              '     = [0; 3; 11; 15].\n'
              'Proof. exact mmio_example. Qed.']}
