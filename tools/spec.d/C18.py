"""C18: check configuration (PROPS_ENTRY, consumed by ./check and gen_manifest.py) and the list of lemmas that make up
the property file (SPEC_ENTRY, consumed by tools/mkprops.py)."""
PROPS_ENTRY = {
 'models': ['Model/ConnMgr.v', 'Model/ConnMgrSpec.v', 'Model/Queue.v', 'Model/Owning.v'],
 'design_ref': 'DESIGN.md 3 C18',
 'assumptions': [
     'a packet handed to the tx virtqueue is an output event (header, payload) of the model; the tx queue itself is C03/C05 territory. cm_step (C18_refines ...) takes '
     'add_notify_wait_pop to return Ok; cm_step_tx (C18_txfail_*) takes its outcome as an INPUT - Ok, `add` failed (nothing published), `pop_used` failed (published and seen by '
     'the device), with any error code, separately for a header-only packet and one with a payload (one and two descriptors) - and follows the `?` of every call site. No '
     'operation sends more than one packet. Which outcomes a queue can actually produce (WrongToken when the device completes another id; then, because the chain stays '
     'allocated and the used element unconsumed, WrongToken for every later transmission unless the stale id happens to name the next chain, and QueueFull once the 8 '
     'descriptors are used up - through the manager QueueFull is reachable ONLY this way, since every transmission waits for its completion) is reproduced by the reference '
     'device of the harness, whose books predict the fate of every transmission before the call. With a device that never completes tx chains the calls do not return (the '
     'harness reports that as a hang)',
     'under failure the specification (sp_step_tx) withholds the effect of the operation and passes the error on; for a packet whose reply cannot be sent it keeps what the '
     'packet says about the peer (flow-control fields; a shutdown). The code as it stands deviates at four points (C18_*_refuted, observations C18-txfail-A..D: recorded, not claimed as violations of C18, because a transmission fails only when the TX device breaks the protocol, which is outside the quantifier of C18): C18_txfail_refines '
     'and C18_txfail_atomic except exactly those (tx_open_point), C18_txfail_code_refines states what the code does there, C18_txfail_isolation / _keys_unique hold everywhere',
     'rx side: C18_buffer_returned / C18_poll_returns_buffer assume a device that names a valid token (used id < 8) on a queue that is fully stocked (Reach + Stocked of C19); an '
     'oversized used length is covered (IoError, buffer re-posted) since the repair f6bad98',
     'credit arithmetic is property C17: the five counters are plain fields updated as the code updates them (plain + and - : overflow PANIC in the debug profile, wrapping in '
     'release; both modelled, shared by model and spec as the opaque `credit` functions); the byte ring buffer is abstract (a byte list under a capacity): RingBuffer\'s '
     'wrap-around copy and a per-connection capacity of 0 (where `% 0` panics inside the packet handler, which would lose the rx buffer) are outside this model',
     'per_connection_buffer_capacity never changes, so every ring buffer has capacity m_cap; usize is 64 bits (44 + len cannot overflow)',
     'wait_for_event (a loop around poll) and guest_cid() are not modelled; VirtIOSocket::new / Drop are C08/C09; the event virtqueue is never used by the driver',
     'a handler that panics would lose the buffer (documented in owning.rs): C18_poll_no_panic shows the manager\'s handler never does in this model'],
 'trusted_extra': [
     'the reference vsock device in harness/src/scen/c18.rs: rx completions with crafted headers (its own little-endian encoder), tx chains read through device addresses, the '
     'spin-hook / notify servicing of the tx queue; the probe of the public API (is_connection_established, recv_buffer_available_bytes) over the 18 keys of the universe is what '
     '"the table sorted by key" means on the implementation side: peer_requested_shutdown and the counters are observed only through later packets, errors and results',
     'the 44-byte header layout is transcribed once (encode_hdr / decode_hdr, C18_header_roundtrip) and tied to zerocopy\'s layout only by the byte-exact comparison of every '
     'packet in both directions',
     'no hook and no change of the crate was needed: the harness is built against /repo as it is',
     'the books the reference tx device keeps of the driver side of the tx queue (descriptors never recycled, used elements consumed, free list in ascending order): they '
     'PREDICT the fate of each transmission before the call (the model input); the harness checks after each operation that the chain was published under the predicted head and '
     'fared as predicted, and reports a violation otherwise. OPEN_FINDINGS in c18.rs keeps the random histories and the directed failure scripts from failing a transmission at '
     'the four open points (each has its own scenario c18-finding-*, run only with VERIF_C18_OBSERVATIONS=1; proposed repairs in corpus/proposals/); with the four repairs applied and the switch off, all monitors pass with failures at every point']}

SPEC_ENTRY = {
 'title': 'Socket connection state follows the protocol and connections are isolated',
 'imports': ['Model.Queue', 'Model.Owning', 'Model.ConnMgr', 'Model.ConnMgrSpec', 'Proofs.QueueInv', 'Proofs.QueueReach', 'Proofs.QueueProps', 'Proofs.OwningProofs',
             'Proofs.ConnMgrProofs'],
 'theorems': [
  ('C18_keys_unique', 'Proofs/ConnMgrProofs.v', 'keys_unique',
   'after ANY history of operations and packets (both profiles) no two entries of the connections vector have the same (peer cid, peer port, local port)'),
  ('C18_refines', 'Proofs/ConnMgrProofs.v', 'step_refines',
   'MAIN (simulation): from any state with unique keys that stands for an abstract map s (same constants, pointwise the same entries - found FIRST in the vector -, same '
   'listening set), every operation and every packet (listen, unlisten, connect, send, recv, recv_buffer_available_bytes, is_connection_established, update_credit, shutdown, '
   'force_close, is_local_port_used, poll with nothing / any bytes / any used length) returns the same result and puts the same packets on the tx queue as the abstract '
   'specification Model/ConnMgrSpec.v (a map keyed by (peer cid, peer port, local port), no vector, no index, no swap_remove), and the successor states are related again'),
  ('C18_refines_history', 'Proofs/ConnMgrProofs.v', 'history_refines',
   '... hence for every history from new(): the sequence of (result, packets sent) is the one of the abstract map, and the final states are related'),
  ('C18_request_listening', 'Proofs/ConnMgrProofs.v', 'request_listening',
   'a request for this guest to a listening port, no such connection yet: entry created (established, empty buffer, buf_alloc = capacity, the peer\'s credit recorded), one '
   'RESPONSE sent, the request reported'),
  ('C18_request_not_listening', 'Proofs/ConnMgrProofs.v', 'request_not_listening',
   '... to a port nobody listens on: one RST sent, nothing reported, every entry and the listening set exactly as before'),
  ('C18_request_known_connection', 'Proofs/ConnMgrProofs.v', 'request_known_connection',
   'a request naming an existing connection: accepted again if its local port is listened on (buffer kept), otherwise reset, removed and not reported'),
  ('C18_unmatched_ignored', 'Proofs/ConnMgrProofs.v', 'unmatched_ignored',
   'any well-formed packet addressed to another guest, or matching no entry and not a request: Ok(None), nothing sent, every entry and the listening set unchanged (no state, no data)'),
  ('C18_malformed_rejected', 'Proofs/ConnMgrProofs.v', 'malformed_rejected',
   'oversized used length, short header, length field beyond the used length, OP_INVALID, unknown operation codes, data on an operation that carries none: an error, '
   'nothing sent, every entry unchanged'),
  ('C18_connect_exists', 'Proofs/ConnMgrProofs.v', 'connect_exists', 'connect on an existing key: ConnectionExists, state identical, nothing sent'),
  ('C18_connect_fresh', 'Proofs/ConnMgrProofs.v', 'connect_fresh', None),
  ('C18_missing_not_connected', 'Proofs/ConnMgrProofs.v', 'missing_not_connected',
   'send / recv / recv_buffer_available_bytes / is_connection_established / update_credit / shutdown / force_close on a key that is not in the table: NotConnected, state identical, nothing sent'),
  ('C18_peer_shutdown', 'Proofs/ConnMgrProofs.v', 'peer_shutdown',
   'OP_SHUTDOWN / OP_RST from the peer on a known connection: reported; with an empty buffer the entry is removed at once (a shutdown is answered by a RST); with data '
   'buffered the entry stays with its data untouched and is marked'),
  ('C18_recv', 'Proofs/ConnMgrProofs.v', 'recv_spec',
   'recv returns the oldest min(n, available) bytes; after a peer shutdown the data is still readable, and exactly when the buffer has been drained the connection is closed '
   'with a RST and removed (hypothesis on fwd_cnt: no debug-profile overflow, C17; always true in release: done_forwarding_release)'),
  ('C18_data', 'Proofs/ConnMgrProofs.v', 'data_delivered', 'OP_RW on a known connection: appended to THAT connection\'s buffer, or refused as a whole (OutputBufferTooShort) leaving the buffer as it was'),
  ('C18_credit_packets', 'Proofs/ConnMgrProofs.v', 'credit_packets', None),
  ('C18_force_close', 'Proofs/ConnMgrProofs.v', 'force_close_spec', None),
  ('C18_shutdown', 'Proofs/ConnMgrProofs.v', 'shutdown_spec', None),
  ('C18_isolation', 'Proofs/ConnMgrProofs.v', 'isolation',
   'FRAME: whatever an operation or packet for key k does (including errors and panics), every entry k\' <> k - established flag, peer-shutdown flag, buffer contents, all five '
   'counters - is exactly as before; an operation that names no key changes no entry'),
  ('C18_isolation_listen', 'Proofs/ConnMgrProofs.v', 'isolation_listen',
   'listen / unlisten change no entry and exactly the one port; an empty poll and is_local_port_used change nothing; no other operation changes the listening set'),
  ('C18_constants', 'Proofs/ConnMgrProofs.v', 'step_constants', None),
  ('C18_buffer_returned', 'Proofs/ConnMgrProofs.v', 'rx_buffer_returned',
   'VirtIOSocket::poll over the OwningQueue model for EVERY handler (any function of the state and the delivered length: Ok, Err, ignore) and every device behaviour on a '
   'stocked queue: the queue side is exactly OwningQueue::poll; nothing pending -> nothing happens; a completion under a valid token -> afterwards the queue is fully '
   'stocked again (the popped buffer is back under its token) and the caller gets the handler\'s verdict, or IoError for an oversized used length'),
  ('C18_poll_returns_buffer', 'Proofs/ConnMgrProofs.v', 'poll_returns_buffer',
   '... instantiated with the connection manager\'s packet handler: the manager\'s result is cm_poll\'s and the rx queue is fully stocked after every poll, whatever the packet'),
  ('C18_poll_no_panic', 'Proofs/ConnMgrProofs.v', 'poll_no_panic', 'poll never panics (so the "handler panics -> buffer lost" path of OwningQueue::poll is not taken)'),
  ('C18_header_roundtrip', 'Proofs/ConnMgrProofs.v', 'decode_encode_hdr', 'the 44-byte little-endian header: decoding an encoded header gives it back'),
  # ---- transmissions that fail ----
  ('C18_txfail_ok_same', 'Proofs/ConnMgrProofs.v', 'cm_step_tx_ok',
   'the model with the outcome of the transmission as an input IS the old model when the transmission succeeds (the success paths are unchanged)'),
  ('C18_txfail_spec_ok_same', 'Proofs/ConnMgrProofs.v', 'sp_step_tx_ok', None),
  ('C18_txfail_refines', 'Proofs/ConnMgrProofs.v', 'step_tx_refines',
   'MAIN under failure: for every state with unique keys standing for an abstract map, every operation, every packet, every outcome of the transmission (add failed / pop_used '
   'failed, any error code, per packet shape), both profiles: result, packets seen by the device and successor state are those of the abstract map under failure (sp_step_tx: '
   'effect withheld, error passed on) - unless the transmission fails at one of the four open points (tx_open_point: a data packet of send, the closing RST of recv, the '
   'reply to a request for a NEW connection, the RST answering the shutdown of a drained connection)'),
  ('C18_txfail_refines_history', 'Proofs/ConnMgrProofs.v', 'run_tx_refines', '... hence for every history in which no transmission fails at an open point'),
  ('C18_txfail_code_refines', 'Proofs/ConnMgrProofs.v', 'step_tx_code_refines',
   'what the code does at EVERY failure point, the open ones included, as an abstract rule (sp_step_txg true: tx_cnt already advanced; the drained bytes gone and the connection '
   'kept; the connection pushed for a new request kept, not established; the peer shutdown not recorded)'),
  ('C18_txfail_keys_unique', 'Proofs/ConnMgrProofs.v', 'keys_unique_tx', 'keys stay unique along every history, whatever fails wherever'),
  ('C18_txfail_isolation', 'Proofs/ConnMgrProofs.v', 'isolation_tx',
   'ISOLATION under failure, at every failure point (open ones included): a failure on the connection an operation or packet names changes nothing of any other connection'),
  ('C18_txfail_connect', 'Proofs/ConnMgrProofs.v', 'connect_fail_no_connection',
   'a connect whose REQUEST cannot be sent (any error, add or pop_used) leaves NO connection behind: the manager is exactly as before - nothing matches later packets, recv / '
   'is_connection_established say NotConnected, the port is free, and the connect can be tried again (C18_connect_fresh applies to m\' = m). This is what seeded change C18-m11 breaks'),
  ('C18_txfail_local', 'Proofs/ConnMgrProofs.v', 'local_fail_atomic',
   'connect, update_credit, shutdown, force_close: when the transmission fails the manager is exactly as before (force_close does not remove the connection) and the result is the tx queue\'s error'),
  ('C18_txfail_send_credit_request', 'Proofs/ConnMgrProofs.v', 'send_credit_request_fail',
   'a send that finds no credit and cannot send its credit request: no request is marked pending, nothing changes'),
  ('C18_txfail_atomic', 'Proofs/ConnMgrProofs.v', 'txfail_atomic',
   'at every failure point but the four open ones: an error is returned, no entry appears or disappears, no flag, no buffered byte and nothing of OUR side of the flow control '
   '(tx_cnt, fwd_cnt, buf_alloc, pending credit request) changes, the listening set is the same; a local operation changes nothing at all'),
  ('C18_send_fail_keeps_credit_refuted', 'Proofs/ConnMgrProofs.v', 'send_fail_keeps_credit_refuted',
   'OBSERVATION C18-txfail-A (the transactional reading is refuted on the code as it stands; needs a failing transmission): send adds the length to tx_cnt BEFORE the transmission: with QueueFull - not a byte has left - three bytes of the peer\'s credit are spent'),
  ('C18_recv_fail_keeps_data_refuted', 'Proofs/ConnMgrProofs.v', 'recv_fail_keeps_data_refuted',
   'OBSERVATION C18-txfail-B (needs a failing transmission): recv drains the buffer before the RST that closes a connection the peer has shut down: when the RST fails the call returns the error and the bytes are gone'),
  ('C18_request_fail_no_entry_refuted', 'Proofs/ConnMgrProofs.v', 'request_fail_no_entry_refuted',
   'OBSERVATION C18-txfail-C (needs a failing transmission): a request for a new connection whose RESPONSE / RST cannot be sent leaves the connection the closure pushed in the table (the same stale entry as seeded change C18-m11, on the accepting side)'),
  ('C18_shutdown_fail_remembered_refuted', 'Proofs/ConnMgrProofs.v', 'shutdown_fail_remembered_refuted',
   'OBSERVATION C18-txfail-D (needs a failing transmission): the peer\'s SHUTDOWN of a drained connection is forgotten when the RST cannot be sent: the connection is not marked and send still transmits'),
  ('C18_txfail_refines_everywhere_refuted', 'Proofs/ConnMgrProofs.v', 'step_tx_refines_everywhere_refuted', 'hence C18_txfail_refines does not hold without its exception'),
 ],
 'examples': [
  'Example C18_step_refines_nonvacuous : KeysUnique ex_m /\\ R ex_m (abs ex_m).\nProof. exact step_refines_nonvacuous. Qed.',
  'Example C18_shutdown_history_runs : True.\nProof. pose proof shutdown_history. exact I. Qed.',
  'Example C18_nonvacuous : True.\nProof.\n  pose proof request_listening_nonvacuous. pose proof request_not_listening_nonvacuous. pose proof request_known_connection_nonvacuous.\n'
  '  pose proof unmatched_ignored_nonvacuous. pose proof malformed_rejected_nonvacuous. pose proof connect_exists_nonvacuous. pose proof connect_fresh_nonvacuous.\n'
  '  pose proof missing_not_connected_nonvacuous. pose proof peer_shutdown_nonvacuous. pose proof recv_spec_nonvacuous. pose proof data_delivered_nonvacuous.\n'
  '  pose proof credit_packets_nonvacuous. pose proof isolation_nonvacuous. pose proof rx_buffer_returned_nonvacuous. exact I.\nQed.',
  'Example C18_txfail_nonvacuous : True.\nProof.\n  pose proof step_tx_refines_nonvacuous. pose proof connect_fail_nonvacuous. pose proof send_credit_request_fail_nonvacuous.\n'
  '  pose proof tx_history_runs. exact I.\nQed.'],
}

# ---- the monitors evaluated on the IMPLEMENTATION's observations, tied to the statements they stand for (Proofs/ConnMgrMonProofs.v):
# ---- "meaning" = what a true verdict implies, for any input list; "holds_of_model" = no false alarm on code that behaves like the model
SPEC_ENTRY['imports'] += [m for m in ['Extract.ConnMgrIO', 'Proofs.ConnMgrMonProofs'] if m not in SPEC_ENTRY['imports']]
SPEC_ENTRY['theorems'] += [
  ('C18_monitor_185x_meaning', 'Proofs/ConnMgrMonProofs.v', 'mon185x_meaning', 'kinds 1851..1862: [1] means the observed outs ARE enc_result of the specification sp_step on the decoded operation (count exact), spec state advanced by that step'),
  ('C18_monitor_185x_holds_of_model', 'Proofs/ConnMgrMonProofs.v', 'mon185x_holds_of_model', 'model line k then monitor line k+50 on the model outs gives [1]; KeysUnique and R re-established (from C18_refines)'),
  ('C18_monitor_187x_meaning', 'Proofs/ConnMgrMonProofs.v', 'mon187x_meaning', 'kinds 1871..1882: the same against sp_step_tx with the predicted fate of the transmission'),
  ('C18_monitor_187x_holds_of_model', 'Proofs/ConnMgrMonProofs.v', 'mon187x_holds_of_model', '... except at the four open points (hypothesis of C18_txfail_refines)'),
  ('C18_monitor_1890_meaning', 'Proofs/ConnMgrMonProofs.v', 'mon1890_meaning', 'probe: observed triples are present/established/available of the specification table, key by key; state unchanged'),
  ('C18_monitor_1890_holds_of_model', 'Proofs/ConnMgrMonProofs.v', 'mon1890_holds_of_model', 'line 1840 then line 1890 gives [1] under R'),
  ('C18_monitor_encoding_injective', 'Proofs/ConnMgrMonProofs.v', 'enc_result_inj', 'equal encodings: equal result and packet bytes'),
  ('C18_monitor_encoding_injective_pkts', 'Proofs/ConnMgrMonProofs.v', 'enc_result_inj_pkts', '... equal packets for in-range headers'),
  ('C18_monitor_decoder_table', 'Proofs/ConnMgrMonProofs.v', 'dec_op_table', 'what each operation line decodes to'),
  ('C18_monitor_1891_meaning', 'Proofs/ConnMgrMonProofs.v', 'mon_frame_meaning', 'frame (iff): every row not carrying the named key has equal before and after probes'),
  ('C18_monitor_1891_holds_of_model', 'Proofs/ConnMgrMonProofs.v', 'mon_frame_holds_of_model', 'from C18_isolation, any list of keys'),
  ('C18_monitor_1892_meaning', 'Proofs/ConnMgrMonProofs.v', 'mon_known_meaning', 'iff: duplicate connect gives ConnectionExists, unknown connection gives NotConnected, nothing sent or created'),
  ('C18_monitor_1892_holds_of_model_partial', 'Proofs/ConnMgrMonProofs.v', 'mon_known_holds_of_model_partial', 'connect and operations on an unknown key; MISSING: send .. force_close on a known key never return NotConnected'),
  ('C18_monitor_1893_meaning', 'Proofs/ConnMgrMonProofs.v', 'mon_stock_meaning', 'held + pending = size'),
  ('C18_monitor_1894_meaning', 'Proofs/ConnMgrMonProofs.v', 'mon_packet_meaning', 'true verdict implies packet_rule (all packet clauses); soundness only'),
  ('C18_monitor_1895_meaning', 'Proofs/ConnMgrMonProofs.v', 'mon_recv_meaning', 'iff: min(n, avail) bytes; the connection disappears only when drained, with one RST'),
  ('C18_monitor_1895_holds_of_model', 'Proofs/ConnMgrMonProofs.v', 'mon_recv_holds_of_model', 'every recv of the model (C18_recv, C18_missing_not_connected)'),
  ('C18_monitor_1896_meaning', 'Proofs/ConnMgrMonProofs.v', 'mon_txfail_meaning', None),
  ('C18_monitor_1897_meaning', 'Proofs/ConnMgrMonProofs.v', 'mon_send_credit_meaning', None),
  ('C18_monitor_1898_meaning', 'Proofs/ConnMgrMonProofs.v', 'mon_shut_remembered_meaning', None),
]
