"""C09: check configuration (PROPS_ENTRY, consumed by ./check and gen_manifest.py) and the list of lemmas that make up
the property file (SPEC_ENTRY, consumed by tools/mkprops.py)."""
PROPS_ENTRY = {'models': ['Model/Layout.v', 'Model/Teardown.v', 'Model/Gpu.v', 'Model/GpuSpec.v', 'Model/Sound.v', 'Model/SoundSpec.v', 'Model/Mmio.v', 'Model/MmioSpec.v'],
 'design_ref': 'DESIGN.md 3 C09',
 'exhaustive': False,
 'assumptions': ['the directed register-level cases of the MMIO transport (scenario c10-directed-*, monitors 1011 / 1021) also run under this check: queue_unset really disables the queue on both layouts',
                 'the check also runs the blocking sound playback histories of C20 (scenario c20snd-xfer-*: when pcm_xfer returns nothing it posted is still shared) and the GPU lives of C20 (scenario c20gpu-*, monitor 2023: backing memory attached to a resource is not released) and their correspondence lines',
                 'Drop order is TRANSCRIBED, not derived from rustc: the interpreter of Model/Teardown.v implements the language rules once (early return: live locals in '
                 'reverse declaration order, then the by-value parameter; struct: Drop::drop, then fields in declaration order; moved values are not dropped; assignment '
                 'drops the old field value) and each driver contributes its list of constructor steps, its field order and the queue_unset calls of its Drop impl as '
                 'data. The tie to the code is the exhaustive fault-injection correspondence (every observed event predicted, in order).',
                 'quiesced (C09_quiesced) for the usage histories of the GPU driver assumes the platform contract that dma_alloc never hands out a region overlapping '
                 'a registered queue area (hypothesis fresh_op); no such assumption is needed for construction, teardown or any other driver, nor for balanced.',
                 'dropping the transport resets the device (true of MmioTransport, PciTransport, SomeTransport - C10/C11 - and of the harness transport): needed for '
                 'VirtIOSound and VirtIO9p, which have no Drop impl (C09_sound_9p_need_transport_reset shows it is needed); the other nine drivers are also proved '
                 'and monitored without it (C09_quiesced_without_reset, monitor 951 with resets = 0).',
                 'PCI reading (C09_quiesced_pci, monitor 951 mode 2): PciTransport::queue_unset is a deliberate no-op, so for that transport the property is '
                 'stated and monitored on the event sequence with every queue_unset call removed (quiesced_pci_b): only status 0 or the reset performed by '
                 'dropping the transport ends `live`. It holds because every driver struct declares `transport` as its first field (dropped before the queues and '
                 'buffers); C09_pci_needs_transport_first shows a VirtIOBlk with `transport` declared last passes the other readings and fails this one.',
                 'VirtQueue::new is entered with queue_used = false and max_queue_size >= SIZE (the two refusals before any allocation are C06); OwningQueue::new, '
                 'the pre-posting loops and poll_retrieve cannot fail on a fresh queue (C19_new_stocked) and are modelled as infallible; share/unshare cannot fail.',
                 'usage histories are modelled as: any sequence of chains made available / taken back on any queue (which buffers are outstanding is an input, observed '
                 'on the implementation), and for the GPU the three operations that own DMA memory (setup_framebuffer, change_resolution, setup_cursor) with every '
                 'device verdict, refused allocation and u32 overflow of width*height*4 (debug panic / release wrap). What the other public operations compute is the '
                 'subject of C14-C20.',
                 'heap buffers: a release is observable only for memory that is currently shared with the device; the model drops ABufs atoms for all tokens a field can '
                 'hold and the encoder keeps those outstanding at that point.',
                 'the UTF-8 validity of the 9p mount tag and the length check of VirtIONet::new are inputs (booleans computed by the harness from the config bytes / '
                 'the buffer length)'],
 'trusted_extra': ['#[global_allocator] wrapper + WatchHal in harness/src/scen/c09.rs: every heap free that overlaps a range currently shared with the device is recorded with '
                   'its position in the event log; the hook observer reads the available rings through device addresses to learn on which chain (queue, head) each shared '
                   'buffer is outstanding',
                   'LedgerHal: Dealloc.ok = a live region with this paddr exists AND pointer and page count are the ones handed out (a mismatch is encoded as pointer '
                   '0xBAD and fails monitor 950)',
                   'ModelTransport (scriptable config space, fail_config_read_at, generation schedule); MMIO/PCI register-level transports are not used by C09 (their '
                   'reset-on-drop is C10/C11)']}

SPEC_ENTRY = {'title': 'Teardown and failed construction free each resource once, after quiescing',
 'imports': ['Model.Layout', 'Model.Teardown', 'Proofs.TeardownProofs'],
 'theorems': [('C09_balanced',
               'Proofs/TeardownProofs.v',
               'balanced_drivers',
               'FIRST SENTENCE. For every driver d (0..10; any other d is the empty program), net queue size, layout, EVERY list of dma_alloc answers (so: the k-th '
               'refused, for every k), every config-space behaviour (failing reads, generation changes), every usage history and both profiles: the ledger monitor '
               'accepts the whole life cycle construction / usage / drop (or construction up to its early return) and ends empty'),
              ('C09_balanced_meaning',
               'Proofs/TeardownProofs.v',
               'balanced_b_sound',
               'what a true verdict of the ledger monitor means on ANY event sequence (in particular the observed one): each (address, pointer, pages) triple is '
               'returned exactly as often as it was obtained - nothing leaked, nothing returned twice, nothing else returned - and never before it was obtained'),
              ('C09_Balanced', 'Proofs/TeardownProofs.v', 'drivers_Balanced', 'the two combined: the declarative statement for all drivers, faults and histories'),
              ('C09_balanced_any_program',
               'Proofs/TeardownProofs.v',
               'balanced_any_program',
               'in fact for ANY list of constructor steps: ownership is conserved by the interpreter (this is what RAII gives; the order of drops does not matter here)'),
              ('C09_dma_fault_is_error',
               'Proofs/TeardownProofs.v',
               'dma_fault_drivers',
               'a refused dma_alloc anywhere in a constructor makes it return Err(DmaError); the constructors have no panic outcome in the model (type cres), which the '
               'correspondence and monitor 952 check on the implementation'),
              ('C09_quiesced',
               'Proofs/TeardownProofs.v',
               'quiesced_drivers',
               'SECOND SENTENCE (repaired tree). For every driver, layout, fault and usage history (GPU: with the platform contract fresh_op): no region that covers an '
               'area registered for a queue is deallocated, and no heap buffer of an outstanding chain is released, while DRIVER_OK is set and that queue is '
               'registered (dropping the transport counts as a reset)'),
              ('C09_quiesced_meaning',
               'Proofs/TeardownProofs.v',
               'quiesced_b_sound',
               'what a true verdict of the quiescence monitor means on ANY event sequence, with `live`, `registered`, `outstanding` defined declaratively by the '
               'positions of DRIVER_OK / queue_set / queue_unset / reset / post / take-back events'),
              ('C09_Quiesced', 'Proofs/TeardownProofs.v', 'drivers_Quiesced', 'the two combined'),
              ('C09_quiesced_without_reset',
               'Proofs/TeardownProofs.v',
               'quiesced_drivers_without_reset',
               'the nine drivers with a Drop impl disable every queue themselves: the statement holds even if dropping the transport does NOT reset the device'),
              ('C09_sound_9p_need_transport_reset',
               'Proofs/TeardownProofs.v',
               'sound_9p_need_transport_reset',
               'VirtIOSound and VirtIO9p have no Drop impl: without the reset at transport drop a plain construct-and-drop already releases live queue memory'),
              ('C09_quiesced_pci',
               'Proofs/TeardownProofs.v',
               'quiesced_drivers_pci',
               'SECOND SENTENCE on a transport whose queue_unset does nothing (PciTransport): for every driver, layout, fault and usage history the monitor accepts '
               'the event sequence with all queue_unset calls removed, i.e. nothing registered or outstanding is released between DRIVER_OK and the next reset '
               '(status 0 or the transport drop). This is where the position of the `transport` field (first) matters'),
              ('C09_Quiesced_pci',
               'Proofs/TeardownProofs.v',
               'drivers_Quiesced_pci',
               'the same declaratively (Quiesced on the sequence without queue_unset calls: Registered ends only at a reset or a re-registration)'),
              ('C09_pci_needs_transport_first',
               'Proofs/TeardownProofs.v',
               'pci_needs_transport_first',
               'the PCI monitor is not vacuous and strictly stronger: the life cycle of a VirtIOBlk whose `transport` field is declared last (queue_unset(0), dealloc, '
               'dealloc, transport drop) is balanced and passes the monitor with and without reset-at-drop, but fails the PCI reading'),
              ('C09_quiesced_any_program_pci',
               'Proofs/TeardownProofs.v',
               'quiesced_any_program_pci',
               'general form of the PCI statement for any constructor whose abstract runs pass the strict monitor without their queue_unset events'),
              ('C09_quiesced_any_program',
               'Proofs/TeardownProofs.v',
               'quiesced_any_program',
               'the general form: a constructor all of whose finitely many abstract runs (arun: every way each fallible step can end) pass the strict, address-free '
               'monitor passes the real monitor for every environment; the per-driver facts are then finite computations'),
              ('C09_quiesced_prefix_refuted',
               'Proofs/TeardownProofs.v',
               'quiesced_prefix_refuted',
               'BEFORE the repair (fix: VirtIO9p::new reads the mount tag before DRIVER_OK) the faithful model refutes the second sentence: config space with '
               'tag_len = 0 gives Err(InvalidParam) after status 0xf, both queue regions are deallocated, and only then the transport is dropped (finding F3)'),
              ('C09_quiesced_prefix_partial',
               'Proofs/TeardownProofs.v',
               'quiesced_prefix_partial',
               'what held before the repair: the second sentence whenever construction succeeds (all drivers) ...'),
              ('C09_quiesced_prefix_other_drivers', 'Proofs/TeardownProofs.v', 'quiesced_prefix_other_drivers', '... and in full for the ten other drivers;'),
              ('C09_balanced_prefix', 'Proofs/TeardownProofs.v', 'balanced_drivers_prefix', '... and the first sentence in full')],
 'examples': ['Example C09_dma_fault_nonvacuous :\n'
              '  exists ev, run false (prog D_SOCKET 0) (cst0 [(4096, 1); (8192, 2); (12288, 3); (16384, 4); (20480, 5); (0, 0)] [(0, 3); (0, 0)] [] true true)\n'
              '             = (RErr EDmaError, ev) /\\ existsb refused ev = true.\n'
              'Proof. exact dma_fault_nonvacuous. Qed.',
              'Example C09_quiesced_nonvacuous :\n'
              '  Forall (fresh_op (registered (snd (run false (prog D_GPU 0) gpu_example_cst)))) gpu_example_ops\n'
              '  /\\ exists post, snd (lifecycle false (prog D_GPU 0) gpu_example_cst Release gpu_example_ops)\n'
              '                  = gpu_example_pre ++ TDealloc 0x100000 11 3 :: post\n'
              '                  /\\ Live true gpu_example_pre 0 0x10000 0x10020 0x20000\n'
              '                  /\\ Live true gpu_example_pre 1 0x30000 0x30020 0x40000.\n'
              'Proof. split; [exact (proj1 quiesced_nonvacuous)|exact Live_nonvacuous]. Qed.',
              'Example C09_f3_witness_trace :\n'
              '  snd (lifecycle false (prog_prefix D_9P 0) f3_witness Debug []) =\n'
              '  [TStatus 0; TStatus 3; TStatus 11; TAlloc 1 0 4096 1; TAlloc 1 1 8192 2; TQueueSet 0 16 4096 4352 8192;\n'
              '   TStatus 15; TGen; TCfg 0 2; TGen; TDealloc 4096 1 1; TDealloc 8192 2 1; TDrop].\n'
              'Proof. exact f3_witness_trace. Qed.']}
