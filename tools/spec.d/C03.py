"""C03: check configuration (PROPS_ENTRY, consumed by ./check and gen_manifest.py) and the list of lemmas that make up
the property file (SPEC_ENTRY, consumed by tools/mkprops.py)."""
PROPS_ENTRY = {'models': ['Model/Queue.v', 'Model/QueueNoAlloc.v'],
 'design_ref': 'DESIGN.md 3 C03',
 'assumptions': ['caller contract of pop_used: the buffers passed are those submitted for the token (keys match)',
                 'heap faults: only the allocation of the indirect table in add is refused (kinds 111 / 149); other heap allocations of the crate are not fault-injected',
                 'alloc-less build configuration (--no-default-features): second harness variant, directed histories around the capacity test (chains of 1..SIZE and SIZE+1.. buffers, exactly-full queues in several partitions, recycling in every order, index wrap through the pre-set hook of corpus/proposals/noalloc_hook.diff when the checkout has it, else only in the thorough soak), replayed through Model/QueueNoAlloc.v; monitor 151; theorems C03_noalloc_*']}

SPEC_ENTRY = {'title': 'Completions are consumed exactly once in any order; descriptor counts stay exact',
 'imports': ['Model.Queue', 'Proofs.QueueInv', 'Proofs.QueueReach', 'Proofs.QueueProps', 'Model.QueueNoAlloc', 'Proofs.QueueNoAllocProofs'],
 'theorems': [('C03_pop_refines',
               'Proofs/QueueProps.v',
               'pop_refines',
               'for every reachable state, every outstanding chain c and EVERY used-ring content: nothing ready -> NotReady, nothing changes; another id first '
               '-> WrongToken, nothing changes; this chain next -> Ok(len), the chain is removed, its cells become the head of the free list, everything else '
               'untouched'),
              ('C03_counts', 'Proofs/QueueProps.v', 'counts_exact', None),
              ('C03_refusal',
               'Proofs/QueueProps.v',
               'add_refusals',
               'InvalidParam iff no buffers, QueueFull iff the capacity predicate fails, both without side effects; otherwise accepted'),
              ('C03_add_cases', 'Proofs/QueueReach.v', 'add_cases', None),
              ('C03_invariant',
               'Proofs/QueueReach.v',
               'Reach_Inv',
               'holds for arbitrary index values: no lemma bounds avail_idx / last_used_idx, all index arithmetic is mod 2^16'),
              ('C03_alloc_failure',
               'Proofs/QueueProps.v',
               'add_alloc_failure',
               'a fault at a particular point: when the heap refuses the indirect table of a submission, the call is a panic out of a queue that is '
               'exactly as it was (no share, no store, no private change), for ANY state; the table is wanted exactly on the indirect path (indirect queue, '
               'more than one buffer, capacity test passed); otherwise add_af is add. Monitor 149 evaluates this on the implementation (heap fault '
               'injection in the harness allocator) and additionally requires, should the driver cope with the refusal, that no outstanding chain is touched'),
              # ---- the alloc-less build configuration of the crate (--no-default-features) ----
              ('C03_noalloc_refusal', 'Proofs/QueueNoAllocProofs.v', 'na_add_refusals', 'alloc-less build: InvalidParam iff nothing is offered; QueueFull iff num_used + needed > SIZE (the clause as written in that build); both without any effect; otherwise accepted, every buffer shared exactly once'),
              ('C03_noalloc_refusal_monitor', 'Proofs/QueueNoAllocProofs.v', 'na_refusal_spec_holds', 'the boolean form evaluated by monitor 151 on the implementation (held descriptors = one per outstanding buffer) is true of every reachable model state'),
              ('C03_noalloc_counts', 'Proofs/QueueNoAllocProofs.v', 'na_counts_exact', 'alloc-less build: num_used and available_desc are exact; a chain holds one descriptor per buffer whatever was requested at new'),
              ('C03_noalloc_pop_refines', 'Proofs/QueueNoAllocProofs.v', 'na_pop_refines', 'C03_pop_refines for the alloc-less pop_used, every used-ring content'),
              ('C03_noalloc_available_desc_eq', 'Proofs/QueueNoAllocProofs.v', 'na_available_desc_eq', None),
              ('C03_noalloc_invariant', 'Proofs/QueueNoAllocProofs.v', 'na_invariant', 'the queue invariant holds in every state the alloc-less build reaches')],
 'examples': ['Example C03_wrap_nonvacuous : exists s1 evs, add (qset_indices (qnew 4 false true) 65535) [mkBuf 1 8 100] [] 0 = (Ok 0, s1, evs)\n'
              '  /\\ q_avail_idx s1 = 0 /\\ nthN (q_aring s1) 3 7 = 0.\n'
              'Proof. eexists; eexists; vm_compute; repeat split; reflexivity. Qed.',
              'Example C03_noalloc_full_nonvacuous : exists s1 e1 s2 e2, na_add (qset_indices (na_new 2 true true) 65535) [mkBuf 1 8 100] [] = (Ok 0, s1, e1)\n'
              '  /\\ na_add s1 [] [mkBuf 2 8 200] = (Ok 1, s2, e2) /\\ na_available_desc s2 = 0 /\\ q_avail_idx s2 = 1\n'
              '  /\\ na_add s2 [mkBuf 3 8 300] [] = (Err EQueueFull, s2, []).\n'
              'Proof. do 4 eexists; vm_compute; repeat split; reflexivity. Qed.']}

# ---- the monitors evaluated on the IMPLEMENTATION's observations, tied to the statements they stand for (Proofs/QueueMonProofs.v):
# ---- "meaning" = what a true verdict implies, for any input list; "holds_of_model" = no false alarm on code that behaves like the model
SPEC_ENTRY['imports'] += [m for m in ['Extract.QueueMon', 'Proofs.QueueMonProofs'] if m not in SPEC_ENTRY['imports']]
SPEC_ENTRY['theorems'] += [
  ('C03_monitor_161_meaning', 'Proofs/QueueMonProofs.v', 'mon161_sound', 'monitor 161: a published completion for the presented token is consumed'),
  ('C03_monitor_162_meaning', 'Proofs/QueueMonProofs.v', 'mon162_sound', 'monitor 162: can_pop iff pending, peek_used is Some iff pending and names the id mod 2^16'),
  ('C03_monitor_163_meaning', 'Proofs/QueueMonProofs.v', 'mon163_sound', 'monitor 163: a chain longer than the queue is refused with QueueFull, shares nothing, changes nothing'),
  ('C03_monitor_163_holds_of_model', 'Proofs/QueueMonProofs.v', 'mon163_complete', 'monitor 163 is true of every add of the model in a reachable state (from C03_refusal)'),
  ('C03_monitor_168_meaning', 'Proofs/QueueMonProofs.v', 'mon168_sound', 'monitor 168: available_desc is size - held on a direct queue; SIZE while a descriptor is free and 0 otherwise on an indirect one'),
  ('C03_monitor_168_holds_of_model', 'Proofs/QueueMonProofs.v', 'mon168_complete', 'monitor 168 is true in every reachable model state (from C03_counts)'),
  ('C03_monitor_159_meaning', 'Proofs/QueueMonProofs.v', 'mon159_sound', 'monitor 159: a refused poll changes nothing and has no effect'),
  ('C03_monitor_149_meaning', 'Proofs/QueueMonProofs.v', 'mon149_sound', 'monitor 149: a refused table allocation ends in an error or clean panic with nothing shared and nothing changed, or is coped with without touching any outstanding chain'),
  ('C03_monitor_149_holds_of_model', 'Proofs/QueueMonProofs.v', 'mon149_complete', 'monitor 149 is true of the add of the model under a refusing heap in ANY state (from C03_alloc_failure)'),
  ('C03_monitor_arity', 'Proofs/QueueMonProofs.v', 'inline_monitor_arity', 'the fixed-arity monitors accept only lines of their own arity: the explicit lists in the meaning theorems lose nothing'),
]
