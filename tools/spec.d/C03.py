"""C03: check configuration (PROPS_ENTRY, consumed by ./check and gen_manifest.py) and the list of lemmas that make up
the property file (SPEC_ENTRY, consumed by tools/mkprops.py)."""
PROPS_ENTRY = {'models': ['Model/Queue.v'],
 'design_ref': 'DESIGN.md 3 C03',
 'assumptions': ['caller contract of pop_used: the buffers passed are those submitted for the token (keys match)',
                 'heap faults: only the allocation of the indirect table in add is refused (kinds 111 / 169); other heap allocations of the crate are not fault-injected']}

SPEC_ENTRY = {'title': 'Completions are consumed exactly once in any order; descriptor counts stay exact',
 'imports': ['Model.Queue', 'Proofs.QueueInv', 'Proofs.QueueReach', 'Proofs.QueueProps'],
 'theorems': [('C03_pop_refines',
               'Proofs/QueueProps.v',
               'pop_refines',
               'for every reachable state, every outstanding chain c and EVERY used-ring content: nothing ready -> NotReady, nothing changes; another id first '
               '-> WrongToken, nothing changes; this chain next -> Ok(len), the chain is removed, its cells become the head of the free list, everything else '
               'untouched'),
              ('C03_counts', 'Proofs/QueueProps.v', 'counts_exact', None),
              ('C03_refusal',
               'Proofs/QueueProps.v',
               'add_refusals',
               'InvalidParam iff no buffers, QueueFull iff the capacity predicate fails, both without side effects; otherwise accepted'),
              ('C03_add_cases', 'Proofs/QueueReach.v', 'add_cases', None),
              ('C03_invariant',
               'Proofs/QueueReach.v',
               'Reach_Inv',
               'holds for arbitrary index values: no lemma bounds avail_idx / last_used_idx, all index arithmetic is mod 2^16'),
              ('C03_alloc_failure',
               'Proofs/QueueProps.v',
               'add_alloc_failure',
               'a fault at a particular point: when the heap refuses the indirect table of a submission, the call is a panic out of a queue that is '
               'exactly as it was (no share, no store, no private change), for ANY state; the table is wanted exactly on the indirect path (indirect queue, '
               'more than one buffer, capacity test passed); otherwise add_af is add. Monitor 169 evaluates this on the implementation (heap fault '
               'injection in the harness allocator) and additionally requires, should the driver cope with the refusal, that no outstanding chain is touched')],
 'examples': ['Example C03_wrap_nonvacuous : exists s1 evs, add (qset_indices (qnew 4 false true) 65535) [mkBuf 1 8 100] [] 0 = (Ok 0, s1, evs)\n'
              '  /\\ q_avail_idx s1 = 0 /\\ nthN (q_aring s1) 3 7 = 0.\n'
              'Proof. eexists; eexists; vm_compute; repeat split; reflexivity. Qed.']}
