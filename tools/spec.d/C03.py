"""C03: check configuration (PROPS_ENTRY, consumed by ./check and gen_manifest.py) and the list of lemmas that make up
the property file (SPEC_ENTRY, consumed by tools/mkprops.py)."""
PROPS_ENTRY = {'models': ['Model/Queue.v', 'Model/QueueNoAlloc.v'],
 'design_ref': 'DESIGN.md 3 C03',
 'assumptions': ['caller contract of pop_used: the buffers passed are those submitted for the token (keys match)',
                 'heap faults: only the allocation of the indirect table in add is refused (kinds 111 / 149); other heap allocations of the crate are not fault-injected',
                 'alloc-less build configuration (--no-default-features): second harness variant, directed histories around the capacity test (chains of 1..SIZE and SIZE+1.. buffers, exactly-full queues in several partitions, recycling in every order, index wrap through the pre-set hook of corpus/proposals/noalloc_hook.diff when the checkout has it, else only in the thorough soak), replayed through Model/QueueNoAlloc.v; monitor 151; theorems C03_noalloc_*']}

SPEC_ENTRY = {'title': 'Completions are consumed exactly once in any order; descriptor counts stay exact',
 'imports': ['Model.Queue', 'Proofs.QueueInv', 'Proofs.QueueReach', 'Proofs.QueueProps', 'Model.QueueNoAlloc', 'Proofs.QueueNoAllocProofs'],
 'theorems': [('C03_pop_refines',
               'Proofs/QueueProps.v',
               'pop_refines',
               'for every reachable state, every outstanding chain c and EVERY used-ring content: nothing ready -> NotReady, nothing changes; another id first '
               '-> WrongToken, nothing changes; this chain next -> Ok(len), the chain is removed, its cells become the head of the free list, everything else '
               'untouched'),
              ('C03_counts', 'Proofs/QueueProps.v', 'counts_exact', None),
              ('C03_refusal',
               'Proofs/QueueProps.v',
               'add_refusals',
               'InvalidParam iff no buffers, QueueFull iff the capacity predicate fails, both without side effects; otherwise accepted'),
              ('C03_add_cases', 'Proofs/QueueReach.v', 'add_cases', None),
              ('C03_invariant',
               'Proofs/QueueReach.v',
               'Reach_Inv',
               'holds for arbitrary index values: no lemma bounds avail_idx / last_used_idx, all index arithmetic is mod 2^16'),
              ('C03_alloc_failure',
               'Proofs/QueueProps.v',
               'add_alloc_failure',
               'a fault at a particular point: when the heap refuses the indirect table of a submission, the call is a panic out of a queue that is '
               'exactly as it was (no share, no store, no private change), for ANY state; the table is wanted exactly on the indirect path (indirect queue, '
               'more than one buffer, capacity test passed); otherwise add_af is add. Monitor 149 evaluates this on the implementation (heap fault '
               'injection in the harness allocator) and additionally requires, should the driver cope with the refusal, that no outstanding chain is touched'),
              # ---- the alloc-less build configuration of the crate (--no-default-features) ----
              ('C03_noalloc_refusal', 'Proofs/QueueNoAllocProofs.v', 'na_add_refusals', 'alloc-less build: InvalidParam iff nothing is offered; QueueFull iff num_used + needed > SIZE (the clause as written in that build); both without any effect; otherwise accepted, every buffer shared exactly once'),
              ('C03_noalloc_refusal_monitor', 'Proofs/QueueNoAllocProofs.v', 'na_refusal_spec_holds', 'the boolean form evaluated by monitor 151 on the implementation (held descriptors = one per outstanding buffer) is true of every reachable model state'),
              ('C03_noalloc_counts', 'Proofs/QueueNoAllocProofs.v', 'na_counts_exact', 'alloc-less build: num_used and available_desc are exact; a chain holds one descriptor per buffer whatever was requested at new'),
              ('C03_noalloc_pop_refines', 'Proofs/QueueNoAllocProofs.v', 'na_pop_refines', 'C03_pop_refines for the alloc-less pop_used, every used-ring content'),
              ('C03_noalloc_available_desc_eq', 'Proofs/QueueNoAllocProofs.v', 'na_available_desc_eq', None),
              ('C03_noalloc_invariant', 'Proofs/QueueNoAllocProofs.v', 'na_invariant', 'the queue invariant holds in every state the alloc-less build reaches')],
 'examples': ['Example C03_wrap_nonvacuous : exists s1 evs, add (qset_indices (qnew 4 false true) 65535) [mkBuf 1 8 100] [] 0 = (Ok 0, s1, evs)\n'
              '  /\\ q_avail_idx s1 = 0 /\\ nthN (q_aring s1) 3 7 = 0.\n'
              'Proof. eexists; eexists; vm_compute; repeat split; reflexivity. Qed.',
              'Example C03_noalloc_full_nonvacuous : exists s1 e1 s2 e2, na_add (qset_indices (na_new 2 true true) 65535) [mkBuf 1 8 100] [] = (Ok 0, s1, e1)\n'
              '  /\\ na_add s1 [] [mkBuf 2 8 200] = (Ok 1, s2, e2) /\\ na_available_desc s2 = 0 /\\ q_avail_idx s2 = 1\n'
              '  /\\ na_add s2 [mkBuf 3 8 300] [] = (Err EQueueFull, s2, []).\n'
              'Proof. do 4 eexists; vm_compute; repeat split; reflexivity. Qed.']}
