"""C04: check configuration (PROPS_ENTRY, consumed by ./check and gen_manifest.py) and the list of lemmas that make up
the property file (SPEC_ENTRY, consumed by tools/mkprops.py)."""
PROPS_ENTRY = {'models': ['Model/Queue.v', 'Model/QueueNoAlloc.v', 'Model/Sound.v', 'Model/Mmio.v', 'Model/MmioSpec.v'],
 'design_ref': 'DESIGN.md 3 C04',
 'assumptions': ['the directed register-level cases of the MMIO transport (scenario c10-directed-*, monitor 1011) also run under this check: the addresses written to the queue registers are those DMA allocation returned, both layouts, regions in different 4 GiB windows; the platform ledger requires unshare / dealloc to carry the same access_platform flag as share / alloc',
                 'LedgerHal is the instrumented platform: every share bounced to a distinct device address, copy-in at share, copy-back at unshare; the driver-side copy of a device-writable buffer is poisoned while it is shared',
                 'driver level: the token interface of the sound driver (several requests outstanding, polled in any order) is run under this check too '
                 '(scenario c20snd-nb-*, model Model/Sound.v, monitor 2060 and the ledger lines); its theorems are C20_snd_nb_*']}

SPEC_ENTRY = {'title': 'Each buffer is shared with the device once and unshared once, arguments matching',
 'imports': ['Model.Queue', 'Proofs.QueueInv', 'Proofs.QueueReach', 'Proofs.QueueProps', 'Model.QueueNoAlloc', 'Proofs.QueueNoAllocProofs'],
 'theorems': [('C04_ledger',
               'Proofs/QueueProps.v',
               'ledger_balanced',
               'as multisets: all shares = all unshares + the shares of the outstanding chains; every tuple carries (device address, buffer identity, length, '
               'direction)'),
              ('C04_unshare_at_pop',
               'Proofs/QueueProps.v',
               'ledger_pop_evs',
               'the unshares of a successful pop are exactly the shares of the chain it consumes (same address, range, direction)'),
              ('C04_pop_events', 'Proofs/QueueProps.v', 'pop_refines', 'and they happen inside that pop and nowhere else'),
              ('C04_no_share_on_refusal', 'Proofs/QueueProps.v', 'add_refusals', None),
              ('C04_addresses',
               'Proofs/QueueProps.v',
               'add_publishes',
               'every address the device reaches from a published slot is the share answer for that buffer'),
              # ---- the alloc-less build configuration of the crate (--no-default-features) ----
              ('C04_noalloc_ledger', 'Proofs/QueueNoAllocProofs.v', 'na_ledger_balanced', 'alloc-less build: shares = unshares + live shares as multisets, the live shares are caller buffers only, no event of any history concerns a table'),
              ('C04_noalloc_no_share_on_refusal', 'Proofs/QueueNoAllocProofs.v', 'na_add_refusals', None),
              ('C04_noalloc_pop_events', 'Proofs/QueueNoAllocProofs.v', 'na_pop_refines', 'the unshares of a chain happen inside the alloc-less pop_used that consumes it: one per buffer, none for a table')]}

# ---- the monitors evaluated on the IMPLEMENTATION's observations, tied to the statements they stand for (Proofs/QueueMonProofs.v):
# ---- "meaning" = what a true verdict implies, for any input list; "holds_of_model" = no false alarm on code that behaves like the model
SPEC_ENTRY['imports'] += [m for m in ['Extract.QueueMon', 'Proofs.QueueMonProofs'] if m not in SPEC_ENTRY['imports']]
SPEC_ENTRY['theorems'] += [
  ('C04_monitor_152_meaning', 'Proofs/QueueMonProofs.v', 'mon_data_sound', 'monitor 152, ANY accepted list: after a successful pop the chain had been completed by the device and every writable buffer holds exactly the bytes the device wrote; after an unsuccessful one every writable buffer is untouched'),
  ('C04_monitor_152_meaning_line', 'Proofs/QueueMonProofs.v', 'mon_data_sound_line', 'the same for a line as the harness writes it'),
  ('C04_monitor_167_meaning', 'Proofs/QueueMonProofs.v', 'mon167_sound', 'monitor 167: the refusal of add_notify_wait_pop is WrongToken, its buffers were shared once and stay shared until their own completion is consumed, which unshares each exactly once'),
  ('C04_monitor_154_meaning', 'Proofs/QueueMonProofs.v', 'mon154_sound', 'monitor 154: at the end of a history the live shares are the buffers and tables of the outstanding chains'),
]
