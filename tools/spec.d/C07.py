"""C07: check configuration (PROPS_ENTRY, consumed by ./check and gen_manifest.py) and the list of lemmas that make up
the property file (SPEC_ENTRY, consumed by tools/mkprops.py)."""
PROPS_ENTRY = {}

SPEC_ENTRY = {'title': 'A misbehaving device cannot corrupt driver state or cause invalid memory access',
 'imports': ['Model.Queue', 'Proofs.QueueInv', 'Proofs.QueueReach', 'Proofs.QueueProps', 'Proofs.QueueNonInt'],
 'theorems': [('C07_pop_any_used_ring',
               'Proofs/QueueProps.v',
               'pop_refines',
               'u_idx, u_id, u_len are universally quantified: whatever the device writes, the outcome is Ok / NotReady / WrongToken and the successor state '
               'is reachable (hence satisfies the invariant)'),
              ('C07_invariant', 'Proofs/QueueReach.v', 'Reach_Inv', None),
              ('C07_add_noninterference',
               'Proofs/QueueNonInt.v',
               'add_indep',
               'results, events and private state do not depend on the contents of descriptor table / available ring / flags / used_event'),
              ('C07_pop_noninterference', 'Proofs/QueueNonInt.v', 'pop_indep', None),
              ('C07_query_noninterference', 'Proofs/QueueNonInt.v', 'queries_indep', None)]}
