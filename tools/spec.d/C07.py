"""C07: check configuration (PROPS_ENTRY, consumed by ./check and gen_manifest.py) and the list of lemmas that make up
the property file (SPEC_ENTRY, consumed by tools/mkprops.py)."""
PROPS_ENTRY = {'models': ['Model/Queue.v', 'Model/Owning.v', 'Model/Config.v', 'Model/ConfigSpec.v'],
 'design_ref': 'DESIGN.md 3 C07',
 'assumptions': ['raw VirtQueue users keep the documented caller contract of pop_used (pass the buffers submitted for the token): it is a hypothesis of C07_pop_any_used_ring, not hidden',
                 'memory safety means: no reachable call of an unsafe operation of the crate outside its documented precondition (unshare / dealloc of something not live, slice beyond its buffer); it is not a proof about the Rust abstract machine (aliasing, provenance)',
                 'the Miri / sanitizer runs named in DESIGN.md are supporting tests and are not part of this check'],
 'trusted_extra': ['the instrumented platform (LedgerHal) reports every unshare / dealloc that does not match a live share / allocation; monitor kind 160 requires zero such reports under every adversarial device behaviour generated',
                   'drivers other than the raw queue, OwningQueue and VirtIOInput are exercised adversarially by their own properties (C14-C18, C20)']}

SPEC_ENTRY = {'title': 'A misbehaving device cannot corrupt driver state or cause invalid memory access',
 'imports': ['Model.Queue', 'Model.Owning', 'Model.Config', 'Model.ConfigSpec', 'Proofs.ConfigProofs', 'Proofs.QueueInv', 'Proofs.QueueReach', 'Proofs.QueueProps', 'Proofs.QueueNonInt', 'Proofs.OwningProofs'],
 'theorems': [('C07_pop_any_used_ring',
               'Proofs/QueueProps.v',
               'pop_refines',
               'u_idx, u_id, u_len are universally quantified: whatever the device writes, the outcome is Ok / NotReady / WrongToken and the successor state '
               'is reachable (hence satisfies the invariant)'),
              ('C07_invariant', 'Proofs/QueueReach.v', 'Reach_Inv', None),
              ('C07_add_noninterference',
               'Proofs/QueueNonInt.v',
               'add_indep',
               'results, events and private state do not depend on the contents of descriptor table / available ring / flags / used_event'),
              ('C07_pop_noninterference', 'Proofs/QueueNonInt.v', 'pop_indep', None),
              ('C07_query_noninterference', 'Proofs/QueueNonInt.v', 'queries_indep', None),
              ('C07_owning_poll_any_device', 'Proofs/OwningProofs.v', 'poll_stocked',
               'OwningQueue::poll ends in a result or an error for every used-ring content; every token it passes to pop_used heads an outstanding chain with exactly the buffer submitted for it (the queue stays stocked), and no slice longer than the buffer is delivered'),
              ('C07_owning_prefix_refuted', 'Proofs/OwningProofs.v', 'poll_prefix_refuted',
               'the behaviour before the repair is refuted: oversized length, then the same id again -> pop_used outside its contract, unshare of device address 0'),
              ('C07_owning_fixed_on_witness', 'Proofs/OwningProofs.v', 'poll_fixed_on_witness', None),
              ('C07_config_read_in_window', 'Proofs/ConfigProofs.v', 'cfg_read_bounds',
               'configuration-space values: whatever offset / length a device-chosen value leads a driver to ask for, a read succeeds only if it lies inside the window and then touches exactly those bytes (shared with C13)'),
              ('C07_config_monitor_meaning', 'Proofs/ConfigProofs.v', 'bounds_read_b_sound', 'what a true monitor 1302 means on any observed access sequence')]}
