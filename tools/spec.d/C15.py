"""C15: check configuration (PROPS_ENTRY, consumed by ./check and gen_manifest.py) and the list of lemmas that make up
the property file (SPEC_ENTRY, consumed by tools/mkprops.py)."""
PROPS_ENTRY = {
 'models': ['Model/Queue.v', 'Model/Console.v', 'Model/ConsoleSpec.v'],
 'design_ref': 'DESIGN.md 3 C15',
 'assumptions': [
     'receive side: the device is the abstract console device of Model/ConsoleSpec.v (VirtIO 1.2 2.7 / 5.3.6): it takes available receive buffers in ring order, writes '
     'one chunk of 1..4096 bytes into a chain that is one writable element large enough, and publishes (head, chunk length); a device that reports length 0 or a length '
     'above the buffer, or a foreign used id, is outside the stream theorems (the model follows the code there - assert / index panics - and the harness compares it in the '
     'c15-malformed scenarios)',
     'the bytes found in queue_buf_rx after a completed request has been popped are the bytes the device wrote (Hal::unshare copy-back, property C04); the model keeps '
     'only that prefix of the buffer',
     'Hal::share answers are arbitrary (universally quantified); sequentially consistent memory; the device acts only between two driver operations or at a busy-wait '
     'iteration (hook sites 4 and 0), i.e. the single-threaded co-simulation of DESIGN 2.4',
     'consume(amt) with amt above the unread count is a caller contract violation answered by a panic with the state unchanged (stated, not excluded); usize is 64 bits',
     'VirtIOConsole::new is modelled from the point where both queues exist (feature negotiation result = device features & SUPPORTED_FEATURES, queue size 2); the status '
     'handshake is C08, Drop is C09',
     'transmit side: C15_send assumes an idle transmit queue (no earlier chain left outstanding by a misbehaving device) and a buffer of 1..2^32-1 bytes; the bytes '
     'themselves reach the device through Hal::share of exactly that buffer (C04), which the monitor 1556 checks on the implementation by reading the chain through device addresses'],
 'trusted_extra': [
     'the reference console device and the spin-hook scheduler in harness/src/scen/c15.rs (fills at PRNG-chosen moments, records the view each finish_receive / can_pop saw); '
     'it writes its notification-suppression words (used.flags, avail_event) of each queue between calls and, for the receive queue, once when the queue appears during new; '
     'the words standing in device-written memory when a call starts are the inputs of its line (the device does not change them inside a call before should_notify has read them)',
     'c15-wrap runs 65 600 receive chunks and 65 600 sends with one line per operation; in that scenario a monitor line implied by another monitor line of the same call is not '
     'written (1555 [1] by 1552 with bytes, 1557 by 1559)',
     'the repair of BufRead::consume (F10, commit a750fed) is in /repo; corpus/findings/C15_consume_overflow_fix.diff is kept for reference',
     'size()/emergency_write(): config-space answers are replicated from ModelTransport by the harness (generation counter, scheduled change) and fed to the model as inputs']}

SPEC_ENTRY = {
 'title': 'Console bytes are delivered exactly once and in order in both directions',
 'imports': ['Model.Queue', 'Model.Console', 'Model.ConsoleSpec', 'Proofs.QueueInv', 'Proofs.QueueReach', 'Proofs.QueueProps', 'Proofs.ConsoleProofs'],
 'theorems': [
  ('C15_stream', 'Proofs/ConsoleProofs.v', 'stream_exact',
   'MAIN: after VirtIOConsole::new and ANY list of operations (recv peek/pop, read_ready, ack_interrupt with any ISR value, read and fill_buf with any size, consume with any '
   'amount, sends, size, emergency_write - in any order, with any share addresses and suppression words), the device delivering chunks of 1..4096 bytes between calls or at '
   'any iteration of a wait, in both profiles: bytes handed to the caller ++ bytes received and unread ++ chunk written but not yet popped = bytes the device wrote. '
   'Nothing lost, duplicated or reordered.'),
  ('C15_invariant', 'Proofs/ConsoleProofs.v', 'console_invariant',
   'the invariant behind it (J = Jrx + the equation): the receive queue is a reachable queue state with at most one chain; cursor <= pending_len <= 4096 = length of the '
   'received chunk; the device and the driver agree on avail/used indices; token = Some t iff chain t is outstanding, and then cursor = pending_len'),
  ('C15_step', 'Proofs/ConsoleProofs.v', 'step_ok',
   'one step from ANY state satisfying the invariant (not only reachable ones) preserves it and meets the per-call contract below; fixedc = false is the code before the repair, '
   'covered for consume amounts that cannot wrap'),
  ('C15_calls', 'Proofs/ConsoleProofs.v', 'calls_exact',
   'what every call returns at every point of every history (call_post): no call fails (class 0) except consume above the unread count (panic, state unchanged) and a wait '
   'during which the device delivers nothing (does not return); recv returns the next byte of the stream, None exactly when everything written has been handed over; '
   'read_ready = false iff everything written has been handed over; read returns 1..n bytes, the next ones of the stream; fill_buf returns exactly the unread bytes; consume '
   'skips exactly amt of them'),
  ('C15_one_buffer', 'Proofs/ConsoleProofs.v', 'one_buffer',
   'at most one receive chain is ever outstanding (token = None <-> none), it is the 4096-byte writable buffer as the device walks it, while it is outstanding nothing '
   'received is unread (so it was posted only after everything had been consumed), without one nothing is in flight; device-visible: avail index - used index <= 1'),
  ('C15_device_can_deliver', 'Proofs/ConsoleProofs.v', 'fill_spec',
   'the abstract device can deliver a legal chunk exactly when a request is outstanding and not yet filled (so the theorems above are not vacuous about the device), and '
   'delivering preserves the receive invariant'),
  ('C15_wait_returns', 'Proofs/ConsoleProofs.v', 'wait_spec',
   'wait_for_receive (the busy-wait of read / fill_buf) with the device idle for any number of iterations and then delivering: returns as soon as the chunk is there, having '
   'popped exactly that chunk; keeps spinning (None) only if the device had no legal chunk to deliver'),
  ('C15_send', 'Proofs/ConsoleProofs.v', 'send_publishes',
   'send / send_bytes / Write::write on an idle transmit queue, any buffer of 1..2^32-1 bytes: exactly one share - the caller buffer, readable -, the device reaches '
   'exactly [(that address, that length, readable)] from the new ring entry, index published last; once the device has used it the call returns Ok, has unshared the same '
   'buffer once, the queue is idle again and the receive state is untouched'),
  ('C15_invariant_any_index', 'Proofs/ConsoleProofs.v', 'console_invariant_at',
   'INDEX WRAP: the invariant with the free-running 16-bit indices of both queues (and the device copies) standing at ANY value when the history starts (sys_init_at start; '
   'start = 0 is VirtIOConsole::new, sys_init_at_0): histories that cross 65535 -> 0 are a few operations away from start = 65535, 65534, ... and are covered by the same '
   'statement; every operation carries its own suppression words (ae, uf), universally quantified'),
  ('C15_stream_any_index', 'Proofs/ConsoleProofs.v', 'stream_exact_at',
   'nothing lost, duplicated or reordered from every start index, under every suppression word'),
  ('C15_calls_any_index', 'Proofs/ConsoleProofs.v', 'calls_exact_at',
   'the per-call contract (C15_calls) from every start index'),
  ('C15_one_buffer_any_index', 'Proofs/ConsoleProofs.v', 'one_buffer_at',
   'at most one receive buffer outstanding, device-visible avail - used <= 1 computed modulo 2^16, from every start index'),
  ('C15_buffer_comes_back', 'Proofs/ConsoleProofs.v', 'repost_delivers',
   'MEANING OF MONITOR 1559 (+1551/1555/1552): from ANY state satisfying the invariant, a recv(pop) that hands out a byte and leaves nothing unread has - for every pair of '
   'suppression words, notification sent or not - recorded an outstanding request, nothing is in flight, the device sees exactly one available buffer (avail - used = 1 '
   'mod 2^16), the device can deliver every legal chunk into it and the first receive call after that delivery returns the first byte of that chunk'),
  ('C15_buffer_comes_back_any_index', 'Proofs/ConsoleProofs.v', 'repost_delivers_at',
   'the same at every point of every history from every start index'),
  ('C15_suppression_words', 'Proofs/ConsoleProofs.v', 'poll_words',
   'poll_retrieve - the only place where a receive buffer is published (new, recv(pop), read, fill_buf) - in ANY driver state and for ANY two pairs of suppression words: same '
   'result, same new driver state (the recorded token included), effects equal up to the notification; the notification is sent exactly when should_notify of the queue says so '
   'for the words given (C05 says what should_notify must imply)'),
  ('C15_tx_idle_any_index', 'Proofs/ConsoleProofs.v', 'tx_idle_at',
   'the transmit queue of the any-index system is an idle reachable queue of size 2 with both indices at start: C15_send applies to it and to the queue every completed send '
   'leaves behind, so to sends across the wrap'),
  ('C15_stream_prefix_refuted', 'Proofs/ConsoleProofs.v', 'stream_prefix_refuted',
   'FINDING (repaired): with consume as it stood (assert!(cursor + amt <= pending_len)) the release profile lets consume(usize::MAX) pass and moves the cursor back: bytes 2 3 '
   'are handed out twice'),
  ('C15_stream_prefix_partial', 'Proofs/ConsoleProofs.v', 'stream_prefix_partial',
   'strongest true statement about the code before the repair: the full invariant in the debug profile, and in release for histories whose consume amounts are below 2^64 - 4096'),
  ('C15_stall_observation', 'Proofs/ConsoleProofs.v', 'stall_stable',
   'OBSERVATION outside the property (liveness): once read/consume have taken everything, no buffer is outstanding and recv / read_ready / ack_interrupt never post one: they '
   'answer "nothing" forever and the device cannot deliver; only read(n>0) / fill_buf get out of it')],
 'examples': [
  'Example C15_stream_nonvacuous :\n'
  '  let s := sys_run true Release (sys_init 0 1000 0 0)\n'
  '             [OFill [1; 2; 3]; ORead 2 0 0 0 0 []; ORecv false 0 0 0; ORecv true 2000 0 0;\n'
  '              OFill [7; 8]; OFillBuf 0 0 0 1 [9]; OConsume 1] in\n'
  '  s_written s = [1; 2; 3; 7; 8] /\\ s_delivered s = [1; 2; 3; 7] /\\ unread (s_c s) = [8] /\\ s_infl s = []\n'
  '  /\\ c_token (s_c s) = None.\n'
  'Proof. exact stream_nonvacuous. Qed.',
  'Example C15_stream_nonvacuous_inflight :\n'
  '  let s := sys_run true Debug (sys_init 536870912 1000 0 0)\n'
  '             [OFill [1]; ORecv true 2000 0 0; OFill [5; 6]; OAck 2; OFill [9]] in\n'
  '  s_written s = [1; 5; 6] /\\ s_delivered s = [1] /\\ unread (s_c s) = [] /\\ s_infl s = [5; 6]\n'
  '  /\\ c_token (s_c s) = Some 0.\n'
  'Proof. exact stream_nonvacuous_inflight. Qed.',
  'Example C15_wait_nonvacuous :\n'
  '  let s0 := sys_init 0 1000 0 0 in\n'
  '  snd (sys_step true Debug s0 (ORead 2 0 0 0 2 [4; 5; 6])) = mkRet 0 2 [4; 5]\n'
  '  /\\ snd (sys_step true Debug s0 (OFillBuf 0 0 0 0 [4; 5; 6])) = mkRet 0 3 [4; 5; 6]\n'
  '  /\\ r_class (snd (sys_step true Debug s0 (ORead 2 0 0 0 2 []))) = 4.\n'
  'Proof. exact wait_nonvacuous. Qed.',
  'Example C15_send_nonvacuous :\n'
  '  let c := s_c (sys_init 0 1000 0 0) in\n'
  '  Reach (c_txq c) [] [] /\\ q_size (c_txq c) = 2\n'
  '  /\\ fst (fst (send_bytes c 3 5000 0 0 [0; 0; 1] (mkView 1 [(0, 0); (0, 0)] []))) = Some (Ok 2)\n'
  '  /\\ tx_wait (snd (fst (add (c_txq c) [txbuf 3 5000] [] 0))) [0; 0; 1] 0 = Some 2.\n'
  'Proof. exact send_nonvacuous. Qed.',
  'Example C15_fixed_on_witness :\n'
  '  let s := sys_run true Release (sys_init 0 1000 0 0) wit_prefix in\n'
  '  s_written s = [1; 2; 3] /\\ s_delivered s = [1; 2; 3]\n'
  '  /\\ r_class (snd (sys_step true Release (sys_run true Release (sys_init 0 1000 0 0) (firstn 2 wit_prefix))\n'
  '                            (OConsume 18446744073709551615))) = 2.\n'
  'Proof. exact stream_fixed_on_witness. Qed.',
  'Example C15_prefix_partial_nonvacuous :\n'
  '  Forall (op_ok false Release) [OFill [1; 2; 3]; OFillBuf 0 0 0 0 []; OConsume 2; OConsume 18446744073709547519].\n'
  'Proof. exact prefix_partial_nonvacuous. Qed.',
  'Example C15_wrap_nonvacuous :\n'
  '  let s := sys_run true Debug (sys_init_at 65535 536870912 1000 65535 1)\n'
  '             [OFill [1]; ORecv true 2000 40000 1; OFill [5; 6]; ORecv false 0 0 0; ORecv true 0 0 0;\n'
  '              ORecv true 3000 0 1; OFill [9]] in\n'
  '  65535 < two16\n'
  '  /\\ s_written s = [1; 5; 6; 9] /\\ s_delivered s = [1; 5; 6] /\\ s_infl s = [9]\n'
  '  /\\ q_avail_idx (c_rxq (s_c s)) = 2 /\\ d_used (s_d s) = 2 /\\ q_last_used (c_rxq (s_c s)) = 1\n'
  '  /\\ c_token (s_c s) = Some 0.\n'
  'Proof. exact wrap_nonvacuous. Qed.',
  'Example C15_buffer_comes_back_nonvacuous :\n'
  '  let s := sys_run true Release (sys_init_at 65535 536870912 1000 0 0) [OFill [7]] in\n'
  '  let st := sys_step true Release s (ORecv true 2000 16384 1) in\n'
  '  let s\' := sys_run true Release (sys_init_at 65535 0 1000 0 0) [OFill [7]] in\n'
  '  let st\' := sys_step true Release s\' (ORecv true 2000 0 1) in\n'
  '  r_val (snd st) <> 0 /\\ unread (s_c (fst st)) = [] /\\ c_token (s_c (fst st)) = Some 0\n'
  '  /\\ has_notify (snd (recv Release (s_c s) true (dev_view (s_d s)) 2000 16384 1)) = false\n'
  '  /\\ has_notify (snd (recv Release (s_c s) true (dev_view (s_d s)) 2000 0 1)) = true\n'
  '  /\\ r_val (snd st\') <> 0 /\\ unread (s_c (fst st\')) = [] /\\ c_token (s_c (fst st\')) = Some 0\n'
  '  /\\ has_notify (snd (recv Release (s_c s\') true (dev_view (s_d s\')) 2000 0 1)) = false\n'
  '  /\\ has_notify (snd (recv Release (s_c s\') true (dev_view (s_d s\')) 2000 0 0)) = true.\n'
  'Proof. exact repost_nonvacuous. Qed.',
  'Example C15_stall_reachable :\n'
  '  let s := sys_run true Debug (sys_init 0 1000 0 0) [OFill [42; 43; 44]; ORead 3 0 0 0 0 []] in\n'
  '  stalled (s_c s) /\\ s_delivered s = [42; 43; 44]\n'
  '  /\\ dev_can_fill (c_rxq (s_c s)) (s_d s) [45] = false.\n'
  'Proof. exact stall_reachable. Qed.']}


# ---------------------------------------------------------------------------------------------------------------------
# appended: the console monitors (Extract/ConsoleIO.v mon_step, kinds 1550..1560) are proved to mean what they stand for
# (Proofs/ConsoleMonProofs.v)
SPEC_ENTRY['imports'] += ['Extract.QueueIO', 'Extract.ConsoleIO', 'Proofs.ConsoleMonProofs']
SPEC_ENTRY['theorems'] += [
 ('C15_monitor_stream_meaning', 'Proofs/ConsoleMonProofs.v', 'mon_run_stream',
  'THE STREAM, for ANY list of monitor lines whose verdicts are all true: unread before ++ bytes written by the device (1551) = bytes taken by the caller (1552 consuming, 1553) ++ unread after; every taking line takes a prefix of what is unread: nothing lost, duplicated or reordered'),
 ('C15_monitor_stream_meaning_init', 'Proofs/ConsoleMonProofs.v', 'mon_run_stream_init', 'from the start of a scenario: written = taken ++ m_q'),
 ('C15_monitor_1550_meaning', 'Proofs/ConsoleMonProofs.v', 'mon1550_meaning', 'a receive buffer is posted only when everything written has been handed over and no other buffer is posted; the device then sees exactly one'),
 ('C15_monitor_1551_meaning', 'Proofs/ConsoleMonProofs.v', 'mon1551_meaning', 'the device wrote 1..4096 bytes into a posted buffer'),
 ('C15_monitor_1552_meaning', 'Proofs/ConsoleMonProofs.v', 'mon1552_meaning', 'bytes handed to the caller: at least one, the NEXT bytes of the stream'),
 ('C15_monitor_1553_meaning', 'Proofs/ConsoleMonProofs.v', 'mon1553_meaning', 'consume(amt) returned: amt <= unread, exactly amt bytes skipped'),
 ('C15_monitor_1554_meaning', 'Proofs/ConsoleMonProofs.v', 'mon1554_meaning', 'fill_buf returned exactly the unread bytes, at least one'),
 ('C15_monitor_1555_meaning', 'Proofs/ConsoleMonProofs.v', 'mon1555_meaning', 'data reported available exactly when something is unread'),
 ('C15_monitor_1556_meaning', 'Proofs/ConsoleMonProofs.v', 'mon1556_meaning', 'a send that returned Ok: the device read exactly the caller\'s bytes from one readable element'),
 ('C15_monitor_1556_decodes', 'Proofs/ConsoleMonProofs.v', 'mon1556_decodes', None),
 ('C15_monitor_1557_meaning', 'Proofs/ConsoleMonProofs.v', 'mon1557_meaning', 'available index - used index (mod 2^16) is 0 or 1'),
 ('C15_monitor_1558_1560_meaning', 'Proofs/ConsoleMonProofs.v', 'mon1558_meaning', 'the blocking receive / the send was not found waiting in vain and returned Ok'),
 ('C15_monitor_1559_meaning', 'Proofs/ConsoleMonProofs.v', 'mon1559_meaning', 'after recv(pop) of a byte: exactly one buffer posted if that was the last byte written, none otherwise'),
 ('C15_monitor_unknown_kind', 'Proofs/ConsoleMonProofs.v', 'mon_step_unknown_kind', 'no other kind is ever accepted'),
 ('C15_monitor_1557_holds_of_model', 'Proofs/ConsoleMonProofs.v', 'mon1557_holds_of_model', 'monitor 1557 holds at every point of every history from every start of the indices (from C15_one_buffer_any_index)'),
 ('C15_monitor_1559_holds_of_model', 'Proofs/ConsoleMonProofs.v', 'mon1559_holds_of_model', 'monitor 1559 holds after every recv(pop) of the model that hands out a byte, from ANY invariant state (both branches; from C15_buffer_comes_back and the invariant)'),
 ('C15_monitor_recv_lines_hold_of_model', 'Proofs/ConsoleMonProofs.v', 'mon_recv_lines_hold', 'recv (peek / pop) of the model: its 1555 and 1552 lines are accepted and the monitor stays in step (Sim)'),
 ('C15_monitor_read_ready_line_holds_of_model', 'Proofs/ConsoleMonProofs.v', 'mon_read_ready_line_holds', None),
 ('C15_monitor_ack_keeps_sim', 'Proofs/ConsoleMonProofs.v', 'mon_ack_keeps_sim', None),
 ('C15_monitor_consume_line_holds_of_model', 'Proofs/ConsoleMonProofs.v', 'mon_consume_line_holds', None),
 ('C15_monitor_fill_line_holds_of_model', 'Proofs/ConsoleMonProofs.v', 'mon_fill_line_holds', 'a chunk delivered between two calls: line 1551 accepted (the posted bit included), Sim and Posted kept'),
 ('C15_monitor_read_lines_hold_of_model_partial', 'Proofs/ConsoleMonProofs.v', 'mon_read_lines_hold',
  'read(n > 0) that returned: after the 1551 line of a chunk delivered during the wait (if any) its 1552 line is accepted, Sim kept. PARTIAL: the posted-bit conjunct of that in-wait 1551 line and the 1550 line of the buffer posted by poll_retrieve are not covered'),
 ('C15_monitor_fill_buf_lines_hold_of_model_partial', 'Proofs/ConsoleMonProofs.v', 'mon_fill_buf_lines_hold', 'the same for fill_buf and its 1554 line')]
