"""C02: check configuration (PROPS_ENTRY, consumed by ./check and gen_manifest.py) and the list of lemmas that make up
the property file (SPEC_ENTRY, consumed by tools/mkprops.py)."""
PROPS_ENTRY = {'models': ['Model/Queue.v'],
 'design_ref': 'DESIGN.md 3 C02',
 'assumptions': ['memory is sequentially consistent: fences are events whose position is proved and compared; their hardware effect is trusted',
                 'source lint: fence(SeqCst) between ring-slot store and Release store of idx'],
 'level_note': 'PARTIAL with respect to weak memory: the theorems cover the order of stores and the completeness of every outstanding entry under sequential '
               'consistency. Trusted: Coq kernel, extraction, hand-written model, harness, the semantics of fence(SeqCst)/Release.'}

SPEC_ENTRY = {'title': 'The device never sees an available index covering an incomplete entry',
 'imports': ['Model.Queue', 'Proofs.QueueInv', 'Proofs.QueueReach', 'Proofs.QueueProps'],
 'theorems': [('C02_idx_last',
               'Proofs/QueueProps.v',
               'add_store_order',
               'the stores of a successful submission are: shares and descriptor stores into cells of the new chain only (cells of no outstanding chain), then '
               'the ring slot, then the fence, then the index - the index store is last'),
              ('C02_no_idx_store_in_pop',
               'Proofs/QueueProps.v',
               'pop_stores_no_idx',
               'consuming a completion (whatever the device wrote) never stores the available index or a ring slot'),
              ('C02_refused_add_stores_nothing', 'Proofs/QueueProps.v', 'add_refusals', 'a refused submission stores nothing'),
              ('C02_entries_stay_complete',
               'Proofs/QueueProps.v',
               'all_chains_walk',
               'in every reachable state every outstanding entry is completely written (sequentially consistent memory)')]}
