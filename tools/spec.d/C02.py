"""C02: check configuration (PROPS_ENTRY, consumed by ./check and gen_manifest.py) and the list of lemmas that make up
the property file (SPEC_ENTRY, consumed by tools/mkprops.py)."""
PROPS_ENTRY = {'lint': 'tools/lint_c02.py',
 'models': ['Model/Queue.v'],
 'design_ref': 'DESIGN.md 3 C02',
 'assumptions': ['memory is sequentially consistent: fences are events whose position is proved and compared; their hardware effect is trusted',
                 'source lint: fence(SeqCst) between ring-slot store and Release store of idx'],
 'level_note': 'PARTIAL with respect to weak memory: the theorems cover the order of stores and the completeness of every outstanding entry under sequential '
               'consistency. Trusted: Coq kernel, extraction, hand-written model, harness, the semantics of fence(SeqCst)/Release.'}

SPEC_ENTRY = {'title': 'The device never sees an available index covering an incomplete entry',
 'imports': ['Model.Queue', 'Proofs.QueueInv', 'Proofs.QueueReach', 'Proofs.QueueProps', 'Proofs.QueueVisible'],
 'theorems': [('C02_prefix_safe', 'Proofs/QueueVisible.v', 'add_prefix_safe',
               'EVERY instant: for every reachable state, every number U of most recent submissions the device has not fetched yet, every successful submission and every prefix p of its stores (evs = p ++ q): in the memory obtained by applying p, each of the U unfetched entries still has its ring slot and walks to exactly its buffers, and the index the device can read is still the old one unless all stores have been done (sequentially consistent memory)'),
              ('C02_end_safe', 'Proofs/QueueVisible.v', 'add_end_safe', 'when the index store has been done the new entry is complete too: all U+1 unfetched entries'),
              ('C02_pop_keeps_unfetched', 'Proofs/QueueVisible.v', 'pop_keeps_unfetched', 'consuming a completion (of a chain the device has fetched) leaves the unfetched entries and their ring slots alone'),
              ('C02_ring_invariant', 'Proofs/QueueVisible.v', 'RingOK_add', 'the ring-slot invariant is kept by submissions, and fewer entries than descriptors are ever unfetched'),
              ('C02_slot_distinct', 'Proofs/QueueVisible.v', 'slot_distinct', 'the slot a submission writes is none of the slots of the unfetched entries, for every index value including across the 16-bit wrap, for each of the sixteen queue sizes'),
              ('C02_add_events_faithful', 'Proofs/QueueVisible.v', 'add_events_faithful', 'the store events are faithful: applying them in order to the old device-visible memory gives the new one'),
              ('C02_pop_events_faithful', 'Proofs/QueueVisible.v', 'pop_events_faithful', None),
              ('C02_idx_last',
               'Proofs/QueueProps.v',
               'add_store_order',
               'the stores of a successful submission are: shares and descriptor stores into cells of the new chain only (cells of no outstanding chain), then '
               'the ring slot, then the fence, then the index - the index store is last'),
              ('C02_no_idx_store_in_pop',
               'Proofs/QueueProps.v',
               'pop_stores_no_idx',
               'consuming a completion (whatever the device wrote) never stores the available index or a ring slot'),
              ('C02_refused_add_stores_nothing', 'Proofs/QueueProps.v', 'add_refusals', 'a refused submission stores nothing'),
              ('C02_entries_stay_complete',
               'Proofs/QueueProps.v',
               'all_chains_walk',
               'in every reachable state every outstanding entry is completely written (sequentially consistent memory)')]}

# ---- the monitors evaluated on the IMPLEMENTATION's observations, tied to the statements they stand for (Proofs/QueueMonProofs.v):
# ---- "meaning" = what a true verdict implies, for any input list; "holds_of_model" = no false alarm on code that behaves like the model
SPEC_ENTRY['imports'] += [m for m in ['Extract.QueueMon', 'Proofs.QueueMonProofs'] if m not in SPEC_ENTRY['imports']]
SPEC_ENTRY['theorems'] += [
  ('C02_monitor_158_meaning', 'Proofs/QueueMonProofs.v', 'mon158_sound', 'monitor 158: at no checked instant was an entry below the visible index incomplete'),
]
