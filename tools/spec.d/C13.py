"""C13: check configuration (PROPS_ENTRY, consumed by ./check and gen_manifest.py) and the list of lemmas that make up
the property file (SPEC_ENTRY, consumed by tools/mkprops.py)."""
PROPS_ENTRY = {'models': ['Model/Config.v', 'Model/ConfigSpec.v', 'Model/InputCfg.v', 'Model/InputCfgSpec.v'],
 'design_ref': 'DESIGN.md 3 C13',
 'assumptions': ['device model of the untorn-read theorem: configuration memory is replaced atomically and EVERY change bumps the generation counter by one '
                 '(VirtIO 1.2 4.1.4.3.1 / 4.2.2.1 only demand a changed generation once the driver has read a changed field; a device that bumps lazily '
                 'is covered as long as the counter differs between the two generation reads of an attempt that saw a change)',
                 'no-wrap hypothesis, explicit in C13_untorn: fewer than 2^w configuration changes fall inside any single attempt of the read_consistent loop, '
                 'w = 32 for MMIO (ConfigGeneration is a 32-bit register) and w = 8 for PCI (config_generation is one byte); C13_untorn_wrap_refuted shows '
                 'the hypothesis is necessary (256 changes inside one PCI attempt give a value no exposed image yields)',
                 'transports with a generation counter only: a legacy MMIO device has none (read_config_generation returns the constant 0 there, by the '
                 'repair 6a3b294 of C10/F8); C13_untorn_legacy_refuted shows one change between two reads tears the value; VirtIO 1.2 2.5.4 records this '
                 'weakness of the legacy interface and no driver-side loop removes it for every schedule, so it is reported as a limitation, not repaired',
                 'stored window length: MMIO any usize; PCI length/4 words with length a u32 (so 4*len cannot overflow); the window lies inside the address '
                 'space (base + window < 2^64) and its base is 4-byte aligned (the alignment VirtIO guarantees) - needed only for the natural-alignment '
                 'conjunct of the monitor',
                 'size_of::<T>() <= 64 in the executable model (fuel of the splitting recursion); the drivers use 1, 2, 4 and 6 bytes',
                 'a closure handed to read_consistent only reads configuration space through the transport (a tree of register reads whose continuation '
                 'gets the value read); panics inside the closure unwind through the loop',
                 'VirtIOInput configuration queries (Model/InputCfg.v, C13_input_*): the device is an answer stream - EVERY read, the size byte included, is '
                 'answered with an arbitrary value - or, for the tearing statements, configuration memory with scheduled updates; the windows are those of '
                 'the two transports with any length (win_ok); allocation of the result buffer (at most 128 bytes) succeeds',
                 'VirtIOInput reads size and data WITHOUT read_consistent: C13_input_untorn_refuted is a machine-checked witness of a torn name(); this is '
                 'recorded as an observation, not claimed as a violation (input.rs is not among the users the property text lists, a VirtIO input device '
                 'changes its configuration only in answer to the driver\'s own select / subsel writes, and the repair is not a one-liner: '
                 'corpus/proposals/input_cfg_untorn_fix.diff, not applied); scenarios c13-input-torn-* show it on the real code '
                 '(correspondence 1323; monitor 1324 only with VERIF_INPUTCFG_OBSERVATIONS=1)'],
 'trusted_extra': ['safe-mmio 0.3.1 MmioOps::{read,write,read_slice,write_slice}: sizes 1/2/4/8 are ONE access whatever the alignment of T, anything else is '
                   'split by the alignment of the actual pointer (transcribed in Model/Config.v chunks/slice_chunks); the harness replaces the backend by a '
                   'logging one (custom-mmio), so offset, width, order and value of every access of the real transports are observed, not assumed',
                   'the emulated device of harness/src/scen/c13.rs: MMIO register block + configuration window; minimal PCI function (ids, one 32-bit memory '
                   'BAR, capability list common/notify/isr/[device]) with the four windows in the BAR; it applies the scheduled updates immediately before '
                   'each individual generation/configuration read and records which image it was exposing at every read',
                   'the real drivers (VirtIOBlk::new, VirtIOSocket::new, VirtIOConsole::size, VirtIONetRaw::new, VirtIO9p::new) are tied to the closures '
                   'p_lo_hi / p_console_size / p_net_mac / p_9p_tag by the correspondence (same register reads in the same order, same value), not by a '
                   'model of their constructors; the closure replicas in the harness (direct read_consistent scenarios) are copies of the driver code',
                   'String::from_utf8 is modelled by utf8_valid (Unicode table 3-7), tied by the 9p scenarios (valid, overlong, surrogate, > U+10FFFF, '
                   'truncated sequences)',
                   'not executed: the x86-64 pKVM HypPciTransport (src/transport/x86_64.rs) implementations of the three methods',
                   'VirtIOInput queries (scen/c13_input.rs): the real VirtIOInput over ModelTransport and over the real MmioTransport (legacy / modern) and '
                   'PciTransport on the emulated register file of scen/c13.rs, device-chosen size bytes 0, 1, 7, 8, 9, 19, 20, 21, 127, 128, 129, 255 and random, '
                   'random data, windows that hold the structure and windows that end inside it; kind 1320 predicts every access and result, monitors 1321 '
                   '(5.8.5 protocol on the 5.8.4 layout, at most min(size, 128) data bytes, all inside the 136-byte structure) and 1322 (value = what the '
                   'specification says for the size and bytes the device answered) are evaluated on the observed accesses']}

SPEC_ENTRY = {'title': 'Config-space access is bounds-checked and multi-field reads are never torn',
 'imports': ['Model.Config', 'Model.ConfigSpec', 'Proofs.ConfigProofs', 'Model.Input', 'Model.InputCfg', 'Model.InputCfgSpec', 'Proofs.InputCfgProofs'],
 'theorems': [('C13_length_test_exact',
               'Proofs/ConfigProofs.v',
               'end_check_exact',
               'the repaired length test decides off + s <= window IN N for every offset and size, both transports, both profiles'),
              ('C13_bounds_read',
               'Proofs/ConfigProofs.v',
               'cfg_read_cases',
               'read_config_space is the verdict of the specification for EVERY offset, size, alignment, window, both transports, both profiles: assertion '
               'panic / Missing (PCI without capability) / TooSmall - each without any access - or the accesses of the split read and their little-endian '
               'value'),
              ('C13_bounds_read_props',
               'Proofs/ConfigProofs.v',
               'cfg_read_bounds',
               'as propositions: Ok iff aligned and off + s <= window in N (and the capability exists); then exactly the bytes [off, off+s) are touched, in '
               'order, by reads; otherwise nothing is touched and the result is the panic or one of the two errors'),
              ('C13_bounds_read_monitor',
               'Proofs/ConfigProofs.v',
               'cfg_read_conform',
               'the read monitor (kind 1302) holds of the model for all inputs, natural alignment of every access included'),
              ('C13_bounds_write', 'Proofs/ConfigProofs.v', 'cfg_write_cases', 'write_config_space likewise'),
              ('C13_bounds_write_monitor', 'Proofs/ConfigProofs.v', 'cfg_write_conform', 'the write monitor (kind 1304) holds of the model for all inputs'),
              ('C13_bounds_monitor_meaning',
               'Proofs/ConfigProofs.v',
               'bounds_read_b_sound',
               'what a true read monitor means on ANY observation: success only inside the window with exactly those bytes touched; refusal with the '
               'documented outcome and nothing touched'),
              ('C13_bounds_write_monitor_meaning', 'Proofs/ConfigProofs.v', 'bounds_write_b_sound', None),
              ('C13_pci_window_within_capability',
               'Proofs/ConfigProofs.v',
               'pci_window_within_capability',
               'the PCI window 4*(length/4) never exceeds the length the capability declares'),
              ('C13_bounds_prefix_refuted',
               'Proofs/ConfigProofs.v',
               'cfg_read_prefix_refuted',
               'F6, the code before the repair: read_config_space::<u32>(usize::MAX - 3) on a 256-byte window - the specification says TooSmall and no '
               'access; debug panics, release returns Ok after a 4-byte read below the window'),
              ('C13_bounds_write_prefix_refuted', 'Proofs/ConfigProofs.v', 'cfg_write_prefix_refuted', 'the same for write_config_space (PCI witness)'),
              ('C13_length_test_prefix_refuted', 'Proofs/ConfigProofs.v', 'end_check_prefix_refuted', None),
              ('C13_bounds_prefix_partial',
               'Proofs/ConfigProofs.v',
               'cfg_read_prefix_partial',
               'what was true before the repair: for off + s < 2^64 the old code behaves like the repaired one'),
              ('C13_bounds_write_prefix_partial', 'Proofs/ConfigProofs.v', 'cfg_write_prefix_partial', None),
              ('C13_untorn',
               'Proofs/ConfigProofs.v',
               'read_consistent_untorn',
               'for EVERY closure (any tree of register reads), every device state and EVERY schedule of configuration updates placed between the individual '
               'register reads, on a transport with a generation counter: if fewer than 2^w updates (w = 32 MMIO, 8 PCI) fall inside each attempt, a '
               'value returned by read_consistent is the closure evaluated on ONE image the device exposed, and that image is still exposed on return'),
              ('C13_terminates',
               'Proofs/ConfigProofs.v',
               'read_consistent_terminates',
               'the loop ends once the device stops changing: at most one more attempt than there are scheduled updates'),
              ('C13_quiet_first_attempt',
               'Proofs/ConfigProofs.v',
               'read_consistent_quiet',
               'with no intervening change it returns after the first attempt, with the value of the current image, leaving the device as it was'),
              ('C13_untorn_wrap_refuted',
               'Proofs/ConfigProofs.v',
               'untorn_wrap_refuted',
               'the no-wrap hypothesis is necessary: PCI, 256 updates between the two reads of one attempt - the value returned matches NO exposed image'),
              ('C13_untorn_legacy_refuted',
               'Proofs/ConfigProofs.v',
               'untorn_legacy_refuted',
               'legacy MMIO (no counter; read_config_generation = 0 without any access): one update between the two reads tears the value'),
              ('C13_access_in_closure',
               'Proofs/ConfigProofs.v',
               'eval_read_cfg_ok',
               'inside a closure an allowed access yields bytes [off, off+s) of the image as one little-endian number however it is split'),
              ('C13_refusal_in_closure', 'Proofs/ConfigProofs.v', 'eval_read_cfg_refused', None),
              ('C13_users',
               'Proofs/ConfigProofs.v',
               'users_untorn',
               'block capacity, socket CID, console size, MAC address and 9P mount tag: each is the closure of its driver on one exposed image'),
              ('C13_user_capacity_cid',
               'Proofs/ConfigProofs.v',
               'eval_lo_hi',
               'blk capacity / vsock guest_cid on one image = the 64-bit little-endian number at bytes 0..7'),
              ('C13_user_console_size', 'Proofs/ConfigProofs.v', 'eval_console_size', 'columns = bytes 0..1, rows = bytes 2..3 of the same image'),
              ('C13_user_mac', 'Proofs/ConfigProofs.v', 'eval_net_mac', 'the six bytes 0..5 of one image, whatever the 4+2 / 2+4 split'),
              ('C13_user_mount_tag',
               'Proofs/ConfigProofs.v',
               'eval_9p_tag',
               'tag_len = bytes 0..1, then tag_len bytes of the SAME image from byte 2, accepted iff well-formed UTF-8; 0 -> InvalidParam'),
              ('C13_untorn_monitor_meaning',
               'Proofs/ConfigProofs.v',
               'untorn_b_sound',
               'what a true untorn monitor (kind 1311) means on ANY observed event list'),
              ('C13_snapshot_monitor_meaning', 'Proofs/ConfigProofs.v', 'some_snapshot_b_sound', 'kind 1312'),
              # ---- VirtIOInput configuration queries (Model/InputCfg.v against Model/InputCfgSpec.v = VirtIO 1.2 5.8.4 / 5.8.5)
              ('C13_input_conform', 'Proofs/InputCfgProofs.v', 'ic_query_conform',
               'query_config_select / name / serial_number / ids / prop_bits / ev_bits / abs_info (with the repair), every transport and window, both profiles, EVERY answer stream of the device (size byte included): the accesses are a prefix of write select, write subsel, read size, read u[0], u[1], ... with the caller\'s values, at most min(size, 128) data bytes, all inside the 136-byte structure and inside the window; the value returned is the specification\'s for the size and bytes the device answered'),
              ('C13_input_full_window', 'Proofs/InputCfgProofs.v', 'ic_query_full_window',
               'on a window that holds the structure no transport error is possible: the result IS spec_query_result of (size answered, data bytes answered): strings = the bytes up to size (IoError unless UTF-8), bitmaps = the bytes up to size, ids / abs_info = the little-endian fields at their positions (IoError unless size is 8 / 20), size > 128 = IoError without any data read'),
              ('C13_input_access_monitor_meaning', 'Proofs/InputCfgProofs.v', 'ics_protocol_sound',
               'what a true monitor 1321 means on ANY observed access list: nothing is read before select and subsel are written with the caller\'s values, every access lies inside the 136 bytes at a field of 5.8.4, at most min(size, 128) bytes of u are read: bytes 8 .. 8+k-1 in order'),
              ('C13_input_value_monitor_meaning', 'Proofs/InputCfgProofs.v', 'ics_result_sound',
               'what a true monitor 1322 means: no panic; a transport error, or the specification\'s result for the size and bytes the device answered, a value only after exactly its bytes were read'),
              ('C13_input_data_loop', 'Proofs/InputCfgProofs.v', 'bytes_run',
               'the data loop for EVERY window: single-byte reads of u[i], u[i+1], ... each inside the window, never more than n; it ends with the bytes answered or at the first byte the window does not hold, without touching it'),
              ('C13_input_writes', 'Proofs/InputCfgProofs.v', 'writes_run', 'select at offset 0, then subsel at offset 1, one byte each; a refused write stops the query'),
              ('C13_input_select_prefix_refuted', 'Proofs/InputCfgProofs.v', 'ic_select_prefix_refuted',
               'the code before the repair: a device announcing size 255 makes query_config_select (slice of 255 bytes) read offsets 136 .. 262, beyond the structure, and hand those bytes out as data; the repaired code answers IoError after the size read'),
              ('C13_input_prefix_partial', 'Proofs/InputCfgProofs.v', 'ic_query_prefix_partial',
               'what was true before the repair: whenever the device announces at most 128 bytes the old code is the repaired one, access for access'),
              ('C13_input_untorn_refuted', 'Proofs/InputCfgProofs.v', 'ic_untorn_refuted',
               'OBSERVATION: size and data are not read under one configuration generation: name() against a device that installs a new image (generation bumped) before the read of u[1] returns "ad", a value neither image ("ab", "cd") yields; no generation read is made'),
              ('C13_input_consistent_untorn', 'Proofs/InputCfgProofs.v', 'ic_consistent_untorn',
               'what the proposed (not applied) repair would give: the same reads inside read_consistent are the reads evaluated on ONE exposed image, for every query, device state and schedule (instance of C13_untorn)'),
              ('C13_input_consistent_on_witness', 'Proofs/InputCfgProofs.v', 'ic_consistent_on_witness', None),
              ('C13_input_nonvacuous', 'Proofs/InputCfgProofs.v', 'ic_query_nonvacuous',
               'concrete runs: name, non-UTF-8 name, ids, ids with size 7, abs_info on PCI, ev_bits with size 0, sizes 128 / 129, a window ending inside the union, PCI without the capability')],
 'examples': ['Example C13_bounds_nonvacuous :\n'
              '  let w := mkWin true 8 0x1100 in\n'
              '  6 <= MAX_T /\\ win_ok TModern w /\\ w_base w mod 4 = 0 /\\ w_base w + spec_window TModern w < two64 /\\\n'
              '  cfg_read Debug TModern w 6 1 0 [0x44332211; 0x6655] =\n'
              '    (Ok 0x665544332211, [mkCA 0 0 4 0x44332211; mkCA 0 4 2 0x6655]) /\\\n'
              '  cfg_read Release TModern w 6 1 2 [0x2211; 0x66554433] =\n'
              '    (Ok 0x665544332211, [mkCA 0 2 2 0x2211; mkCA 0 4 4 0x66554433]) /\\\n'
              '  cfg_read Debug TModern w 6 1 3 [] = (Err EConfigSpaceTooSmall, []) /\\\n'
              '  cfg_read Debug TPci (mkWin false 0 0) 4 4 0 [] = (Err EConfigSpaceMissing, []) /\\\n'
              '  cfg_read Release TModern w 4 4 (two64 - 4) [] = (Err EConfigSpaceTooSmall, []).\n'
              'Proof. exact cfg_read_conform_nonvacuous. Qed.',
              'Example C13_untorn_nonvacuous :\n'
              '  let w := mkWin true 8 0x1100 in\n'
              '  let p := p_lo_hi Debug TModern w in\n'
              '  let d := mkDev (img 1) 0xffffffff in\n'
              '  let sc := [[]; []; [img 2]] in\n'
              '  d_gen d < gen_mod TModern /\\\n'
              '  Forall (fun n => n < gen_mod TModern) (attempt_updates 3 TModern p d sc) /\\\n'
              '  attempt_updates 3 TModern p d sc = [1; 0] /\\\n'
              '  exists tr, read_consistent 3 TModern p d sc = Some (Ok [0x200000002], mkDev (img 2) 0, [], tr) /\\\n'
              '             eval p (img 2) = Ok [0x200000002] /\\ eval p (img 1) = Ok [0x100000001].\n'
              'Proof. exact read_consistent_untorn_nonvacuous. Qed.']}


# ---------------------------------------------------------------------------------------------------------------------
# appended: configuration access of the x86-64 pKVM hypercall PCI transport (HypPciTransport::read_config_space /
# write_config_space): Model/HypPci.v, Proofs/HypPciProofs.v.  Its modules are imported BEFORE Model.Config so that the
# names of the existing statements keep their meaning.
PROPS_ENTRY['models'] += ['Model/HypPci.v']
PROPS_ENTRY['trusted_extra'] = [x for x in PROPS_ENTRY['trusted_extra'] if not x.startswith('not executed: the x86-64')] + ['x86-64 hypercall transport (C13_hyp_*): read_config_space / write_config_space of HypPciTransport run on the real code with hyp_io_read / '
 'hyp_io_write served by the back end registered through src/verif.rs (corpus/proposals/hyp_hook.diff); ONE hypercall of size_of::<T>() bytes per '
 'access (no splitting), guarded by the two assertions of HypIoRegion; read_consistent over the hypercall transport is not separately exercised (it '
 'is the provided trait method; read_config_generation is C11_hyp_generation)']
PROPS_ENTRY['assumptions'] += ['x86-64 hypercall transport: offsets are usize (< 2^64); the device-specific region lies inside the physical address space (paddr + size <= 2^64, '
 'size < 2^64: every region HypPciTransport::new builds from a well-formed BAR, C11_hyp_windows); a zero-sized T at offset = size of a region ending '
 'exactly at 2^64 is excluded (cfg_fits)']
SPEC_ENTRY['imports'] = ['Model.PciBus', 'Model.Pci', 'Model.PciSpec', 'Model.HypPci', 'Proofs.PciProofs', 'Proofs.HypPciProofs'] + SPEC_ENTRY['imports']
SPEC_ENTRY['theorems'] += [('C13_hyp_bounds_read',
  'Proofs/HypPciProofs.v',
  'hyp_cfg_read_complete',
  'x86-64 hypercall transport, read_config_space::<T>, every offset < 2^64, size, alignment, region, both profiles: Ok iff offset + size <= region '
  'size AS NATURAL NUMBERS (no wrap), then exactly ONE read hypercall of size bytes at paddr + offset; else ConfigSpaceTooSmall / ConfigSpaceMissing '
  'with NO hypercall; panics only for the documented assertions (align_of > 4, misaligned offset, size_of > 8), before any hypercall'),
 ('C13_hyp_bounds_write', 'Proofs/HypPciProofs.v', 'hyp_cfg_write_complete', None),
 ('C13_hyp_bounds',
  'Proofs/HypPciProofs.v',
  'hyp_cfg_bounds',
  'the property in its own words: succeeds only if wholly inside, touching exactly the bytes [offset, offset + size) of the region; otherwise the '
  'error and no hypercall; inside + aligned + at most eight bytes does succeed'),
 ('C13_hyp_missing', 'Proofs/HypPciProofs.v', 'hyp_cfg_missing', None),
 ('C13_hyp_conforms',
  'Proofs/HypPciProofs.v',
  'hyp_cfg_conforms',
  'the monitor hyp_cfg_conform_b (kind 1362, evaluated on the implementation) holds of the model'),
 ('C13_hyp_nonvacuous', 'Proofs/HypPciProofs.v', 'hyp_cfg_nonvacuous', None)]


# ---------------------------------------------------------------------------------------------------------------------
# appended: multi-field reads over the x86-64 pKVM hypercall transport (Proofs/HypConfigProofs.v).  HypPciTransport does not override
# Transport::read_consistent: the provided method runs with the transport's one-byte generation read; that is the PCI case of
# Model/Config.v.  Imported LAST (it only adds names).
PROPS_ENTRY['trusted_extra'] = [x.replace('; read_consistent over the hypercall transport is not separately exercised (it '
 'is the provided trait method; read_config_generation is C11_hyp_generation)', '') for x in PROPS_ENTRY['trusted_extra']] + [
 'x86-64 hypercall transport, multi-field reads (C13_hyp_read_consistent_*): the five drivers and transport.read_consistent run on the real '
 'HypPciTransport (directly and as SomeTransport::HypPci) with hyp_io_read served by the emulated device of scen/c13.rs: every single hypercall read '
 '(generation byte at offset 21 of the common configuration region, device-specific region) is a slot of the update schedule; monitors 1311 / 1312 with '
 'the PCI-case closure (C13_hyp_read_is_pci_read, C13_user_mac: the value on one image does not depend on how the access is split); correspondence '
 'kind 1310 for closures of 1/2/4/8-byte fields']
PROPS_ENTRY['assumptions'] += ['x86-64 hypercall transport, multi-field reads: the device bumps its one-byte config_generation with every configuration change and fewer than 256 '
 'changes fall inside one attempt of the loop (as for PCI); the device-specific region length is a multiple of four in the correspondence lines (the PCI '
 'transport counts words, the hypercall transport bytes: the model window is length / 4 words)']
SPEC_ENTRY['imports'] = SPEC_ENTRY['imports'] + ['Proofs.HypConfigProofs']
SPEC_ENTRY['theorems'] += [
 ('C13_hyp_read_consistent_untorn',
  'Proofs/HypConfigProofs.v',
  'hyp_read_consistent_untorn',
  'x86-64 hypercall transport (instance of C13_untorn for the one-byte generation at offset 21 of the common configuration region): for EVERY closure, '
  'every device state and EVERY schedule of configuration updates placed before individual hypercall reads, with fewer than 256 updates inside each '
  'attempt, the value read_consistent returns is the closure evaluated on ONE configuration image the device exposed, still exposed on return'),
 ('C13_hyp_read_consistent_terminates', 'Proofs/HypConfigProofs.v', 'hyp_read_consistent_terminates',
  'and the loop ends once the device stops changing its configuration: there is NO bound on the number of attempts'),
 ('C13_hyp_generation_is_pci_generation',
  'Proofs/HypConfigProofs.v',
  'hyp_generation_is_pci_generation',
  'read_config_generation of the hypercall transport IS the generation read of the PCI case of Model/Config.v: one byte at offset 21 of the common '
  'configuration region, a value below 2^8'),
 ('C13_hyp_read_is_pci_read',
  'Proofs/HypConfigProofs.v',
  'hyp_cfg_read_is_pci_read',
  'read_config_space::<T> of the hypercall transport for size_of::<T>() in {1, 2, 4, 8} IS the PCI case\'s read on the window of length / 4 words: same '
  'refusals, one access of the same width at the same offset, same value'),
 ('C13_hyp_bounded_retry_refuted',
  'Proofs/HypConfigProofs.v',
  'bounded_retry_refuted',
  'a loop that gives up after four attempts and returns the last value (seeded change C13-m19) returns, with one resize in each of four attempts, a '
  'capacity the device never exposed (low half of image 4, high half of image 5): the snapshot monitor 1312 is false on it; the real loop returns image 5')]
