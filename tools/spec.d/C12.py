"""C12: check configuration (PROPS_ENTRY, consumed by ./check and gen_manifest.py) and the list of lemmas that make up
the property file (SPEC_ENTRY, consumed by tools/mkprops.py)."""
PROPS_ENTRY = {'models': ['Model/PciBus.v'],
 'design_ref': 'DESIGN.md 3 C12, 4 F5a/F5b; F11 (size = lowest writable address bit)',
 'assumptions': ['the PCI function behind ConfigurationAccess behaves like the reference function of Model/PciBus.v: 16 read/write command bits, RW1C status, '
                 'BAR registers = (hard-wired mask, content) with standard write semantics, other registers plain storage',
                 'well-formed BAR = the writable address bits are a contiguous run [k, m): bits below k hard-wired (type bits as encoded, address bits zero), '
                 'bits >= m hard-wired zero; I/O 2 <= k < m <= 32 (m = 16: 16-bit I/O decoder, PCI 3.0 6.2.5.1), memory 32-bit / below 1 MiB 4 <= k < m <= 32, '
                 'memory 64-bit 4 <= k < m <= 64 over both registers; size = 2^k, address < 2^m. Outside: masks whose writable address bits are not contiguous '
                 '(holes), for which "the lowest writable address bit" is still what the repaired code returns but no theorem is stated',
                 'well-formed capability list = offsets in [64,256), 4-aligned, acyclic, ended by a pointer that is 0 / < 64 / misaligned; a cyclic list makes '
                 'the real iterator loop forever (model: out of fuel) and is never given to the real code',
                 'bus and register_offset are u8 by type; device/function validity and alignment are the assertions of cam_offset'],
 'trusted_extra': ['harness twin of the reference PCI function (harness/src/scen/c12.rs RefFn) and its access log; monitor 1253 re-plays the logged writes on '
                   'the Coq reference function, so a twin that diverged from it would be noticed there or in the 1210 correspondence']}

SPEC_ENTRY = {'title': 'PCI bus helpers size BARs without side effects and address config space uniquely',
 'imports': ['Model.PciBus', 'Proofs.PciBusProofs'],
 'theorems': [('C12_bar_info',
               'Proofs/PciBusProofs.v',
               'bar_info_correct',
               'code as it is now (F5a, F5b, F11 repaired), full statement: for EVERY well-formed BAR (I/O, memory 32-bit / below 1 MiB / 64-bit over two '
               'registers, prefetchable or not, writable address bits any contiguous run [k, m) with everything below k and from m up hard-wired - full '
               'decoders m = 32/64, 16-bit I/O decoders, 20-bit below-1-MiB decoders, 64-bit BARs with fewer address lines -, any size-aligned address below '
               '2^m, any slot where it fits, unimplemented = all bits hard-wired zero; the other five registers arbitrary) and EVERY command value c < 2^16: '
               'the result is (kind, address, prefetchable, 2^k) (None for unimplemented), the function (command, status, all six BARs, every other register) '
               'is exactly as before, every all-ones BAR write is issued with both decode bits clear, and replaying the trace no BAR differs from its original '
               'content while decoding is enabled'),
              ('C12_bar_info_no_side_effects',
               'Proofs/PciBusProofs.v',
               'bar_info_no_side_effects',
               'repaired code: probing ANY of the six registers of ANY function (arbitrary masks and contents, also 64-bit type bits in slot 5) leaves the '
               'function exactly as it was and never exposes a sizing pattern to decoding'),
              ('C12_bars',
               'Proofs/PciBusProofs.v',
               'bars_correct',
               'repaired code: bars() on a function whose six registers are any sequence of well-formed BARs reports every BAR as it is (second register of a '
               '64-bit BAR absent), leaves the function unchanged and never writes a sizing pattern with decoding enabled'),
              ('C12_bar_info_f11_prefix_refuted',
               'Proofs/PciBusProofs.v',
               'bar_info_f11_prefix_refuted',
               "F11, code before the repair (two's complement of the whole mask): a well-formed I/O BAR with a 16-bit decoder, 0x100 bytes at 0xc000 (mask "
               '0xffff00ff), is reported with size 0xffff0100 instead of 0x100; the code as it is now reports 0x100'),
              ('C12_bar_info_f11_prefix_refuted_mem',
               'Proofs/PciBusProofs.v',
               'bar_info_f11_prefix_refuted_mem',
               'F11 on memory BARs: a below-1-MiB BAR with 20 address bits and a 64-bit BAR with 40 address lines are mis-sized by the old computation and '
               'right now'),
              ('C12_bar_info_f11_prefix_partial',
               'Proofs/PciBusProofs.v',
               'bar_info_f11_prefix_partial',
               'code after F5a/F5b but before F11, strongest true statement: the full conclusion of C12_bar_info for every well-formed BAR with a FULL decoder '
               '(all address bits >= k writable)'),
              ('C12_bar_info_prefix_refuted_slot5',
               'Proofs/PciBusProofs.v',
               'bar_info_prefix_refuted_slot5',
               'F5a, code before the repair: BAR5 with the 64-bit type bits, command 0x0003: InvalidBarType is returned with command = 0 and BAR5 = 0xffff0004 '
               'left behind'),
              ('C12_bar_info_prefix_refuted_cmd',
               'Proofs/PciBusProofs.v',
               'bar_info_prefix_refuted_cmd',
               'F5b, code before the repair: command 0x0083 comes back as 0x0003 (bit 7 has no named flag and is dropped by from_bits_truncate)'),
              ('C12_bar_info_prefix_partial',
               'Proofs/PciBusProofs.v',
               'bar_info_prefix_partial',
               'code before all repairs, what IS true for every well-formed BAR with a full decoder (m = 32 / 64) and every command: '
               'kind/address/prefetchable/size correct, BARs and status restored, sizing never decoded; the command register ends as cmd_after_prefix c = (c '
               'if decoding was off, else c & 0x077F)'),
              ('C12_bar_info_prefix_partial_restores',
               'Proofs/PciBusProofs.v',
               'bar_info_prefix_partial_restores',
               'code before all repairs: the full conclusion under the extra hypotheses "full decoder", "command within the named flag bits or decoding '
               'already off" (and, via placed, a 64-bit BAR starting below slot 5)'),
              ('C12_bar_info_fixed_on_witnesses',
               'Proofs/PciBusProofs.v',
               'bar_info_fixed_on_witnesses',
               'the repaired code on the F5a / F5b refutation witnesses'),
              ('C12_reference_restore',
               'Proofs/PciBusProofs.v',
               'slot_write_restore',
               'reference function: writing anything and then the original content restores a BAR register, whatever its hard-wired bits'),
              ('C12_cam',
               'Proofs/PciBusProofs.v',
               'cam_offset_ok',
               'both mechanisms, under exactly what the code asserts (device < 32, function < 8, 4-aligned register; bus and register are u8, the ECAM formula '
               'is covered up to 4096): the offset is the mixed-radix sum ((bus*256 + device*8 + function) * {256|4096} + register), inside the window and '
               '4-aligned; proved from lor-of-disjoint-ranges = + lemmas'),
              ('C12_cam_injective',
               'Proofs/PciBusProofs.v',
               'cam_offset_injective',
               'distinct (bus, device, function, register) tuples get distinct offsets, both mechanisms'),
              ('C12_cam_refuses',
               'Proofs/PciBusProofs.v',
               'cam_offset_refuses',
               'it panics exactly on invalid device/function numbers or a misaligned register'),
              ('C12_enumerate',
               'Proofs/PciBusProofs.v',
               'enumerate_bus_exact',
               'for every population (config-read oracle): the collected iterator is exactly the positions 0..255 = device*8+function whose first word is not '
               '0xffffffff, in increasing (= lexicographic) order, each with its decoded identity; the multi-function bit is not consulted'),
              ('C12_enumerate_mem',
               'Proofs/PciBusProofs.v',
               'enumerate_bus_mem',
               'membership form: (device, function) is reported iff device < 32, function < 8 and it answers'),
              ('C12_enumerate_fields',
               'Proofs/PciBusProofs.v',
               'decode_info_fields',
               'vendor/device id, class, subclass, prog-if, revision, header type come from the right bit ranges'),
              ('C12_caps',
               'Proofs/PciBusProofs.v',
               'capabilities_exact',
               'for every linked list laid out in config space with offsets in [64,256), 4-aligned, ended by a pointer that is 0 / < 64 / misaligned: the '
               'iterator yields exactly the list, in order, as (offset, id, private_header), and terminates (fuel >= length)'),
              ('C12_caps_nodup', 'Proofs/PciBusProofs.v', 'chain_offsets_nodup', 'such a list is acyclic: its offsets are pairwise distinct'),
              ('C12_caps_length', 'Proofs/PciBusProofs.v', 'chain_length_bound', 'hence at most 48 entries'),
              ('C12_caps_fuel48',
               'Proofs/PciBusProofs.v',
               'capabilities_fuel48',
               'fuel 48 suffices for every well-formed list: the out-of-fuel case is unreachable')],
 'examples': ['Example C12_bar_info_nonvacuous :\n'
              '  let d := mkFn 65535 0 [dslot; dslot; mkSlot 4 ones32 12; mkSlot 5 3 8; dslot; dslot] [] in\n'
              '  lenN (f_bars d) = 6 /\\ f_cmd d < 65536 /\\ spec_ok (SMem64 true 34 64 34359738368) /\\ placed d 2 (SMem64 true 34 64 34359738368)\n'
              '  /\\ fst (fst (bar_info Debug d 2)) = Ok (Some (BarMem 2 true 34359738368 17179869184)).\n'
              'Proof. cbv zeta. vm_compute. repeat split; try reflexivity; intros H; discriminate H. Qed.',
              'Example C12_bar_info_io16_nonvacuous :\n'
              '  lenN (f_bars wit_io16) = 6 /\\ f_cmd wit_io16 < 65536 /\\ spec_ok (SIo 8 16 49152) /\\ placed wit_io16 0 (SIo 8 16 49152)\n'
              '  /\\ fst (fst (bar_info Debug wit_io16 0)) = Ok (Some (BarIO 49152 256)).\n'
              'Proof. vm_compute. repeat split; try reflexivity; intros H; discriminate H. Qed.',
              'Example C12_bars_nonvacuous :\n'
              '  let L := [SMem 0 true 12 32 4261412864; SIo 8 16 49152; SMem64 true 34 48 34359738368; SUnimpl; SMem 1 false 16 20 655360] in\n'
              '  let d := mkFn 1031 16 (layout_slots L) [] in\n'
              '  lenN (f_bars d) = 6 /\\ Forall spec_ok L /\\ fst (fst (bars Debug d)) = Ok (layout_truth L) /\\ snd (fst (bars Debug d)) = d.\n'
              'Proof. cbv zeta. split; [reflexivity|]. split; [|vm_compute; split; reflexivity].\n'
              '  repeat (apply Forall_cons; [vm_compute; repeat split; try reflexivity; intros H; discriminate H|]). apply Forall_nil. Qed.',
              'Example C12_cam_nonvacuous : cam_offset true 255 31 7 252 = Ok 268431612 /\\ cam_offset false 255 31 7 252 = Ok 16777212.\n'
              'Proof. vm_compute. split; reflexivity. Qed.',
              'Example C12_caps_nonvacuous :\n'
              '  let rdc := fun off => if off =? 4 then 1048576 else if off =? 52 then 67 else if off =? 64 then 9 + 256 * 200 + 65536 * 4660 else if off =? '
              '200 then 5 + 256 * 2 else 0 in\n'
              '  chain rdc [(64, 9, 4660); (200, 5, 0)] 2 /\\ cap_stop 2 /\\ capabilities 48 rdc = ([(64, 9, 4660); (200, 5, 0)], true).\n'
              'Proof. cbv zeta. vm_compute. repeat split; try reflexivity; try (intros H; discriminate H). left. reflexivity. Qed.',
              'Example C12_cyclic_list_out_of_fuel :\n'
              '  let rdc := fun off => if off =? 4 then 1048576 else if off =? 52 then 64 else if off =? 64 then 9 + 256 * 80 else if off =? 80 then 9 + 256 * '
              '64 else 0 in\n'
              '  snd (capabilities 64 rdc) = false.\n'
              'Proof. vm_compute. reflexivity. Qed.']}


# ---------------------------------------------------------------------------------------------------------------------
# appended: the x86-64 pKVM hypercall transport under C12 (Model/HypPci.v, Proofs/HypPciProofs.v sections 6 and 7): HypCam addresses
# configuration space uniquely for EVERY base (aligned to the window or not), and the probing done by HypPciTransport::new leaves the
# function untouched.  Its modules are imported BEFORE Model.PciBus so that the names of the existing statements keep their meaning.
PROPS_ENTRY['models'] += ['Model/HypPci.v']
PROPS_ENTRY['assumptions'] += ['HypCam (C12_hyp_cam_*): the caller\'s contract of HypCam::new is that the CAM window lies inside the physical address space '
 '(phys_base + 16 MiB / 256 MiB <= 2^64); phys_base is otherwise arbitrary (page-aligned bases that are not aligned to the window size included); '
 'bus and register_offset are u8 by type',
 'HypPciTransport::new (C12_hyp_probe_restores): the function behind ConfigurationAccess is the reference function (six BAR registers of 32 bits, 16-bit '
 'command: fn_ok); every outcome of new (transport, error, panic) is covered; the capability list is the one new walks (a cyclic list never ends on the '
 'real code and is excluded as in C11)']
PROPS_ENTRY['trusted_extra'] += ['hypercall back end of the harness (scen/c11_hyp.rs): the CAM window it serves is [phys_base, phys_base + window) for bases that are '
 'not window-aligned too; a hypercall outside it is answered from the BAR answer queue and shows up in the observation as an address outside the window '
 '(monitor 1257 judges the ADDRESS the real code passed to hyp_io_read / hyp_io_write, not what the back end made of it)']
SPEC_ENTRY['imports'] = ['Model.Pci', 'Model.PciSpec', 'Model.HypPci', 'Proofs.PciProofs', 'Proofs.HypPciProofs'] + SPEC_ENTRY['imports']
SPEC_ENTRY['theorems'] += [
 ('C12_hyp_cam_injective',
  'Proofs/HypPciProofs.v',
  'hyp_cam_injective',
  'x86-64 hypercall transport, HypCam::read_word / write_word, both mechanisms, EVERY phys_base with phys_base + window <= 2^64 (aligned to the window '
  'size or not): the hypercall of a valid request goes to phys_base + ((bus*256 + dev*8 + fn) * stride + reg), the sum IN N (never `|`), four bytes wholly '
  'inside [phys_base, phys_base + window), and two valid requests with the same address are the same (bus, device, function, register) (by C12_cam / '
  'C12_cam_injective)'),
 ('C12_hyp_cam_monitor_meaning',
  'Proofs/HypPciProofs.v',
  'hyp_cam_addrs_b_sound',
  'what a true monitor 1257 means on ANY list of observed requests: exact address, inside the window, one four-byte hypercall per valid request, invalid '
  'requests refused without a hypercall, distinct valid requests at distinct addresses'),
 ('C12_hyp_cam_conforms',
  'Proofs/HypPciProofs.v',
  'hyp_cam_addrs_conform',
  'the monitor (kind 1257, evaluated on the addresses the real code passes to the hypercalls) holds of the model for every list of requests, reads and '
  'writes, both mechanisms, every base'),
 ('C12_hyp_cam_rejects_or', 'Proofs/HypPciProofs.v', 'hyp_cam_addrs_b_rejects_or',
  'the monitor is false on phys_base | offset (seeded change C12-m18) for ECAM at 0x3_9800_0000, bus 0x80, and true on phys_base + offset'),
 ('C12_hyp_cam_nonvacuous', 'Proofs/HypPciProofs.v', 'hyp_cam_addrs_nonvacuous', None),
 ('C12_hyp_probe_restores',
  'Proofs/HypPciProofs.v',
  'hyp_new_probe_restores',
  'HypPciTransport::new (up to four bar_info probes between configuration reads) on EVERY function with six 32-bit BAR registers and EVERY 16-bit '
  'command value (decoding enabled or not, bits without a named flag set or not), whatever it returns: the function is exactly as it was (command '
  'register and all six BAR registers) and no all-ones sizing pattern is written to a BAR register while address decoding is enabled (corollary of '
  'C11_hyp_new_refines and C12_bar_info_no_side_effects)'),
 ('C12_hyp_probe_nonvacuous', 'Proofs/HypPciProofs.v', 'hyp_new_probe_nonvacuous',
  'command 0xf887: three probes, each clears exactly the decode bits (0xf884) and puts 0xf887 back')]


# ---------------------------------------------------------------------------------------------------------------------
# appended: the C12 monitors of Extract/PciBusIO.v are proved to mean what they stand for (Proofs/PciBusMonProofs.v): MEANING = what a
# true verdict states on ANY input list; HOLDS OF MODEL = the line built from the model's own behaviour is accepted.
SPEC_ENTRY['imports'] += ['Extract.PciBusIO', 'Proofs.PciBusMonProofs']
SPEC_ENTRY['theorems'] += [
 ('C12_monitor_1250_meaning', 'Proofs/PciBusMonProofs.v', 'mon_truth_meaning',
  'monitor 1250 on any line [slot; six BAR registers; observed result]: wherever the registers at that slot describe a BAR (slot_truth: kinds, hard-wired bits, contents; size = 2^(lowest writable address bit), both registers of a 64-bit BAR), the observed result is Ok of exactly that'),
 ('C12_monitor_1250_meaning_placed', 'Proofs/PciBusMonProofs.v', 'mon_truth_meaning_placed',
  'the same in the terms of C12_bar_info: for every well-formed BAR placed at the slot a true verdict says the call returned Ok(kind, address, prefetchable, 2^k), None for an unimplemented register'),
 ('C12_monitor_1250_decodes', 'Proofs/PciBusMonProofs.v', 'mon_truth_decodes', 'every list monitor 1250 accepts is such a line'),
 ('C12_monitor_1250_holds_of_model', 'Proofs/PciBusMonProofs.v', 'mon1250_holds_of_model',
  'monitor 1250 holds of bar_info of the model on every function with honest kinds, every slot, every command value, both profiles'),
 ('C12_monitor_1251_meaning', 'Proofs/PciBusMonProofs.v', 'mon_cmd_meaning', 'monitor 1251: the command register after the call is the one before'),
 ('C12_monitor_1252_meaning', 'Proofs/PciBusMonProofs.v', 'mon_bars_meaning', 'monitor 1252: the six BAR registers after the call are the six before'),
 ('C12_monitor_1251_1252_holds_of_model', 'Proofs/PciBusMonProofs.v', 'mon1251_1252_hold_of_model',
  'monitors 1251 / 1252 hold of bar_info of the model on ANY function and register (from C12_bar_info_no_side_effects)'),
 ('C12_monitor_1253_meaning', 'Proofs/PciBusMonProofs.v', 'mon_decode_meaning',
  'monitor 1253 on any line [function before; n; n accesses]: (a) every all-ones write to a BAR register was issued with both decode bits clear, (b) replaying the writes on the reference function all six BARs hold their original content after every access after which decoding is enabled, (c) only the command register and the six BAR registers are written'),
 ('C12_monitor_1253_decodes', 'Proofs/PciBusMonProofs.v', 'mon_decode_decodes', None),
 ('C12_bar_info_writes_only_cmd_bars', 'Proofs/PciBusMonProofs.v', 'bar_info_writes_only_cmd_bars',
  'model: bar_info writes nothing but the command register and BAR registers (clause (c), not stated before)'),
 ('C12_monitor_1253_holds_of_model', 'Proofs/PciBusMonProofs.v', 'mon1253_holds_of_model',
  'monitor 1253 holds of the access trace of the model for ANY function and register'),
 ('C12_monitor_1254_meaning', 'Proofs/PciBusMonProofs.v', 'mon_bars_truth_meaning',
  'monitor 1254: reading the layout from slot 0 while the registers describe BARs, every BAR is reported in its own slot exactly as it is and the slot after a 64-bit BAR is reported absent'),
 ('C12_monitor_1254_decodes', 'Proofs/PciBusMonProofs.v', 'mon_bars_truth_decodes', None),
 ('C12_monitor_1254_holds_of_model', 'Proofs/PciBusMonProofs.v', 'mon1254_holds_of_model',
  'monitor 1254 holds of bars() of the model on every sequence of well-formed BARs'),
 ('C12_monitor_1205_meaning', 'Proofs/PciBusMonProofs.v', 'mon_cam_meaning',
  'monitor 1205, valid request: served, offset = ((bus*32 + device)*8 + function) * stride + register exactly, inside the window, 4-aligned'),
 ('C12_monitor_1205_meaning_invalid', 'Proofs/PciBusMonProofs.v', 'mon_cam_meaning_invalid', 'any other request: refused, or an aligned offset inside the window'),
 ('C12_monitor_1205_injective', 'Proofs/PciBusMonProofs.v', 'mon_cam_injective', 'two accepted valid requests with the same offset are the same (bus, device, function, register)'),
 ('C12_monitor_1205_holds_of_model', 'Proofs/PciBusMonProofs.v', 'mon1205_holds_of_model', 'monitor 1205 holds of cam_offset for every request, both mechanisms'),
 ('C12_monitor_1207_meaning', 'Proofs/PciBusMonProofs.v', 'mon_cam_all_meaning', 'monitor 1207: all 256x32x8x64 tuples, all offsets distinct, none outside the window, misaligned or refused'),
 ('C12_monitor_1255_meaning', 'Proofs/PciBusMonProofs.v', 'mon_enum_meaning',
  'monitor 1255: every reported item is a listed function that answers, with vendor / device / class / subclass / prog-if / revision / header type from the right bit ranges, in strictly increasing (device, function) order, and there are as many items as listed functions that answer'),
 ('C12_monitor_1255_exact', 'Proofs/PciBusMonProofs.v', 'mon_enum_exact',
  'hence, for a population listing no (device, function) twice, every function present is reported: exactly the functions present'),
 ('C12_monitor_1255_decodes', 'Proofs/PciBusMonProofs.v', 'mon_enum_decodes', None),
 ('C12_monitor_1255_holds_of_model', 'Proofs/PciBusMonProofs.v', 'mon1255_holds_of_model',
  'monitor 1255 holds of enumerate_bus of the model over the read oracle of EVERY population that lists no (device, function) twice (from C12_enumerate and a counting argument)'),
 ('C12_monitor_1256_meaning', 'Proofs/PciBusMonProofs.v', 'mon_caps_meaning', 'monitor 1256: the iterator yielded exactly the list laid out, each capability once, in order'),
 ('C12_monitor_1256_decodes', 'Proofs/PciBusMonProofs.v', 'mon_caps_decodes', None),
 ('C12_monitor_1256_holds_of_model', 'Proofs/PciBusMonProofs.v', 'mon1256_holds_of_model', 'monitor 1256 holds of the capability iterator of the model on every well-formed list (from C12_caps)')]
