"""C19: check configuration (PROPS_ENTRY, consumed by ./check and gen_manifest.py) and the list of lemmas that make up
the property file (SPEC_ENTRY, consumed by tools/mkprops.py)."""
PROPS_ENTRY = {'models': ['Model/Queue.v', 'Model/Owning.v', 'Model/Input.v', 'Model/Sound.v', 'Model/Vsock.v'],
 'design_ref': 'DESIGN.md 3 C19',
 'assumptions': ['VirtIOInput (Model/Input.v): the bytes a buffer holds after the copy-back at unshare are an argument of the model step (read by the harness from the device-side buffer before the call); that the platform copies exactly these bytes back is C04 / the instrumented platform. The used ring is read twice by pop_pending_event (peek_used, then pop_used): both views are arguments, the harness device never changes them in between, so the refusal branch of pop_used is theorem-only',
                 'VirtIOInput hands out the whole 8-byte struct whatever length the device recorded (input_pop_any_len); a device recording fewer than 8 bytes is outside the device specification, the tail of the event is then what the platform left in the buffer (Example input_len_ignored) - recorded as an observation, not as a violation',
                 'the check also runs the sound notification queue (scenario c20snd-notifications-*, monitor 2056) and read_header_and_body of the socket receive path (kind 1711, monitor 1952)',
                 'the handler passed to poll returns normally (a panicking handler loses the buffer, as documented in the code)',
                 'OwningQueue: bytes are not part of the Coq model: delivery of exactly the device-written bytes is checked on the implementation by the monitors (kinds '
                 '1950/1951) and follows from C04 (copy-back at unshare)'],
 'trusted_extra': ['VirtIOSound::latest_notification and the vsock rx queue are tied by monitors / their own properties; the OwningQueue model (kinds 1900/1901) and the VirtIOInput model (kinds 1960 new, 1961 pop_pending_event, 1962 query_config_select) are tied line by line; monitors 1970 / 1971 evaluate the clauses of input_pop_stocked / input_new_stocked on device memory, the platform log and the transport log (descriptor named by the new ring entry = live share of event_buf[used id], available index moved by one, notification only of queue 0 and whenever VirtIO 2.7.10 requires one)']}

SPEC_ENTRY = {'title': 'Event queues deliver each device event once, in order, and stay fully stocked',
 'imports': ['Model.Queue', 'Proofs.QueueInv', 'Proofs.QueueReach', 'Proofs.QueueProps', 'Model.Owning', 'Proofs.OwningProofs', 'Model.Input', 'Proofs.InputProofs'],
 'theorems': [('C19_new_stocked',
               'Proofs/OwningProofs.v',
               'owning_new_stocked',
               'OwningQueue::new on a fresh queue of any size 2^k: token i for buffer i (the assert never fires), and afterwards every descriptor is posted'),
              ('C19_poll_stocked',
               'Proofs/OwningProofs.v',
               'poll_stocked',
               '(after the repair f6bad98 of OwningQueue::poll) OwningQueue::poll for EVERY device behaviour: nothing pending -> nothing changes; a used id >= SIZE -> WrongToken, nothing changes; otherwise '
               'the completion at the head of the used ring is delivered once, under its own token, with the length the device recorded if it fits the buffer, '
               'the buffer is re-posted under the same token (the assert never fires) and the queue is fully stocked again; a length above BUFFER_SIZE gives '
               'IoError and never a longer slice'),
              ('C19_every_token_posted', 'Proofs/OwningProofs.v', 'stocked_has_chain', None),
              ('C19_lifo_token',
               'Proofs/QueueProps.v',
               'lifo_token',
               'after a successful pop of chain c the immediately following one-buffer add returns the same token (also with indirect enabled: a one-buffer '
               'chain is direct)'),
              ('C19_pop', 'Proofs/QueueProps.v', 'pop_refines', None),
              # ---- VirtIOInput: hand-written posting / re-posting of its 32 event buffers (Model/Input.v, Proofs/InputProofs.v)
              ('C19_input_new_stocked', 'Proofs/InputProofs.v', 'input_new_stocked',
               'VirtIOInput::new, event-queue part, for every start of the free-running indices, every share answer, both suppression modes: no `?` and no assert fires, all 32 buffers are posted as the chains in_posted, finish_init precedes the notification, which is sent iff should_notify'),
              ('C19_input_token_i_is_buffer_i', 'Proofs/InputProofs.v', 'in_posted_nth',
               'what new leaves posted: the j-th chain has head j, occupies descriptor j and holds exactly event_buf[j] (8 bytes, device-writable) at the address the platform answered for it'),
              ('C19_input_pop_stocked', 'Proofs/InputProofs.v', 'input_pop_stocked',
               'pop_pending_event under Reach + stocked for EVERY device behaviour (both reads of used index / id, recorded length, buffer bytes, share answer, suppression words): nothing pending -> None, nothing changes; id >= 32 -> clean panic, nothing touched; pop_used refusal -> None, nothing changes; otherwise the event returned is the 8 bytes event_buf[token] holds after the copy-back, the buffer is unshared with the arguments of its share and re-posted under the SAME token (the assert never fires), the notification is sent iff should_notify, the queue is fully stocked again'),
              ('C19_input_repost_every_len', 'Proofs/InputProofs.v', 'input_repost_every_len',
               'the re-post happens for EVERY used length the device reports (0, 4, 7, 8, 9, 2^32-1, ...): event handed out, same token posted again, queue stocked'),
              ('C19_input_pop_any_len', 'Proofs/InputProofs.v', 'input_pop_any_len',
               'for every driver state the recorded length changes nothing at all: same result, same successor state, same effects'),
              ('C19_input_history', 'Proofs/InputProofs.v', 'input_history',
               'any number of events against an abstract FIFO of device completions (any tokens below 32 in any order and repetition, any burst size, polls more or less often than events, any start of the 16-bit indices): every poll returns the next unconsumed completion or None when there is none, and the queue is stocked after each'),
              ('C19_input_exactly_once_in_order', 'Proofs/InputProofs.v', 'input_exactly_once_in_order',
               'the events handed to the caller over a whole history are the completions k, k+1, ... of the device, in this order, none twice, none skipped; no poll ends in an error or a panic'),
              ('C19_input_event_is_the_buffer_bytes', 'Proofs/InputProofs.v', 'in_ev_bytes_roundtrip',
               'the event IS the 8 bytes: reading its three fields back little-endian gives the buffer contents'),
              ('C19_input_event_first8_only', 'Proofs/InputProofs.v', 'in_ev_first8', 'nothing beyond the 8 bytes of the buffer can reach the caller'),
              ('C19_input_event_fields_bounded', 'Proofs/InputProofs.v', 'in_ev_fields_bounded', None),
              ('C19_input_len_ignored', 'Proofs/InputProofs.v', 'input_len_ignored',
               'observation: with a recorded length of 4 the tail of the event is whatever the copy-back left in the buffer'),
              ('C19_input_history_nonvacuous', 'Proofs/InputProofs.v', 'input_history_nonvacuous',
               'non-vacuity of the history theorems: indices starting at 65535, token 7 completed twice with token 3 in between, a burst of two, five polls'),
              ('C19_input_pop_nonvacuous', 'Proofs/InputProofs.v', 'input_pop_nonvacuous',
               'non-vacuity: new then one completion under token 7, across the wrap of the indices, with indirect and event_idx negotiated')]}
