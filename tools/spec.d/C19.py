"""C19: check configuration (PROPS_ENTRY, consumed by ./check and gen_manifest.py) and the list of lemmas that make up
the property file (SPEC_ENTRY, consumed by tools/mkprops.py)."""
PROPS_ENTRY = {'models': ['Model/Queue.v', 'Model/Owning.v', 'Model/Sound.v', 'Model/Vsock.v'],
 'design_ref': 'DESIGN.md 3 C19',
 'assumptions': ['the check also runs the sound notification queue (scenario c20snd-notifications-*, monitor 2056) and read_header_and_body of the socket receive path (kind 1711, monitor 1952)',
                 'the handler passed to poll returns normally (a panicking handler loses the buffer, as documented in the code)',
                 'bytes are not part of the Coq model: delivery of exactly the device-written bytes is checked on the implementation by the monitors (kinds '
                 '1950/1951) and follows from C04 (copy-back at unshare)'],
 'trusted_extra': ['VirtIOInput::pop_pending_event, VirtIOSound::latest_notification and the vsock rx queue are tied by monitors / their own properties; the '
                   'OwningQueue model is tied line by line']}

SPEC_ENTRY = {'title': 'Event queues deliver each device event once, in order, and stay fully stocked',
 'imports': ['Model.Queue', 'Proofs.QueueInv', 'Proofs.QueueReach', 'Proofs.QueueProps', 'Model.Owning', 'Proofs.OwningProofs'],
 'theorems': [('C19_new_stocked',
               'Proofs/OwningProofs.v',
               'owning_new_stocked',
               'OwningQueue::new on a fresh queue of any size 2^k: token i for buffer i (the assert never fires), and afterwards every descriptor is posted'),
              ('C19_poll_stocked',
               'Proofs/OwningProofs.v',
               'poll_stocked',
               '(after the repair f6bad98 of OwningQueue::poll) OwningQueue::poll for EVERY device behaviour: nothing pending -> nothing changes; a used id >= SIZE -> WrongToken, nothing changes; otherwise '
               'the completion at the head of the used ring is delivered once, under its own token, with the length the device recorded if it fits the buffer, '
               'the buffer is re-posted under the same token (the assert never fires) and the queue is fully stocked again; a length above BUFFER_SIZE gives '
               'IoError and never a longer slice'),
              ('C19_every_token_posted', 'Proofs/OwningProofs.v', 'stocked_has_chain', None),
              ('C19_lifo_token',
               'Proofs/QueueProps.v',
               'lifo_token',
               'after a successful pop of chain c the immediately following one-buffer add returns the same token (also with indirect enabled: a one-buffer '
               'chain is direct)'),
              ('C19_pop', 'Proofs/QueueProps.v', 'pop_refines', None)]}
