"""C05: check configuration (PROPS_ENTRY, consumed by ./check and gen_manifest.py) and the list of lemmas that make up
the property file (SPEC_ENTRY, consumed by tools/mkprops.py)."""
PROPS_ENTRY = {'models': ['Model/Queue.v'],
 'design_ref': 'DESIGN.md 3 C05',
 'assumptions': ['batch between two checks is between 1 and 2^15 entries',
                 'co-simulation is sequentially consistent and single-threaded (device runs inside notify or inside the busy-wait hook)']}

SPEC_ENTRY = {'title': 'No lost wake-ups: notifications are requested whenever the other side needs one',
 'imports': ['Model.Queue', 'Proofs.NotifyProofs'],
 'theorems': [('C05_flag_mode', 'Proofs/NotifyProofs.v', 'flag_mode', None),
              ('C05_flag_is_bit0', 'Proofs/NotifyProofs.v', 'land1_testbit', None),
              ('C05_event_mode', 'Proofs/NotifyProofs.v', 'event_mode', 'all 2^16 x 2^16 index pairs and every batch 1..2^15 at once'),
              ('C05_event_mode_arith', 'Proofs/NotifyProofs.v', 'event_mode_sound', None),
              ('C05_plain_comparison_refuted',
               'Proofs/NotifyProofs.v',
               'plain_refuted',
               'the comparison used before the repair (fix: commit 3eeee1c) is refuted'),
              ('C05_plain_agrees_away_from_wrap', 'Proofs/NotifyProofs.v', 'plain_agrees', None),
              ('C05_rearm',
               'Proofs/NotifyProofs.v',
               'rearm_need_event',
               'used_event := last_used_idx after every pop (C03_pop_refines) makes the next completion interrupt'),
              ('C05_driver_setting', 'Proofs/NotifyProofs.v', 'set_dev_notify_flag', None),
              ('C05_driver_setting_event_idx', 'Proofs/NotifyProofs.v', 'set_dev_notify_event_idx', None)]}
