"""C05: check configuration (PROPS_ENTRY, consumed by ./check and gen_manifest.py) and the list of lemmas that make up
the property file (SPEC_ENTRY, consumed by tools/mkprops.py)."""
PROPS_ENTRY = {'models': ['Model/Queue.v', 'Model/Owning.v', 'Model/Net.v'],
 'design_ref': 'DESIGN.md 3 C05',
 'assumptions': ['batch between two checks is between 1 and 2^15 entries',
                 'co-simulation is sequentially consistent and single-threaded (device runs inside notify or inside the busy-wait hook)',
                 'driver level (scen/c05_drv.rs): the device keeps its suppression words fixed during a driver operation (one separate scenario lets a '
                 'specification-following device move its event index when it serves); a round is the run of publications on a queue closed by notify(q) or by the end of the operation; '
                 'fewer than 2^16 entries are published per operation'],
 'trusted_extra': ['that every driver asks should_notify of the queue it posted to and notifies that queue is checked on the implementation (monitors 155/164 per driver operation); '
                   'models with a notify event exist for OwningQueue::poll, the network, block and console drivers']}

SPEC_ENTRY = {'title': 'No lost wake-ups: notifications are requested whenever the other side needs one',
 'imports': ['Model.Queue', 'Model.Wakeup', 'Model.Owning', 'Model.Net', 'Proofs.QueueInv', 'Proofs.QueueReach', 'Proofs.QueueProps', 'Proofs.NotifyProofs', 'Proofs.WakeupProofs', 'Proofs.OwningProofs', 'Extract.QueueMon', 'Proofs.NotifyDrvProofs'],
 'theorems': [('C05_flag_mode', 'Proofs/NotifyProofs.v', 'flag_mode', None),
              ('C05_flag_is_bit0', 'Proofs/NotifyProofs.v', 'land1_testbit', None),
              ('C05_event_mode', 'Proofs/NotifyProofs.v', 'event_mode', 'all 2^16 x 2^16 index pairs and every batch 1..2^15 at once'),
              ('C05_event_mode_arith', 'Proofs/NotifyProofs.v', 'event_mode_sound', None),
              ('C05_plain_comparison_refuted',
               'Proofs/NotifyProofs.v',
               'plain_refuted',
               'the comparison used before the repair (fix: commit 3eeee1c) is refuted'),
              ('C05_plain_agrees_away_from_wrap', 'Proofs/NotifyProofs.v', 'plain_agrees', None),
              ('C05_rearm',
               'Proofs/NotifyProofs.v',
               'rearm_need_event',
               'used_event := last_used_idx after every pop (C03_pop_refines) makes the next completion interrupt'),
              ('C05_driver_setting', 'Proofs/NotifyProofs.v', 'set_dev_notify_flag', None),
              ('C05_driver_setting_event_idx', 'Proofs/NotifyProofs.v', 'set_dev_notify_event_idx', None),
              ('C05_no_lost_wakeup', 'Proofs/WakeupProofs.v', 'no_lost_wakeup',
               'the blocking helper against a specification-following notification-driven device (processes entries; before sleeping publishes its event index / clears its flag and looks at the available index once more), as a product transition system at single load/store granularity: in NO interleaving is the state reached where the driver spins on an unserved request while the device sleeps and no notification is under way - for every starting index including 65535, with and without event-idx; a polling or slow device is the same device that never reaches / lingers before Sleep'),
              ('C05_waiting_makes_progress', 'Proofs/WakeupProofs.v', 'waiting_makes_progress', 'while the driver waits, either a notification is under way to the sleeping device or the awake device stands in front of the unprocessed entry'),
              ('C05_served_returns', 'Proofs/WakeupProofs.v', 'served_returns', 'once the device has served the request the next iteration of the wait exits'),
              ('C05_wakeup_invariant', 'Proofs/WakeupProofs.v', 'reach_inv', None),
              ('C05_wakeup_nonvacuous', 'Proofs/WakeupProofs.v', 'wakeup_nonvacuous', 'a complete run across the 16-bit wrap is reachable'),
              ('C05_drv_monitor_meaning', 'Proofs/NotifyDrvProofs.v', 'mon_notify_meaning', 'what a true verdict of monitor 155 says of one round [old, new) of a driver operation: with event-idx "required by the specification -> the transport saw notify(q)", without it "notify(q) seen iff the flag is clear"'),
              ('C05_drv_interval_membership', 'Proofs/NotifyDrvProofs.v', 'need_event_range', 'the specification predicate = the event index lies among the d entries published from index a on, modulo 2^16'),
              ('C05_drv_batch_split', 'Proofs/NotifyDrvProofs.v', 'need_event_split', None),
              ('C05_drv_batch_compose', 'Proofs/NotifyDrvProofs.v', 'batch_compose_spec', 'k rounds with unchanged device words: some round requires a notification iff the whole interval [a0, a1) does - all 16-bit values, across the wrap, any round sizes with fewer than 2^16 entries in all'),
              ('C05_drv_batch_compose_code', 'Proofs/NotifyDrvProofs.v', 'batch_compose_code_event', 'with event-idx: if the specification requires a notification for the whole operation, the check of the code says so after some round'),
              ('C05_drv_batch_compose_flag', 'Proofs/NotifyDrvProofs.v', 'batch_compose_flag_some', 'without event-idx: some round notifies iff the flag is clear (every round the same)'),
              ('C05_drv_following_driver_passes', 'Proofs/NotifyDrvProofs.v', 'following_driver_passes', 'a driver that asks should_notify after each publication and notifies exactly then passes monitor 155 on every notification-delimited round: the per-operation monitor demands nothing a specification-following driver does not do'),
              ('C05_drv_silent_round_fails', 'Proofs/NotifyDrvProofs.v', 'silent_required_round_fails', None),
              ('C05_drv_suppressed_notification_fails', 'Proofs/NotifyDrvProofs.v', 'suppressed_notification_fails', None),
              ('C05_drv_blocking_meaning', 'Proofs/NotifyDrvProofs.v', 'mon_blocking_meaning', None),
              ('C05_drv_per_queue', 'Proofs/NotifyDrvProofs.v', 'verdict_per_queue', 'the verdict for queue q depends on what was observed of q only'),
              ('C05_drv_other_queue', 'Proofs/NotifyDrvProofs.v', 'verdict_other_queue', None),
              ('C05_drv_receive_begin_rx_only', 'Proofs/NotifyDrvProofs.v', 'receive_begin_decides_on_rx', 'receive_begin does not look at the transmit queue'),
              ('C05_drv_receive_begin_notifies', 'Proofs/NotifyDrvProofs.v', 'receive_begin_notifies', None),
              ('C05_drv_transmit_begin_notifies', 'Proofs/NotifyDrvProofs.v', 'transmit_begin_notifies', None),
              ('C05_drv_owning_poll_notifies', 'Proofs/NotifyDrvProofs.v', 'poll_notifies_on_every_path', 'OwningQueue::poll: on EVERY path on which the buffer is re-queued - handler Ok(Some), Ok(None), Err, used length above BUFFER_SIZE - exactly one entry is published and notify is the last effect iff should_notify says so'),
              ('C05_drv_owning_poll_handler_independent', 'Proofs/NotifyDrvProofs.v', 'poll_effects_independent_of_handler', None),
              ('C05_drv_owning_late_notify_refuted', 'Proofs/NotifyDrvProofs.v', 'late_notify_refuted', 'moving the notification behind `let value = result?;` (seeded change C05-m4) is refuted: handler error, buffer re-queued, device not suppressing, no notify'),
              ('C05_drv_following_nonvacuous', 'Proofs/NotifyDrvProofs.v', 'following_nonvacuous', 'a driver run across the wrap (65534 -> 65535 silent, -> 0 notified, -> 2 notified) satisfies the hypotheses; its rounds'),
              ('C05_drv_owning_poll_nonvacuous', 'Proofs/NotifyDrvProofs.v', 'poll_notifies_nonvacuous', 'indices started at 65535, event-idx, oversized completion and failing handler: re-queued and notified')]}

# ---- the monitors evaluated on the IMPLEMENTATION's observations, tied to the statements they stand for (Proofs/QueueMonProofs.v):
# ---- "meaning" = what a true verdict implies, for any input list; "holds_of_model" = no false alarm on code that behaves like the model
SPEC_ENTRY['imports'] += [m for m in ['Extract.QueueMon', 'Proofs.QueueMonProofs'] if m not in SPEC_ENTRY['imports']]
SPEC_ENTRY['theorems'] += [
  ('C05_monitor_156_meaning', 'Proofs/QueueMonProofs.v', 'mon_cosim_sound', 'monitor 156 (co-simulation): never found waiting on an idle device that was not told, Ok, notified when the specification requires it, not notified when suppressed by flag'),
  ('C05_monitor_157_meaning', 'Proofs/QueueMonProofs.v', 'mon157_sound', 'monitor 157: the used-event index the device reads is the next used index of the driver'),
  ('C05_monitor_164_meaning', 'Proofs/QueueMonProofs.v', 'mon_blocking_sound', 'monitor 164: a blocking operation never waits in vain on a polling / late device, nor on a notification-driven one when every round had to be announced'),
  ('C05_monitor_153_meaning', 'Proofs/QueueMonProofs.v', 'mon153_sound', 'monitor 153: without event index the flag the device reads is the setting'),
]
