"""C14: check configuration (PROPS_ENTRY, consumed by ./check and gen_manifest.py) and the list of lemmas that make up
the property file (SPEC_ENTRY, consumed by tools/mkprops.py)."""
PROPS_ENTRY = {'models': ['Model/Queue.v', 'Model/Blk.v', 'Model/BlkSpec.v', 'Model/BlkWorld.v'],
 'design_ref': 'DESIGN.md 3 C14',
 'assumptions': ['Hal contract (Model/BlkSpec.hal_ev): a device-readable buffer is visible to the device at the address share() returned with the '
                 'contents it had at share time; what the device left in a device-writable buffer is in the caller\'s buffer after unshare(); two '
                 'shares live at the same time have different device addresses (req_ok: header address <> data address). The harness platform '
                 '(LedgerHal, bounce buffers) implements exactly this; an identity-mapped Hal satisfies it as long as callers keep their hands '
                 'off the buffers, which is the safety contract of the *_nb functions',
                 'caller contract of the non-blocking interface: complete_* is given the buffers of the request the token belongs to; the three '
                 'buffers of a request and the buffers of different outstanding requests are distinct objects (NoDup of the written ids)',
                 'blocking calls (read_blocks, write_blocks, flush, device_id) are stated for an idle queue, as add_notify_wait_pop documents '
                 '("assumes that the device isn\'t processing any other buffers"); a device that completes something else first makes them '
                 'return WrongToken with the request still queued (theorem clause, not excluded)',
                 'the wait loop of a blocking call is modelled over the list of used-index values its evaluations see; the theorems hold for '
                 'every such list on which the wait ends (termination of the wait is the device\'s business: C05)',
                 'usize = u64 (block_id as u64 is the identity), little-endian target (zerocopy as_bytes of BlkReq = the LE encoding)',
                 'VirtQueue::new succeeding inside VirtIOBlk::new (queue creation is C06 / C08); the 16-bit index wrap of the queue under the '
                 'block driver is not re-driven here (C01-C05 drive it with the index hook, VirtIOBlk has no such hook)'],
 'trusted_extra': ['reference block device harness/src/scen/c14.rs (BlkDev): walks chains and decodes headers through device addresses with its own '
                   'decoder; sparse in-memory disk; publishes completions in PRNG order',
                   'data bytes travel through the trace as equality flags computed by the harness (caller buffer == bytes the device supplied, '
                   'device-read data == caller buffer, reference disk == caller-side expectation), header bytes and chain shapes as numbers '
                   'decoded by the extracted specification decoder']}

SPEC_ENTRY = {'title': "Block requests carry the caller's data intact and match the right completion",
 'imports': ['Model.Queue', 'Proofs.QueueInv', 'Proofs.QueueReach', 'Proofs.QueueProps', 'Model.Blk', 'Model.BlkSpec', 'Model.BlkWorld', 'Proofs.BlkProofs'],
 'theorems': [('C14_header_roundtrip', 'Proofs/BlkProofs.v', 'hdr_roundtrip',
               'the decoder written from VirtIO 5.2.6 (le32 type, le32 reserved, le64 sector) recovers exactly (type, 0, sector) from the 16 bytes the '
               'driver encodes, for every type < 2^32 and every sector < 2^64'),
              ('C14_header_injective', 'Proofs/BlkProofs.v', 'enc_req_injective', None),
              ('C14_wire', 'Proofs/BlkProofs.v', 'submit_wire',
               'every submission (read, write, flush, get-id; blocking or non-blocking; any reachable queue state with anything outstanding; any '
               'share addresses; any caller memory): the chain the device walks from the published head is the caller\'s buffers laid out as the '
               'specification\'s [header R 16][data R|W][status W 1], and the device-side parse of device-visible memory yields the operation type, '
               'reserved 0, the exact sector, for a write exactly the caller\'s bytes, for a read a writable area of exactly the buffer length; the '
               'only caller memory written is the header buffer; notify iff should_notify; capacity and features unchanged'),
              ('C14_submit_refusals', 'Proofs/BlkProofs.v', 'submit_refusals',
               'a request is refused with QueueFull exactly when the queue has no room, and then nothing is shared, stored or notified'),
              ('C14_submit_bad_length', 'Proofs/BlkProofs.v', 'submit_bad_length', 'the documented length asserts fire before anything happens'),
              ('C14_capacity_16', 'Proofs/BlkProofs.v', 'capacity_16',
               'queue-full in numbers: with indirect descriptors 16 requests fit, without them floor(16/3) reads/writes'),
              ('C14_status_map', 'Proofs/BlkProofs.v', 'status_map',
               'for every status byte: 0 -> Ok, 1 -> IoError, 2 -> Unsupported, 3 -> NotReady, anything else -> IoError; agrees with the '
               'specification table (never success for a non-zero status)'),
              ('C14_complete_own', 'Proofs/BlkProofs.v', 'complete_own',
               'one completion with anything else outstanding, for every device-memory content and every used-ring word: nothing ready -> NotReady, '
               'another token first -> WrongToken, both without any effect; own token next -> the result is the mapped status byte found at THIS '
               'request\'s status address, a read leaves in THIS request\'s buffer what is at its data address, no other caller memory changes, the '
               'other requests stay outstanding'),
              ('C14_out_of_order', 'Proofs/BlkProofs.v', 'out_of_order',
               'any number of outstanding requests completed in ANY permutation of the submission order: every completion returns the status and '
               'data of its own request, nothing else is touched, the queue ends empty (corollary of Reach_Inv / add_ok / pop_refines: chains are '
               'disjoint and buffers are bound to their token)'),
              ('C14_result', 'Proofs/BlkProofs.v', 'request_blocking',
               'a blocking request on an idle queue, for EVERY device behaviour: the device finds the request (walk + parse as in C14_wire), the '
               'result is the mapped status byte the device left, a read returns exactly the bytes the device left; a foreign completion gives '
               'WrongToken'),
              ('C14_answer_lands', 'Proofs/BlkProofs.v', 'answer_lands',
               'a specification-side device answering payload ++ [status] over the device-writable part of the chain puts them where the driver looks'),
              ('C14_spec_device', 'Proofs/BlkProofs.v', 'request_spec_device',
               'end to end: against a device answering per the specification a blocking call returns the mapped status and the caller\'s buffer '
               'holds exactly the payload'),
              ('C14_config', 'Proofs/BlkProofs.v', 'new_config',
               'capacity = low + 2^32 * high of the FIRST attempt whose config generation did not move (torn attempts are discarded); readonly = '
               'device offers bit 5; flush is enabled iff the device offers bit 9; indirect / event-idx as offered'),
              ('C14_config_error', 'Proofs/BlkProofs.v', 'new_error', None),
              ('C14_flush_gating', 'Proofs/BlkProofs.v', 'flush_gating',
               'flush without the negotiated feature returns Ok with no event at all and no state change; with it, it is a FLUSH request'),
              ('C14_config_kept', 'Proofs/BlkProofs.v', 'request_keeps_config', None),
              ('C14_device_id_length', 'Proofs/BlkProofs.v', 'id_length_spec', None),
              ('C14_world_is_core', 'Proofs/BlkProofs.v', 'complete_w_core',
               'the memory-level operation of the theorems is the flat operation replayed against the implementation, with the status byte read '
               'from the response buffer'),
              ('C14_header_roundtrip_nonvacuous', 'Proofs/BlkProofs.v', 'hdr_roundtrip_nonvacuous', None),
              ('C14_config_nonvacuous', 'Proofs/BlkProofs.v', 'new_config_nonvacuous', None),
              ('C14_wire_nonvacuous', 'Proofs/BlkProofs.v', 'submit_wire_nonvacuous', None),
              ('C14_complete_own_nonvacuous', 'Proofs/BlkProofs.v', 'complete_own_nonvacuous', None),
              ('C14_out_of_order_nonvacuous', 'Proofs/BlkProofs.v', 'out_of_order_nonvacuous', None),
              ('C14_result_nonvacuous', 'Proofs/BlkProofs.v', 'request_blocking_nonvacuous', None)]}

# ---- the monitors evaluated on the IMPLEMENTATION's observations, tied to the statements they stand for (Proofs/BlkMonProofs.v):
# ---- "meaning" = what a true verdict implies, for any input list; "holds_of_model" = no false alarm on code that behaves like the model
SPEC_ENTRY['imports'] += [m for m in ['Extract.BlkIO', 'Proofs.BlkMonProofs'] if m not in SPEC_ENTRY['imports']]
SPEC_ENTRY['theorems'] += [
  ('C14_monitor_1450_meaning', 'Proofs/BlkMonProofs.v', 'mon1450_meaning', 'a true 1450 verdict on ANY list: the list is [ty; sector; len; 1; n; (len,w)*n; 16 header numbers] with n exact, the header reads (little-endian) as the type and sector asked for with reserved 0, and the parts are per type exactly [16 R; len R|W; 1 W] / [16 R; 1 W] / [16 R; 20 W; 1 W]'),
  ('C14_monitor_1450_decodes', 'Proofs/BlkMonProofs.v', 'mon1450_decodes', 'every accepted list is a line of the documented layout: consistent count, exactly 16 header numbers, 2 or 3 parts'),
  ('C14_monitor_1450_header_bytes', 'Proofs/BlkMonProofs.v', 'mon1450_header_bytes', 'for byte values the three little-endian equalities say the header IS the encoding {type u32le, 0 u32le, sector u64le}'),
  ('C14_monitor_1450_holds_of_model', 'Proofs/BlkMonProofs.v', 'mon1450_holds_of_model', 'every submission of the model (any op, sector, length, reachable state): the line built from the walk of the published chain and the bytes at the first element device address passes 1450'),
  ('C14_monitor_1450_holds_of_blocking', 'Proofs/BlkMonProofs.v', 'mon1450_holds_of_blocking', 'the same for the request a blocking call submits on an idle queue'),
  ('C14_monitor_1451_meaning', 'Proofs/BlkMonProofs.v', 'mon1451_meaning', 'a true 1451 verdict: six numbers, flags 1, 0 -> Ok, 1 -> IoError, 2 -> Unsupported, anything else -> some error'),
  ('C14_monitor_1451_holds_for_every_status', 'Proofs/BlkMonProofs.v', 'mon1451_holds_for_every_status', 'the status conversion of the driver model passes 1451 for every status byte'),
  ('C14_monitor_1451_holds_of_model', 'Proofs/BlkMonProofs.v', 'mon1451_holds_of_model', 'one completion with anything else outstanding and any device memory passes 1451 (flags tied to the facts complete_own proves)'),
  ('C14_monitor_1452_meaning', 'Proofs/BlkMonProofs.v', 'mon1452_meaning', 'a true 1452 verdict: capacity = lo + 2^32 hi, readonly iff the device offers bit 5 (which offered features are accepted is the clause of C08 and no longer part of this monitor)'),
  ('C14_monitor_1452_holds_of_model', 'Proofs/BlkMonProofs.v', 'mon1452_holds_of_model', 'every successful new of the model (any feature word, any config behaviour) passes 1452 with the stable attempt capacity words and the feature word it writes back'),
  ('C14_monitor_1453_meaning', 'Proofs/BlkMonProofs.v', 'mon1453_meaning', 'a true 1453 verdict: bit 9 accepted -> exactly one request, type FLUSH, result = mapped status; not accepted -> nothing sent and Ok'),
  ('C14_monitor_1453_holds_of_model', 'Proofs/BlkMonProofs.v', 'mon1453_holds_of_model', 'the flush of the model passes 1453 with and without the feature'),
  ('C14_monitor_1454_meaning', 'Proofs/BlkMonProofs.v', 'mon1454_meaning', 'a true 1454 verdict: [n; 1] (n not looked at)'),
  ('C14_monitor_kinds', 'Proofs/BlkMonProofs.v', 'blk_monitor_kinds', 'verdict [1] of kind 1450..1454 = the corresponding checker is true'),
]
