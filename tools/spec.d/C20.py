"""C20 is built from three parts (GPU + EDID, sound, rng/rtc/9p), each with its own model, proofs, IO and scenario.
This file combines the part descriptions in tools/spec.d/parts/C20_*.py."""
import glob, os
_parts = []
for _f in sorted(glob.glob(os.path.join(os.path.dirname(os.path.abspath(__file__)), 'parts', 'C20_*.py'))):
    _ns = {}
    exec(open(_f).read(), _ns)
    _parts.append(_ns)
def _cat(key, sub):
    out = []
    for p in _parts:
        for x in (p.get(sub) or {}).get(key, []):
            if x not in out: out.append(x)
    return out
PROPS_ENTRY = dict(models=_cat('models', 'PROPS_ENTRY'), design_ref='DESIGN.md 3 C20',
                   assumptions=_cat('assumptions', 'PROPS_ENTRY'), trusted_extra=_cat('trusted_extra', 'PROPS_ENTRY'))
# one property file per part (Properties/C20_<part>.v): the parts' models reuse short names (enc_req, ...)
SPEC_ENTRY = dict(title='Command/response drivers encode requests per spec and check every response',
                  parts={os.path.basename(f)[4:-3]: p['SPEC_ENTRY'] for f, p in zip(sorted(glob.glob(os.path.join(os.path.dirname(os.path.abspath(__file__)), 'parts', 'C20_*.py'))), _parts)})
