"""C20 (GPU part: src/device/gpu/mod.rs and src/device/gpu/edid.rs): check configuration (PROPS_ENTRY, consumed by
./check and gen_manifest.py) and the list of lemmas that make up the property file (SPEC_ENTRY, consumed by
tools/mkprops.py). The sound/PCM and rng/rtc/9p parts of C20 are built separately and merged into this file."""
PROPS_ENTRY = {'models': ['Model/Gpu.v', 'Model/Edid.v', 'Model/GpuSpec.v'],
 'design_ref': 'DESIGN.md 3 C20',
 'assumptions': ['GPU part only (gpu/mod.rs, gpu/edid.rs); sound, rng, rtc and 9p are not covered by these theorems',
                 'one virtqueue round trip (add_notify_wait_pop on the 2-entry control / cursor queue) is ONE event of the model carrying the first '
                 'size_of::<Req>() bytes of the 4096-byte send buffer, and ONE environment answer (the Error it returned, or the contents of the '
                 'receive buffer afterwards); chain layout, notification and token matching are C01-C05. On the implementation the reference GPU '
                 'walks every chain through device addresses and monitor 2020 checks its shape (readable part holds the command, writable part '
                 'large enough for the response structure); the bytes of the send buffer after the command (stale data of earlier requests) are '
                 'not modelled - the round-trip theorem holds for every such tail',
                 'a receive buffer the device did not (completely) overwrite is read as it is: the driver ignores the used length. The theorems '
                 'quantify over every buffer content; whether stale bytes can be there is the platform layer\'s business (bounce buffers start zeroed)',
                 'backing-memory theorem: stated for lives in which every answer is the expected success type and dma_alloc returns non-null '
                 'regions that do not overlap live ones (Life / fresh); resource ids are the driver\'s constants 0xbabe / 0xdade. With an error '
                 'answer between RESOURCE_ATTACH_BACKING and the end of the operation the driver releases memory that the device still has '
                 'attached (observed by the harness: "device_access_to_released_memory_after_an_error_answer"); the property excludes device errors',
                 'VirtIOGpu::new is modelled only as far as has_edid (handshake: C08; queue creation: C06); config-space read failures, '
                 'ack_interrupt and the queue memory released by Drop (C09) are not modelled',
                 'usize = u64, little-endian target (zerocopy IntoBytes/FromBytes of the #[repr(C)] structs = concatenated little-endian fields; '
                 'no struct has implicit padding)',
                 'EDID: the model reads data[i] as u8 and an index outside the list as 0; the theorems hold for every list (hence every '
                 '1024-byte blob) and every u32 size. slice::sort_by is modelled as a stable sort (its documented contract)',
                 'after the repair C20_gpu_fb_size (corpus/findings/C20_gpu_fb_size_fix.diff): the model is the repaired change_resolution; '
                 'change_resolution_prefix is the code as it stood, with the refutation C20_gpu_change_prefix_refuted'],
 'trusted_extra': ['reference GPU harness/src/scen/c20_gpu.rs (RefGpu): own decoder written from VirtIO 1.2 5.7.6 (Rust), resource / backing / scanout '
                   'bookkeeping of a conforming device, answers per script (expected success, every error code, foreign success types, random '
                   '32-bit types, completion under a foreign token)',
                   'monitors 2020 (wire), 2021 (sequence), 2022 (errors), 2023 (backing), 2025 (EDID) run the extracted specification-side checkers '
                   '(spec_decode, seq_ok, resp_ok, backing_ok, spec_preferred / spec_std_list) on bytes and events observed on the implementation; '
                   'the expected command of monitor 2020 and the operation parameters of 2021 are built by the harness from the caller\'s '
                   'arguments and the reference device\'s state; 2024 / 2026 are equality flags computed by the harness',
                   'one 4 GiB framebuffer (65535 x 16384) is really allocated per profile to reach the largest expressible backing length']}

SPEC_ENTRY = {'title': 'Command/response drivers encode requests per spec and check every response (GPU driver and EDID parser)',
 'imports': ['Model.Blk', 'Model.BlkSpec', 'Model.Edid', 'Model.Gpu', 'Model.GpuSpec', 'Proofs.GpuProofs'],
 'theorems': [('C20_gpu_roundtrip', 'Proofs/GpuProofs.v', 'roundtrip',
               'field positions and byte order: for every GPU request (get_display_info, resource_create_2d, resource_unref, set_scanout, '
               'resource_flush, transfer_to_host_2d, resource_attach_backing, resource_detach_backing, get_edid, update_cursor, move_cursor) with '
               'u32/u64 parameters, and whatever follows in the send buffer, the decoder written from the VirtIO 1.2 field tables returns the '
               'command type, a header with flags = fence_id = ctx_id = ring_idx = padding = 0, and exactly the caller\'s parameters (format '
               'B8G8R8A8_UNORM, nr_entries 1 with one (addr, length, 0) entry, paddings 0)'),
              ('C20_gpu_request_sizes', 'Proofs/GpuProofs.v', 'enc_req_length', 'each request has the size of the specification\'s structure'),
              ('C20_gpu_sequence_change', 'Proofs/GpuProofs.v', 'change_sequence_spec',
               'change_resolution(w, h) with 0 < 4wh < 2^32 and only success answers, from EVERY state: the device decodes exactly '
               '[set_scanout(0 rect, 0, 0); detach(fb); unref(fb)]-if-a-framebuffer-exists ++ [create_2d(fb, B8G8R8A8, w, h); '
               'attach_backing(fb, 1 entry (paddr, 4wh)); set_scanout((0,0,w,h), 0, fb)], the result is Ok(slice of pages*4096 >= 4wh bytes), '
               'rect and frame_buffer_dma are updated; the sequence checker used as monitor 2021 accepts it'),
              ('C20_gpu_change_events', 'Proofs/GpuProofs.v', 'change_sequence',
               'the same with the DMA events in place: the old framebuffer is released after the UNREF was acknowledged, the new one is '
               'allocated (pages = ceil(4wh / 4096)) before it is attached'),
              ('C20_gpu_change_refuses', 'Proofs/GpuProofs.v', 'change_refuses',
               '(repaired code) a size whose byte count is zero or does not fit the le32 length field: InvalidParam, nothing sent, nothing '
               'changed, for every state and every answer list'),
              ('C20_gpu_change_prefix_refuted', 'Proofs/GpuProofs.v', 'change_sequence_refuted',
               'the code as it stood violates the sequence clause: 65536x65536 panics in the debug profile after RESOURCE_CREATE_2D; '
               '32768x32769 attaches 128 KiB to a 4 GiB + 128 KiB resource in the release profile; 0x27 panics in both profiles after '
               'SET_SCANOUT and releases the memory it has just attached'),
              ('C20_gpu_change_prefix_partial', 'Proofs/GpuProofs.v', 'change_sequence_partial',
               'outside those size classes the old code is the repaired code'),
              ('C20_gpu_sequence_flush', 'Proofs/GpuProofs.v', 'flush_sequence', 'flush = transfer_to_host_2d(whole rect, offset 0, fb) then resource_flush(whole rect, fb)'),
              ('C20_gpu_flush_not_ready', 'Proofs/GpuProofs.v', 'flush_not_ready', None),
              ('C20_gpu_sequence_setup_cursor', 'Proofs/GpuProofs.v', 'setup_cursor_sequence',
               'setup_cursor: alloc 4 pages; create_2d(cursor, 64x64); attach_backing(paddr, 16384); transfer_to_host_2d; then UPDATE_CURSOR on '
               'the cursor queue with the caller\'s position and hot spot; the previous cursor memory is released only after that'),
              ('C20_gpu_sequence_move_cursor', 'Proofs/GpuProofs.v', 'move_cursor_sequence', None),
              ('C20_gpu_setup_framebuffer', 'Proofs/GpuProofs.v', 'setup_framebuffer_unfold', None),
              ('C20_gpu_errors_change_resolution', 'Proofs/GpuProofs.v', 'sound_change_resolution',
               'for EVERY state, parameters and answer list: the answers consumed are one per request emitted; every request decodes as a plain '
               'command; either all answers were the expected success type for their command, or the first one that was not (any other 32-bit '
               'type, or a transport error) makes the result Err (in the model the operation also stops there)'),
              ('C20_gpu_errors_change_resolution_prefix', 'Proofs/GpuProofs.v', 'sound_change_resolution_prefix', None),
              ('C20_gpu_errors_setup_framebuffer', 'Proofs/GpuProofs.v', 'sound_setup_framebuffer', None),
              ('C20_gpu_errors_flush', 'Proofs/GpuProofs.v', 'sound_flush', None),
              ('C20_gpu_errors_setup_cursor', 'Proofs/GpuProofs.v', 'sound_setup_cursor', None),
              ('C20_gpu_errors_move_cursor', 'Proofs/GpuProofs.v', 'sound_move_cursor', None),
              ('C20_gpu_errors_resolution', 'Proofs/GpuProofs.v', 'sound_resolution', None),
              ('C20_gpu_errors_get_edid', 'Proofs/GpuProofs.v', 'sound_get_edid', None),
              ('C20_gpu_errors_edid_preferred', 'Proofs/GpuProofs.v', 'sound_edid_preferred', None),
              ('C20_gpu_errors_edid_supported', 'Proofs/GpuProofs.v', 'sound_edid_supported', None),
              ('C20_gpu_errors_checker', 'Proofs/GpuProofs.v', 'errors_checker',
               'the same as the boolean checker resp_ok that monitor 2022 evaluates on the implementation'),
              ('C20_gpu_errors_ok_means_expected', 'Proofs/GpuProofs.v', 'ok_means_all_expected',
               'an operation that returns Ok has seen the expected success type for every request'),
              ('C20_gpu_backing', 'Proofs/GpuProofs.v', 'backing_life',
               'over every life without device errors (any interleaving of change_resolution, flush, setup_cursor, move_cursor, resolution, '
               'get_edid, ending with Drop): each range given to the device as backing lies in a live DMA region, covers the advertised length, '
               'which covers the resource (4wh); a region is released only when no device resource is backed by it (after DETACH/UNREF was '
               'acknowledged, or after the reset of Drop); transfers only from resources that have backing'),
              ('C20_gpu_backing_invariant', 'Proofs/GpuProofs.v', 'life_inv', None),
              ('C20_gpu_values_resolution', 'Proofs/GpuProofs.v', 'resolution_value',
               'resolution() = (width, height) of pmodes[0] of the device\'s answer, for every value of every field; a type other than '
               'OK_DISPLAY_INFO gives IoError'),
              ('C20_gpu_values_get_edid', 'Proofs/GpuProofs.v', 'get_edid_value',
               'get_edid returns exactly the size and the 1024 bytes of the device\'s answer'),
              ('C20_gpu_get_edid_unsupported', 'Proofs/GpuProofs.v', 'get_edid_unsupported', None),
              ('C20_gpu_has_edid', 'Proofs/GpuProofs.v', 'new_edid', None),
              ('C20_edid_detailed_bits', 'Proofs/GpuProofs.v', 'dtd_active',
               'byte2 | (byte4 & 0xF0) << 4 = low byte + 256 * upper nibble, all byte values'),
              ('C20_edid_preferred', 'Proofs/GpuProofs.v', 'edid_preferred',
               'for EVERY byte list and size: Err below 128 bytes or when an active count is 0, otherwise the two 12-bit active counts of '
               'detailed timing #1'),
              ('C20_edid_standard_entry', 'Proofs/GpuProofs.v', 'st_parse_spec',
               '(b0 + 31) * 8 and the aspect ratios 16:10, 4:3, 5:4, 16:9 for all 65536 entries; 0x0101 unused; unreachable!() unreachable'),
              ('C20_edid_standard', 'Proofs/GpuProofs.v', 'edid_standard',
               'for EVERY byte list and size: never a panic; empty below 128 bytes; otherwise a permutation of the used slots, sorted by '
               'decreasing pixel count, ties in slot order, at most 8, every value <= 2288'),
              ('C20_edid_highest', 'Proofs/GpuProofs.v', 'edid_highest', 'the first entry has the largest pixel count'),
              ('C20_gpu_roundtrip_nonvacuous', 'Proofs/GpuProofs.v', 'roundtrip_nonvacuous', None),
              ('C20_gpu_sequence_nonvacuous', 'Proofs/GpuProofs.v', 'change_sequence_nonvacuous', None),
              ('C20_gpu_errors_nonvacuous', 'Proofs/GpuProofs.v', 'errors_nonvacuous', None),
              ('C20_gpu_backing_nonvacuous', 'Proofs/GpuProofs.v', 'backing_nonvacuous', None),
              ('C20_edid_nonvacuous', 'Proofs/GpuProofs.v', 'edid_nonvacuous', None)]}

# ---- the monitors evaluated on the IMPLEMENTATION's observations, tied to the statements they stand for (Proofs/GpuMonProofs.v):
# ---- "meaning" = what a true verdict implies, for any input list; "holds_of_model" = no false alarm on code that behaves like the model
SPEC_ENTRY['imports'] += [m for m in ['Extract.QueueIO', 'Extract.GpuIO', 'Proofs.GpuMonProofs'] if m not in SPEC_ENTRY['imports']]
SPEC_ENTRY['theorems'] += [
  ('C20_gpu_monitor_2020_accepts_only_such_lines', 'Proofs/GpuMonProofs.v', 'mon_wire_decodes', 'every list monitor 2020 accepts is a line [cursor queue?; n; (len, writable)*n; m; expected command flat (m); k; bytes..] with consistent counts'),
  ('C20_gpu_monitor_2020_meaning', 'Proofs/GpuMonProofs.v', 'mon_wire_meaning', "monitor 2020, a true verdict on such a line means: the first k device-readable bytes decode (decoder written from the VirtIO 1.2 field tables) to a command with flags = fence_id = ctx_id = ring_idx = padding = 0 whose type and fields are exactly the expected ones built from the caller's parameters (MOVE_CURSOR: the three unused fields not compared); the chain is readable elements followed by writable ones; the readable part has room for the request structure, the writable part for the response structure of that command (24 / 408 / 1056 bytes; none for cursor commands)"),
  ('C20_gpu_monitor_2020_request_size_decoder', 'Proofs/GpuMonProofs.v', 'cmd_size_decoder', "the request size monitor 2020 asks room for is what the specification's decoder needs ..."),
  ('C20_gpu_monitor_2020_request_size_driver', 'Proofs/GpuMonProofs.v', 'cmd_size_driver', "... and exactly the size of the driver's request structure"),
  ('C20_gpu_monitor_2020_holds_of_model', 'Proofs/GpuMonProofs.v', 'mon_wire_holds_of_model', "every request of the model with u32 / u64 parameters, on either queue, whatever follows it in the send buffer, found in a readable-then-writable chain with room for request and response, passes monitor 2020 against the specification's reading of its parameters"),
  ('C20_gpu_monitor_2021_meaning', 'Proofs/GpuMonProofs.v', 'mon_sequence_meaning', "monitor 2021, a true verdict on ANY list means: the list is [op; p1..p5; class] ++ requests [cursor?; n; bytes]*, names one of the six operations, every request decodes as a plain command, and the commands obey the sequence rule: exactly the specification's list for that operation in order and on their queues with result Ok and a non-zero new resource id, or - no list exists (4wh = 0 or >= 2^32, flush without scanout resource) - an error with nothing sent"),
  ('C20_gpu_monitor_2021_rule_is_the_checker', 'Proofs/GpuMonProofs.v', 'seq_ok_rule', 'the sequence rule is exactly what the specification-side checker seq_ok computes'),
  ('C20_gpu_monitor_2021_rule_change', 'Proofs/GpuMonProofs.v', 'sequence_rule_change', 'the rule for change_resolution spelled out: [set_scanout(0); detach(old); unref(old)]-if-a-resource-existed ++ [create_2d(rid, B8G8R8A8, w, h); attach_backing(rid, 1 entry (paddr, 4wh)); set_scanout((0,0,w,h), 0, rid)], rid <> 0'),
  ('C20_gpu_monitor_2021_rule_flush', 'Proofs/GpuMonProofs.v', 'sequence_rule_flush', 'flush: transfer_to_host_2d(whole rect, offset 0, rid) then resource_flush(whole rect, rid); refused when nothing is on the scanout'),
  ('C20_gpu_monitor_2021_rule_setup_cursor', 'Proofs/GpuMonProofs.v', 'sequence_rule_setup_cursor', 'setup_cursor: create 64x64, attach(paddr, 16384), transfer, UPDATE_CURSOR on the cursor queue with position and hot spot'),
  ('C20_gpu_monitor_2021_rule_move_cursor', 'Proofs/GpuMonProofs.v', 'sequence_rule_move', 'move_cursor: one MOVE_CURSOR on the cursor queue with the position'),
  ('C20_gpu_monitor_2021_holds_of_model', 'Proofs/GpuMonProofs.v', 'mon_sequence_of_events', 'whatever model operation ran: when the commands decoded from its events pass seq_ok, the line written from those events passes monitor 2021'),
  ('C20_gpu_monitor_2021_holds_of_model_change', 'Proofs/GpuMonProofs.v', 'mon_sequence_holds_change', 'change_resolution(w, h), 0 < 4wh < 2^32, only success answers, from EVERY state'),
  ('C20_gpu_monitor_2021_holds_of_model_flush', 'Proofs/GpuMonProofs.v', 'mon_sequence_holds_flush', None),
  ('C20_gpu_monitor_2021_holds_of_model_flush_not_ready', 'Proofs/GpuMonProofs.v', 'mon_sequence_holds_flush_not_ready', None),
  ('C20_gpu_monitor_2021_holds_of_model_setup_cursor', 'Proofs/GpuMonProofs.v', 'mon_sequence_holds_setup_cursor', None),
  ('C20_gpu_monitor_2021_holds_of_model_move_cursor', 'Proofs/GpuMonProofs.v', 'mon_sequence_holds_move_cursor', None),
  ('C20_gpu_monitor_2021_holds_of_model_resolution', 'Proofs/GpuMonProofs.v', 'mon_sequence_holds_resolution', None),
  ('C20_gpu_monitor_2021_holds_of_model_get_edid', 'Proofs/GpuMonProofs.v', 'mon_sequence_holds_get_edid', None),
  ('C20_gpu_monitor_2022_meaning', 'Proofs/GpuMonProofs.v', 'mon_errors_meaning', 'monitor 2022, a true verdict on ANY list means: the list is [class] ++ answered requests [cursor?; answered; response type; n; bytes]*, every request decodes to a command, and an answer that is not the expected success (failed transport call, or on the control queue any type other than the one the specification prescribes for that command) makes the result class 1 (error)'),
  ('C20_gpu_monitor_2022_rule_is_the_checker', 'Proofs/GpuMonProofs.v', 'resp_ok_rule', 'that rule is exactly what the specification-side checker resp_ok computes'),
  ('C20_gpu_monitor_2022_holds_of_model', 'Proofs/GpuMonProofs.v', 'mon_errors_holds_of_model', 'every model operation that is `sound` (all public ones: the C20_gpu_errors_... theorems), from every state, on EVERY answer list: the line written from its requests and the answers it consumed passes monitor 2022'),
  ('C20_gpu_monitor_2023_meaning', 'Proofs/GpuMonProofs.v', 'mon_backing_meaning', 'monitor 2023, a true verdict on ANY list means: the list is a sequence of [tag; a; b; c] resource / memory events and, replayed against the bookkeeping of a conforming device: every attach names an existing resource, lies inside one live DMA region and is at least 4wh long; every dealloc releases a live region inside which no resource is backed; every transfer is from a resource with backing'),
  ('C20_gpu_monitor_2023_rule_is_the_checker', 'Proofs/GpuMonProofs.v', 'backing_ok_rule', 'that rule is exactly what the specification-side checker backing_ok computes'),
  ('C20_gpu_monitor_2023_bookkeeping_from_history', 'Proofs/GpuMonProofs.v', 'brun_history', 'what the bookkeeping holds comes from earlier events: a live region was allocated at a non-zero address, a resource was created with that size, its backing was attached to it'),
  ('C20_gpu_monitor_2023_holds_of_model', 'Proofs/GpuMonProofs.v', 'mon_backing_holds_of_model', 'over every error-free life of the model closed by Drop the event list passes monitor 2023'),
  ('C20_gpu_monitor_2024_meaning', 'Proofs/GpuMonProofs.v', 'mon_resolution_meaning', 'monitor 2024: resolution() returned Ok with exactly width and height of pmodes[0]'),
  ('C20_gpu_monitor_2024_accepts_only_such_lines', 'Proofs/GpuMonProofs.v', 'mon_resolution_decodes', None),
  ('C20_gpu_monitor_2024_holds_of_model', 'Proofs/GpuMonProofs.v', 'mon_resolution_holds_of_model', None),
  ('C20_gpu_monitor_2025_meaning', 'Proofs/GpuMonProofs.v', 'mon_edid_meaning', 'monitor 2025, a true verdict on ANY list means: the list is [size] ++ 1024 bytes ++ [class; w; h; n] ++ n pairs (++ ignored rest); preferred_resolution() is the E-EDID reading of detailed timing #1 or an error where there is none; standard_timings() is empty below 128 bytes, otherwise the same multiset as the used standard-timing slots, by decreasing pixel count, equal counts in slot order, at most 8'),
  ('C20_gpu_monitor_2025_holds_of_model', 'Proofs/GpuMonProofs.v', 'mon_edid_holds_of_model', "for EVERY 1024-byte blob and every size the results of the model's Edid methods pass monitor 2025"),
  ('C20_gpu_monitor_2026_meaning', 'Proofs/GpuMonProofs.v', 'mon_image_meaning', "monitor 2026 (monitor only): the device read all 16384 bytes of the caller's cursor image unchanged"),
  ('C20_gpu_monitor_kinds', 'Proofs/GpuMonProofs.v', 'gpu_monitor_kinds', None),
  ('C20_gpu_monitor_lines_nonvacuous', 'Proofs/GpuMonProofs.v', 'mon_lines_nonvacuous', 'concrete accepted and refused lines of monitors 2020 and 2023'),
  ('C20_gpu_monitor_2022_accepts_cleanup_after_error', 'Proofs/GpuMonProofs.v', 'mon_errors_accepts_cleanup_after_an_error_answer', 'AUDIT: 2022 used to demand that the unexpected answer is the last request; the clause was removed: a clean-up command after an error answer is accepted'),
  ('C20_gpu_monitor_2022_ignores_class_when_all_expected', 'Proofs/GpuMonProofs.v', 'mon_errors_ignores_the_class_when_all_answers_are_expected', 'AUDIT: with only expected answers 2022 does not look at the class'),
  ('C20_gpu_monitor_2021_fixes_teardown_order', 'Proofs/GpuMonProofs.v', 'mon_sequence_fixes_the_teardown_order', 'AUDIT: 2021 fixes the order of the tear-down commands, which the property text does not name'),
]
