"""C20 (part "misc": rng / rtc / 9p): check configuration (PROPS_ENTRY, consumed by ./check and gen_manifest.py) and the list of lemmas
that make up the property file (SPEC_ENTRY, consumed by tools/mkprops.py). The GPU+EDID and sound parts are separate work; their
entries are to be merged into this file."""
PROPS_ENTRY = {'models': ['Model/Queue.v', 'Model/Misc.v', 'Model/MiscSpec.v'],
 'design_ref': 'DESIGN.md 3 C20',
 'assumptions': ['scope of this part: src/device/rng.rs (request_entropy, enable/disable_interrupts), src/device/rtc.rs (request, num_clocks, clock_cap, read, invalid_feature_bits and all five request structures), '
                 'src/device/virtio_9p.rs (request, read_mount_tag as called from new). Not covered: the constructors\' handshake (C08), teardown (C09), config-space '
                 'bounds and torn reads (C13), ack_interrupt (a plain delegation to the transport); GPU, EDID and sound '
                 '(other parts of C20)',
                 'Hal contract (Model/BlkSpec.hal_ev): a device-readable buffer is visible to the device at the address share() returned with the contents it had at '
                 'share time; what the device left in a device-writable buffer is in the caller\'s buffer after unshare(). The harness platform (LedgerHal, bounce '
                 'buffers) implements exactly this',
                 'every operation is stated for an idle queue, as add_notify_wait_pop documents ("assumes that the device isn\'t processing any other buffers"); all '
                 'public operations of the three drivers are blocking, so an idle queue is what every operation of a history finds as long as the device completes '
                 'the chain it was given (theorem C20_misc_rtc_history); a device that uses a foreign id makes the call return WrongToken (theorem clause) and '
                 'leaves the request queued: histories are not continued after that',
                 'the wait loop is modelled over the list of used-index values its evaluations see; the theorems hold for every such list on which the wait ends '
                 '(termination of the wait is the device\'s business: C05)',
                 'a device that records a used length different from what it wrote is NOT excluded: rng returns the recorded length unclamped (may exceed dst.len()), '
                 'rtc ignores the used length (a short answer is read over the zero-initialised response: status byte 0 = S_OK, values 0), 9p compares it only with the size '
                 'field (may exceed resp.len()); these behaviours are transcribed, proved as stated (rng_length_not_clamped, p9_size_not_clamped, rtc_request_spec: '
                 'the result does not depend on u_len) and reported as observations, not as violations of the property text',
                 'the RTC field tables in Model/MiscSpec.v are written from the structure documentation in rtc.rs (doc aliases virtio_rtc_*) and the VirtIO 1.4 draft '
                 'as I know it; the specification text itself is not available offline. cross_cap / read_cross structures exist in rtc.rs but no public operation sends '
                 'them: their encoders are proved to round-trip but are NOT tied to the code by the correspondence (nothing emits them)',
                 'String::from_utf8 is modelled by the validator Model/Misc.utf8_valid (proved equal to Unicode D92 well-formedness); it is tied to the real '
                 'library function by the correspondence and by monitor 2096, which compares it with std::str::from_utf8 on every generated tag',
                 'usize = u64, little-endian target (zerocopy as_bytes / read_from_prefix = the LE encodings); 16-bit index wrap of the queue under these drivers is not '
                 're-driven here (C01-C05 drive it with the index hook; the drivers have no such hook)'],
 'trusted_extra': ['reference devices harness/src/scen/c20_misc.rs (Dev): walk chains and read/write buffers through device addresses only, decode rtc requests with '
                   'their own decoder written from the field tables, answer with every status, short / oversized used lengths, short writes, a foreign used id',
                   'payload bytes travel through the trace as equality flags computed by the harness (caller buffer == bytes in device memory); request bytes, '
                   'response bytes, size fields, config space and chain shapes travel as numbers and are decoded by the extracted specification decoders']}

SPEC_ENTRY = {'title': 'Command/response drivers encode requests per spec and check every response (part: rng, rtc, 9p)',
 'imports': ['Model.Queue', 'Proofs.QueueInv', 'Proofs.QueueReach', 'Proofs.QueueProps', 'Model.Blk', 'Model.BlkSpec', 'Model.BlkWorld', 'Proofs.BlkProofs',
             'Model.Misc', 'Model.MiscSpec', 'Proofs.MiscProofs'],
 'theorems': [('C20_misc_blocking', 'Proofs/MiscProofs.v', 'anwp_blocking',
               'add_notify_wait_pop on an idle queue, against memory, for EVERY caller buffers, share addresses, device behaviour and used-ring content: the device '
               'reaches exactly the caller\'s buffers from the published head (readable first), notify iff should_notify; if the device used that chain the result is '
               'the used length it recorded, writable buffers hold what it left, the queue is idle again; a foreign id gives WrongToken and nothing is copied back'),
              ('C20_misc_blocking_is_core', 'Proofs/MiscProofs.v', 'anwp_w_core', 'the memory-level helper is the flat operation replayed against the implementation'),
              ('C20_misc_rng', 'Proofs/MiscProofs.v', 'rng_request_spec',
               'request_entropy: exactly one device-writable buffer of dst.len() bytes is published; the result is the used length the device recorded (u32, not clamped); '
               'dst holds exactly the bytes the device left at its device address; no other caller memory changes; idle again'),
              ('C20_misc_rng_length_not_clamped', 'Proofs/MiscProofs.v', 'rng_length_not_clamped',
               'observation: a device recording 100 for a 4-byte buffer makes request_entropy return 100'),
              ('C20_misc_rtc_roundtrip', 'Proofs/MiscProofs.v', 'rtc_req_roundtrip',
               'the decoder written from the field tables (le16 msg_type, reserved zero, le16 clock_id, u8 hw_counter, exact sizes 8 / 16) recovers exactly the '
               'request from the bytes the driver-side encoder (the #[repr(C)] structures) produces, for all five request structures and every clock id < 2^16, hw counter < 2^8'),
              ('C20_misc_rtc_injective', 'Proofs/MiscProofs.v', 'rtc_enc_req_injective', None),
              ('C20_misc_rtc_status', 'Proofs/MiscProofs.v', 'rtc_status_map',
               'for EVERY status byte: Ok exactly for S_OK = 0; EOPNOTSUPP -> Unsupported, ENODEV / EINVAL -> InvalidParam, EIO and every undefined value -> IoError; '
               'agrees with the specification table'),
              ('C20_misc_rtc_num_clocks_value', 'Proofs/MiscProofs.v', 'rtc_num_clocks_value', 'the driver-side field reader returns the reported le16 num_clocks, for every value'),
              ('C20_misc_rtc_read_value', 'Proofs/MiscProofs.v', 'rtc_read_value', 'the driver-side field reader returns the reported le64 clock_reading, for every value'),
              ('C20_misc_rtc_clock_cap_value', 'Proofs/MiscProofs.v', 'rtc_clock_cap_value',
               'for every (type, smearing, flags): the capability of the specification tables (smearing only for UTC_SMEARED, alarm = bit 0), Unsupported for an undefined '
               'type or variant'),
              ('C20_misc_rtc_request', 'Proofs/MiscProofs.v', 'rtc_request_spec',
               'VirtIORtc::request on an idle queue, every device behaviour: chain = [request R][response W] with the structure sizes; device-visible memory holds the encoded '
               'request and the specification decoder reads it back; the result is decided by the status byte the device left (the used length plays no role); WrongToken '
               'for a foreign id'),
              ('C20_misc_rtc_operation', 'Proofs/MiscProofs.v', 'rtc_op_spec',
               'num_clocks / clock_cap / read end to end for EVERY 16 bytes a device leaves: Ok exactly when the status byte is S_OK, then with the values read at the '
               'specified positions; otherwise the status table\'s error; queue idle again'),
              ('C20_misc_rtc_values_end_to_end', 'Proofs/MiscProofs.v', 'rtc_values_end_to_end',
               'against a device answering per the specification: num_clocks = reported n, read = reported t, clock_cap = the capability table, iff status S_OK'),
              ('C20_misc_rtc_history', 'Proofs/MiscProofs.v', 'rtc_history',
               'every operation of every sequence of clock operations (any length, any device answers and delays) returns the specification\'s reading of the answer; the queue ends idle'),
              ('C20_misc_history', 'Proofs/MiscProofs.v', 'anwp_history',
               'every call of every history of blocking calls (rng, 9p, rtc: any buffer shapes, memories, device behaviours and delays) on a queue that starts idle returns '
               'the used length the device recorded for it, and the queue is idle again after every call: the per-call theorems apply to every call of a history'),
              ('C20_misc_history_nonvacuous', 'Proofs/MiscProofs.v', 'anwp_history_nonvacuous', None),
              ('C20_misc_rtc_operation_is_core', 'Proofs/MiscProofs.v', 'rtc_op_w_core', None),
              ('C20_misc_9p_args', 'Proofs/MiscProofs.v', 'p9_request_args',
               'an empty request or a response buffer below 7 bytes: InvalidParam with no effect at all'),
              ('C20_misc_9p_request', 'Proofs/MiscProofs.v', 'p9_request_spec',
               'chain = [request R req.len()][response W resp.len()], the device sees exactly the caller\'s request bytes; the caller\'s buffer receives what the device left; '
               'Ok(used) exactly when the LE size field of the first four bytes equals the used length (u32), IoError otherwise; request buffer untouched; idle again'),
              ('C20_misc_9p_spec_device', 'Proofs/MiscProofs.v', 'p9_request_spec_device',
               'against a device answering with a well-formed message of size bytes (7 <= size <= resp.len(), size[4] = size, used = size): Ok(size) and the buffer starts with the message'),
              ('C20_misc_9p_size_not_clamped', 'Proofs/MiscProofs.v', 'p9_size_not_clamped',
               'observation: size field = used length = 100 on a 7-byte buffer returns Ok(100)'),
              ('C20_misc_9p_request_is_core', 'Proofs/MiscProofs.v', 'p9_w_core', None),
              ('C20_misc_mount_tag', 'Proofs/MiscProofs.v', 'mount_tag_spec',
               'read_mount_tag for every schedule of config changes: decided by the first attempt with a stable generation; if that attempt saw config space cfg the result is '
               'the tag of struct virtio_9p_config (tag_len bytes after the le16 length) when present and well-formed UTF-8, InvalidParam for tag_len 0, the transport error when '
               'the config space ends before the tag, IoError for invalid UTF-8'),
              ('C20_misc_mount_tag_closure', 'Proofs/MiscProofs.v', 'tag_closure_cfg', None),
              ('C20_misc_utf8', 'Proofs/MiscProofs.v', 'utf8_valid_iff',
               'the validator accepts exactly the encodings of sequences of Unicode scalar values (no overlong forms, no surrogates, nothing above U+10FFFF, no truncation)'),
              ('C20_misc_rtc_invalid_bits', 'Proofs/MiscProofs.v', 'rtc_invalid_bits_spec',
               'invalid_feature_bits: bit k is set exactly when the device offers bit k (k < 64) and the rtc Feature type does not name it'),
              ('C20_misc_rng_set_interrupts', 'Proofs/MiscProofs.v', 'rng_set_interrupts_idle', None),
              ('C20_misc_rtc_invalid_bits_nonvacuous', 'Proofs/MiscProofs.v', 'rtc_invalid_bits_nonvacuous', None),
              ('C20_misc_rtc_roundtrip_nonvacuous', 'Proofs/MiscProofs.v', 'rtc_req_roundtrip_nonvacuous', None),
              ('C20_misc_rtc_values_nonvacuous', 'Proofs/MiscProofs.v', 'rtc_values_nonvacuous', None),
              ('C20_misc_rng_nonvacuous', 'Proofs/MiscProofs.v', 'rng_request_spec_nonvacuous', None),
              ('C20_misc_rtc_operation_nonvacuous', 'Proofs/MiscProofs.v', 'rtc_op_spec_nonvacuous', None),
              ('C20_misc_rtc_history_nonvacuous', 'Proofs/MiscProofs.v', 'rtc_history_nonvacuous', None),
              ('C20_misc_9p_nonvacuous', 'Proofs/MiscProofs.v', 'p9_request_spec_nonvacuous', None),
              ('C20_misc_mount_tag_nonvacuous', 'Proofs/MiscProofs.v', 'mount_tag_spec_nonvacuous', None),
              ('C20_misc_utf8_nonvacuous', 'Proofs/MiscProofs.v', 'utf8_nonvacuous', None)]}
