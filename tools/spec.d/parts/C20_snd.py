"""C20 (sound driver part; the GPU/EDID and rng/rtc/9p parts are registered by their own builders and merged):
check configuration (PROPS_ENTRY, consumed by ./check and gen_manifest.py) and the list of lemmas that make up the
property file (SPEC_ENTRY, consumed by tools/mkprops.py)."""
PROPS_ENTRY = {'models': ['Model/Queue.v', 'Model/SoundSpec.v', 'Model/Sound.v'],
 'design_ref': 'DESIGN.md 3 C20',
 'assumptions': ['Hal contract (Model/BlkSpec.hal_ev, shared with C14): a device-readable buffer is visible to the device at the address share() returned with the '
                 'contents it had at share time; the two device-readable buffers of one TX message (stream id, chunk) get different device addresses '
                 '(env_ok: xe_asid <> xe_achunk). The harness platform (LedgerHal, bounce buffers) implements exactly this',
                 'control operations and the blocking pcm_xfer are stated for an idle queue (ctl_idle / tx_idle), which is what the driver assumes: one control '
                 'request at a time (add_notify_wait_pop), pcm_xfer not mixed with outstanding token transfers; every operation re-establishes idleness '
                 '(theorem clauses), so the statements compose over histories',
                 'blocking pcm_xfer: the device completes TX messages in submission order and writes status OK (env_ok: the used element names tokens[tail], '
                 'the status is 0x8000) - the property\'s own quantifier ("in-order completion of the blocking call", "in the absence of device errors"); '
                 'WHEN and how many at a time is arbitrary. An error status is covered by C20_snd_pcm_error_status (the call fails); an out-of-order '
                 'completion makes the code return WrongToken with chains still queued (outside the property; C07 territory)',
                 'busy-waits are modelled over the device words their last evaluation saw; the theorems hold for every environment on which the wait ends '
                 '(termination of the wait is the device\'s business: C05)',
                 'queue size 32 (QUEUE_SIZE of sound.rs) and queue states reachable under the caller contract of Proofs/QueueReach.v; usize = u64, '
                 'little-endian target (zerocopy as_bytes / read_from_bytes of the #[repr(C)] structures = the LE field encodings of Model/Sound.v, tied '
                 'byte by byte by the correspondence)',
                 'set_up: the exclusion "the device claims OK for more items than fit the 4096-byte receive buffer" (is_fatal hypotheses of '
                 'C20_snd_set_up): the driver\'s slice bound then panics (C20_snd_items_overflow); a conforming device cannot produce such an answer',
                 'VirtIOSound::new succeeding (queue creation and handshake are C06 / C08): the model starts from the state new() leaves; the three configuration reads '
                 'of new are modelled at Transport-call level (snd_read_config, kind 2039); the event queue / latest_notification is modelled in Model/Sound.v and '
                 'proved under C19 (C19_snd_*, kinds 1980 / 1981, monitor 1982); monitor 2056 stays'],
 'trusted_extra': ['reference sound device harness/src/scen/c20_snd.rs (SndDev): walks chains and decodes control and TX messages through device addresses with '
                   'its own decoder written from VirtIO 1.2 section 5.14; answers OK or any status; completes TX messages in order (blocking) or in PRNG '
                   'order (token interface); event-queue completions via scen/c19.rs ODev',
                   'the per-iteration environment of the pcm_xfer loop (share addresses, suppression words, used-ring words, status) is reconstructed by the '
                   'harness at every busy-wait report (hook site 2) from the event log and device memory; which of the two queues a device-visible store '
                   'belongs to is decided by comparing the driver-written areas of both queues with shadows',
                   'frames and device-read bytes travel through the trace as numbers (views: what the device read from each published chain) and are compared '
                   'with the model\'s device view (chain walk + Hal memory contract); data equality per TX message additionally as a flag computed by the '
                   'harness (monitor 2052)']}

SPEC_ENTRY = {'title': 'Command/response drivers encode requests per spec and check every response (sound driver)',
 'imports': ['Model.Queue', 'Proofs.QueueInv', 'Proofs.QueueReach', 'Proofs.QueueProps', 'Model.Blk', 'Model.BlkSpec', 'Model.SoundSpec', 'Model.Sound',
             'Proofs.BlkProofs', 'Proofs.SoundProofs'],
 'theorems': [
  ('C20_snd_query_roundtrip', 'Proofs/SoundProofs.v', 'query_roundtrip',
   'the info queries (JACK_INFO / PCM_INFO / CHMAP_INFO): the decoder written from VirtIO 1.2 5.14.6.1 (le32 code, start_id, count, size) recovers exactly '
   'the caller\'s values from the 16 bytes the driver builds, for all 32-bit values'),
  ('C20_snd_pcm_hdr_roundtrip', 'Proofs/SoundProofs.v', 'pcm_hdr_roundtrip', 'PREPARE / RELEASE / START / STOP: virtio_snd_pcm_hdr (code, stream_id)'),
  ('C20_snd_set_params_roundtrip', 'Proofs/SoundProofs.v', 'set_params_roundtrip',
   'virtio_snd_pcm_set_params: stream id, buffer_bytes, period_bytes, features (le32 each), channels, format, rate (u8 each), padding 0, each in its field position'),
  ('C20_snd_jack_remap_roundtrip', 'Proofs/SoundProofs.v', 'jack_remap_roundtrip', None),
  ('C20_snd_xfer_hdr_roundtrip', 'Proofs/SoundProofs.v', 'xfer_hdr_roundtrip',
   'a TX message: the 4 little-endian bytes of the stream id followed by the data, 8 device-writable bytes, decodes to (stream id, data) for every stream id and data'),
  ('C20_snd_codes', 'Proofs/SoundProofs.v', 'codes_match', 'the request / status codes and item sizes of the driver are the specification\'s'),
  ('C20_snd_jack_info_roundtrip', 'Proofs/SoundProofs.v', 'jack_info_roundtrip', 'what a device encodes per 5.14.6.4.1 is read back field by field (any padding)'),
  ('C20_snd_pcm_info_roundtrip', 'Proofs/SoundProofs.v', 'pcm_info_roundtrip', None),
  ('C20_snd_chmap_info_roundtrip', 'Proofs/SoundProofs.v', 'chmap_info_roundtrip', None),
  ('C20_snd_status_header', 'Proofs/SoundProofs.v', 'hdr_ok_iff', 'a response is taken as success exactly when its first le32 is VIRTIO_SND_S_OK (0x8000), for every response'),
  ('C20_snd_items_read_back', 'Proofs/SoundProofs.v', 'parse_all_spec',
   'a query response status OK ++ items: the driver reads back exactly the items, for every item count that fits the 4096-byte receive buffer'),
  ('C20_snd_items_overflow', 'Proofs/SoundProofs.v', 'parse_infos_overflow', 'items beyond the receive buffer are never read: the slice bound panics'),
  ('C20_snd_request', 'Proofs/SoundProofs.v', 'ctl_request_wire',
   'one control request on the idle control queue, for EVERY device behaviour: the device reads exactly the request bytes and has 4096 writable bytes; '
   'notify iff should_notify; if it completed this request the receive buffer is returned and the queue is idle again; a foreign used id gives WrongToken'),
  ('C20_snd_cmd', 'Proofs/SoundProofs.v', 'pcm_cmd_spec',
   'pcm_prepare / release / start / stop: the request decodes to (code, caller\'s stream id); Ok iff the device answered OK, IoError for every other response value'),
  ('C20_snd_set_params', 'Proofs/SoundProofs.v', 'set_params_spec',
   'pcm_set_params: period 0, period > buffer or buffer not a multiple of period -> InvalidParam with no traffic; otherwise the request decodes to the caller\'s '
   'parameters (which satisfy the specification\'s divider rule); any response but OK -> IoError and the stored parameters untouched; OK -> recorded for this stream'),
  ('C20_snd_jack_remap', 'Proofs/SoundProofs.v', 'jack_remap_spec', None),
  ('C20_snd_jack_remap_guards', 'Proofs/SoundProofs.v', 'jack_remap_guards', None),
  ('C20_snd_set_up', 'Proofs/SoundProofs.v', 'set_up_spec',
   'set_up for every answer of the device: the queries are JACK_INFO, PCM_INFO, CHMAP_INFO in this order for items 0..total-1 with the specification\'s item '
   'sizes; a failed PCM_INFO is returned as IoError; a failed JACK_INFO / CHMAP_INFO leaves an empty list (the driver\'s documented tolerance, NOT an error '
   'of the enclosing operation); the stored items are the ones read from the responses'),
  ('C20_snd_values_stored', 'Proofs/SoundProofs.v', 'stored_infos_are_reported', 'against a device answering per the specification the stored jack / stream / channel-map information is what it reported'),
  ('C20_snd_values_queries', 'Proofs/SoundProofs.v', 'get_spec',
   'output_streams / input_streams / rates / formats / channel range / features are derived from the stored (= reported) information as the specification\'s fields say; '
   'a stream id beyond the reported ones -> InvalidParam'),
  ('C20_snd_state_rule_refusal', 'Proofs/SoundProofs.v', 'xfer_requires_params',
   'set parameters before transfer: for a stream without accepted parameters pcm_xfer and pcm_xfer_nb return IoError, nothing reaches the device, nothing changes'),
  ('C20_snd_state_rule_reachable', 'Proofs/SoundProofs.v', 'reachable_params_wf',
   'for EVERY history of public operations with arbitrary arguments and arbitrary device answers: a stream is marked set-up only with parameters that passed the checks'),
  ('C20_snd_period_nonzero', 'Proofs/SoundProofs.v', 'reachable_period_nonzero', None),
  ('C20_snd_chunks', 'Proofs/SoundProofs.v', 'chunks_spec', 'frames.chunks(period): the pieces concatenate to the frames, each has between 1 and period bytes'),
  ('C20_snd_pcm_blocking', 'Proofs/SoundProofs.v', 'xfer_blocking',
   'pcm_xfer, for every frame buffer, period > 0, stream id, share addresses, and every timing / batching of in-order error-free completions: the loop ends with Ok, '
   'the queue is idle again, and the TX messages the device received decode, in order, to (this stream id, piece) with the pieces non-empty, at most period bytes, '
   'concatenating to exactly the caller\'s frames (built on add_publishes / pop_refines through the 32-entry token ring invariant XInv)'),
  ('C20_snd_pcm_xfer', 'Proofs/SoundProofs.v', 'pcm_xfer_spec', None),
  ('C20_snd_pcm_capacity', 'Proofs/SoundProofs.v', 'xfer_outstanding_bound',
   'at every point of the loop: descriptors in use = (3 direct | 1 indirect) x outstanding messages <= 32, i.e. never more outstanding than the queue admits'),
  ('C20_snd_pcm_error_status', 'Proofs/SoundProofs.v', 'xfer_pop_status', 'a completed message whose status is anything but OK makes pcm_xfer return IoError, for every status value'),
  ('C20_snd_nb_submit', 'Proofs/SoundProofs.v', 'xfer_nb_spec',
   'pcm_xfer_nb with anything outstanding: no room -> QueueFull with no effect; otherwise ONE message = stream id ++ exactly the caller\'s frames (one period) with 8 '
   'writable bytes, recorded under its token'),
  ('C20_snd_nb_complete', 'Proofs/SoundProofs.v', 'xfer_ok_spec',
   'pcm_xfer_ok for an outstanding token, every used-ring content and status: nothing ready -> NotReady, another token first -> WrongToken (both without effect), '
   'own token next -> leaves the queue and the maps, result decided by its own status only'),
  ('C20_snd_nb_unknown_token', 'Proofs/SoundProofs.v', 'xfer_ok_unknown', None),
  ('C20_snd_nb_out_of_order', 'Proofs/SoundProofs.v', 'nb_out_of_order',
   'any number of token transfers completed in ANY permutation of the submission order: each pcm_xfer_ok returns the result of its own status, the queue and the maps end empty'),
  ('C20_snd_nb_status', 'Proofs/SoundProofs.v', 'xfer_ok_checks_status', '(after the repair) pcm_xfer_ok: Ok exactly for status OK, IoError for every other value'),
  ('C20_snd_nb_prefix_refuted', 'Proofs/SoundProofs.v', 'xfer_ok_prefix_refuted',
   'before the repair pcm_xfer_ok ignored the status the device wrote: a transfer completed with VIRTIO_SND_S_IO_ERR was reported as Ok'),
  ('C20_snd_nb_prefix_partial', 'Proofs/SoundProofs.v', 'xfer_ok_prefix_partial', None),
  ('C20_snd_jack_remap_prefix_refuted', 'Proofs/SoundProofs.v', 'jack_remap_prefix_refuted',
   'before the repair jack_remap panicked (unwrap of a missing list entry) when the jack query had failed and been tolerated'),
  ('C20_snd_jack_remap_missing_info', 'Proofs/SoundProofs.v', 'jack_remap_missing_info', '(after the repair) IoError, nothing reaches the device'),
  ('C20_snd_roundtrip_nonvacuous', 'Proofs/SoundProofs.v', 'roundtrip_nonvacuous', None),
  ('C20_snd_items_nonvacuous', 'Proofs/SoundProofs.v', 'parse_all_nonvacuous', None),
  ('C20_snd_ctl_ops_nonvacuous', 'Proofs/SoundProofs.v', 'ctl_ops_nonvacuous', None),
  ('C20_snd_set_up_nonvacuous', 'Proofs/SoundProofs.v', 'set_up_nonvacuous', None),
  ('C20_snd_pcm_blocking_nonvacuous', 'Proofs/SoundProofs.v', 'xfer_blocking_nonvacuous', None),
  ('C20_snd_nb_nonvacuous', 'Proofs/SoundProofs.v', 'nb_nonvacuous', None),
  ('C20_snd_state_rule_nonvacuous', 'Proofs/SoundProofs.v', 'state_rule_nonvacuous', None),
  # ---- configuration counters and the stream queries against the raw answer (SoundProofs section 8)
  ('C20_snd_config_layout', 'Proofs/SoundProofs.v', 'snd_read_config_spec',
   'VirtIOSound::new reads jacks / streams / chmaps with three 4-byte reads at offsets 0, 4, 8 of struct virtio_snd_config (5.14.4), in this order; a refused read ends the constructor with the transport\'s error and the later fields are not read'),
  ('C20_snd_config_counters', 'Proofs/SoundProofs.v', 'snd_config_counters',
   'jacks() / streams() / chmaps() are the three little-endian fields of the configuration bytes the device exposed at construction, for every content and every feature word'),
  ('C20_snd_config_counters_nonvacuous', 'Proofs/SoundProofs.v', 'snd_config_counters_nonvacuous', None),
  ('C20_snd_pcm_answer_any_content', 'Proofs/SoundProofs.v', 'parse_all_any_content',
   'whatever bytes the device puts behind an OK status: the driver reads back, item by item, the fields at the positions of struct virtio_snd_pcm_info (5.14.6.6.2), for every item count that fits the receive buffer'),
  ('C20_snd_query_of_answer', 'Proofs/SoundProofs.v', 'snd_get_of_answer',
   'output_streams / input_streams / rates_supported / formats_supported / channel_range_supported / features_supported after set_up stored the answer rsp: exactly spec_stream_query of rsp (stream ids by direction byte in ascending order; rates / formats bitmaps; channels_min, channels_max; features of item stream_id), InvalidParam for a stream the device did not report; for EVERY content of the answer'),
  ('C20_snd_first_query', 'Proofs/SoundProofs.v', 'snd_first_query',
   'the first query, which runs set_up: for every answer of the device to the three info queries - PCM_INFO answered OK: the result is the specification\'s reading of THAT answer; answered with anything else: IoError and the driver stays un-set-up'),
  ('C20_snd_queries_nonvacuous', 'Proofs/SoundProofs.v', 'snd_queries_nonvacuous',
   'an answer no conforming device would send (direction 7, channels_min 200 > channels_max 3): the queries return exactly its fields')]}

# ---- the monitors evaluated on the IMPLEMENTATION's observations, tied to the statements they stand for (Proofs/SoundMonProofs.v):
# ---- "meaning" = what a true verdict implies, for any input list; "holds_of_model" = no false alarm on code that behaves like the model
SPEC_ENTRY['imports'] += [m for m in ['Model.Owning', 'Proofs.OwningProofs', 'Extract.SoundIO', 'Proofs.SoundMonProofs'] if m not in SPEC_ENTRY['imports']]
SPEC_ENTRY['theorems'] += [
  ('C20_snd_monitor_2050_meaning', 'Proofs/SoundMonProofs.v', 'mon_ctl_meaning', "accepted line = 2 elements (request readable, >=4 writable) and the bytes decode to the caller's request"),
  ('C20_snd_monitor_2050_fields', 'Proofs/SoundMonProofs.v', 'spec_decode_ctl_fields', 'the decoder unfolded to byte positions'),
  ('C20_snd_monitor_2050_holds_of_model', 'Proofs/SoundMonProofs.v', 'mon2050_holds_of_model', 'pcm cmd / set_params / jack_remap / info query of the model pass'),
  ('C20_snd_monitor_2050_holds_set_up', 'Proofs/SoundMonProofs.v', 'mon2050_holds_set_up', 'the three queries of set_up pass'),
  ('C20_snd_monitor_2051_meaning', 'Proofs/SoundMonProofs.v', 'mon_ctl_result_meaning', 'Ok iff status OK, error for every other status'),
  ('C20_snd_monitor_2051_holds_of_model', 'Proofs/SoundMonProofs.v', 'mon2051_holds_of_model', None),
  ('C20_snd_monitor_2052_meaning', 'Proofs/SoundMonProofs.v', 'mon_tx_meaning', 'stream id le32, 1..period data bytes, 8 writable, params accepted'),
  ('C20_snd_monitor_2052_holds_of_model', 'Proofs/SoundMonProofs.v', 'mon2052_holds_of_model', 'every message of the blocking pcm_xfer'),
  ('C20_snd_monitor_2052_holds_nb', 'Proofs/SoundMonProofs.v', 'mon2052_holds_nb', 'the message of pcm_xfer_nb'),
  ('C20_snd_monitor_2053_meaning', 'Proofs/SoundMonProofs.v', 'mon_xfer_meaning', None),
  ('C20_snd_monitor_2053_holds_of_model', 'Proofs/SoundMonProofs.v', 'mon2053_holds_of_model', None),
  ('C20_snd_monitor_2054_meaning', 'Proofs/SoundMonProofs.v', 'mon_nb_result_meaning', None),
  ('C20_snd_monitor_2054_holds_of_model', 'Proofs/SoundMonProofs.v', 'mon2054_holds_of_model', None),
  ('C20_snd_monitor_2055_meaning', 'Proofs/SoundMonProofs.v', 'mon_values_meaning', None),
  ('C20_snd_monitor_2055_holds_of_model', 'Proofs/SoundMonProofs.v', 'mon2055_holds_of_model', None),
  ('C20_snd_monitor_2056_meaning', 'Proofs/SoundMonProofs.v', 'mon_notif_meaning', None),
  ('C20_snd_monitor_2056_holds_of_model', 'Proofs/SoundMonProofs.v', 'mon2056_holds_of_model', 'for recorded lengths up to 8'),
  ('C20_snd_monitor_2057_meaning', 'Proofs/SoundMonProofs.v', 'mon_state_rule_meaning', None),
  ('C20_snd_monitor_2057_holds_of_model', 'Proofs/SoundMonProofs.v', 'mon2057_holds_of_model', None),
  ('C20_snd_monitor_2058_meaning', 'Proofs/SoundMonProofs.v', 'mon_snd_config_meaning', None),
  ('C20_snd_monitor_2058_holds_of_model', 'Proofs/SoundMonProofs.v', 'mon2058_holds_of_model', None),
  ('C20_snd_monitor_2059_meaning', 'Proofs/SoundMonProofs.v', 'mon_setup_order_meaning', 'prefix of JACK, PCM, CHMAP (stricter than the property: see the audit)'),
  ('C20_snd_monitor_2059_holds_of_model', 'Proofs/SoundMonProofs.v', 'mon2059_holds_of_model', None),
  ('C20_snd_monitor_2060_meaning', 'Proofs/SoundMonProofs.v', 'mon_no_panic_meaning', None),
  ('C20_snd_monitor_2060_holds_of_model', 'Proofs/SoundMonProofs.v', 'mon2060_holds_of_model', None),
  ('C20_snd_monitor_2061_meaning', 'Proofs/SoundMonProofs.v', 'mon_snd_config_bytes_meaning', None),
  ('C20_snd_monitor_2061_holds_of_model', 'Proofs/SoundMonProofs.v', 'mon2061_holds_of_model', None),
  ('C20_snd_monitor_2062_meaning', 'Proofs/SoundMonProofs.v', 'mon_values_raw_meaning', None),
  ('C20_snd_monitor_2062_holds_of_model', 'Proofs/SoundMonProofs.v', 'mon2062_holds_of_model', None),
  ('C20_snd_monitor_kinds', 'Proofs/SoundMonProofs.v', 'sound_monitor_true', 'verdict [1] of kind k = true of its function'),
  ('C20_snd_monitor_1982_meaning', 'Proofs/SoundMonProofs.v', 'mon_snd_notif_meaning', "(C19 monitor that lives in SoundIO.v) nothing pending / id out of range: nothing touched; else re-posted under the same token, notified iff required, result = the specification's reading"),
  ('C20_snd_monitor_1982_holds_of_model', 'Proofs/SoundMonProofs.v', 'mon1982_holds_of_model', "every observation read from the model's successor state and events, every device behaviour"),
]
