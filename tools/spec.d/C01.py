"""C01: check configuration (PROPS_ENTRY, consumed by ./check and gen_manifest.py) and the list of lemmas that make up
the property file (SPEC_ENTRY, consumed by tools/mkprops.py)."""
PROPS_ENTRY = {'models': ['Model/Queue.v', 'Model/Init.v', 'Model/InitSpec.v'],
 'design_ref': 'DESIGN.md 3.0, 3 C01',
 'assumptions': ['driver level: every driver is also constructed with each subset of the ring features (scenario c08-ring-features-*, monitors 852 / 853 of C08): each of its queues gets exactly the negotiated flags, so an indirect table is only ever published on a queue for which RING_INDIRECT_DESC was negotiated; a quarter of the queue histories run on the legacy layout',
                 'caller contract of add: buffers non-empty and shorter than 2^32 (bufs_ok)', 'sequentially consistent memory'],
 'trusted_extra': ['harness reference device walks chains through device addresses resolved by the ledger Hal']}

SPEC_ENTRY = {'title': "Every published buffer chain is well-formed and describes the caller's buffers",
 'imports': ['Model.Queue', 'Proofs.QueueInv', 'Proofs.QueueReach', 'Proofs.QueueProps'],
 'theorems': [('C01_add_publishes',
               'Proofs/QueueProps.v',
               'add_publishes',
               'for every reachable state (any history, size 2^k, flags) and any device: what the device reaches from the new ring entry is exactly the '
               "caller's buffers (address, length, direction, order), readable before writable, in the slot designated by the previous index, index +1 mod "
               '2^16, indirect iff enabled and more than one buffer, no cell of another outstanding chain touched'),
              ('C01_all_outstanding_wf',
               'Proofs/QueueProps.v',
               'all_chains_walk',
               'at any time, every outstanding chain still walks to the buffers submitted for it'),
              ('C01_disjoint', 'Proofs/QueueProps.v', 'chains_disjoint', 'no descriptor belongs to two outstanding chains; the counter is exact'),
              ('C01_invariant', 'Proofs/QueueReach.v', 'Reach_Inv', 'the invariant behind all of the above holds in every reachable state'),
              ('C01_walk_of_chain', 'Proofs/QueueProps.v', 'walk_chain_ok', None)],
 'examples': ['Example C01_nonvacuous : exists s1 evs, add (qnew 4 false false) [mkBuf 1 8 100] [mkBuf 2 16 200] 0 = (Ok 0, s1, evs)\n'
              '  /\\ walk (q_dtable s1) (fun _ => None) 0 4 = Some [(100, 8, false); (200, 16, true)].\n'
              'Proof. eexists; eexists; vm_compute; split; reflexivity. Qed.',
              'Example C01_nonvacuous_indirect : exists s1 evs, add (qnew 4 true false) [mkBuf 1 8 100] [mkBuf 2 16 200] 900 = (Ok 0, s1, evs)\n'
              '  /\\ walk (q_dtable s1) (fun a => if a =? 900 then nthN (q_ind s1) 0 None else None) 0 4 = Some [(100, 8, false); (200, 16, true)].\n'
              'Proof. eexists; eexists; vm_compute; split; reflexivity. Qed.']}
