"""C01: check configuration (PROPS_ENTRY, consumed by ./check and gen_manifest.py) and the list of lemmas that make up
the property file (SPEC_ENTRY, consumed by tools/mkprops.py)."""
PROPS_ENTRY = {'models': ['Model/Queue.v', 'Model/QueueNoAlloc.v', 'Model/Init.v', 'Model/InitSpec.v'],
 'design_ref': 'DESIGN.md 3.0, 3 C01',
 'assumptions': ['driver level: every driver is also constructed with each subset of the ring features (scenario c08-ring-features-*, monitors 852 / 853 of C08): each of its queues gets exactly the negotiated flags, so an indirect table is only ever published on a queue for which RING_INDIRECT_DESC was negotiated; a quarter of the queue histories run on the legacy layout',
                 'caller contract of add: buffers non-empty and shorter than 2^32 (bufs_ok)',
                 'alloc-less build configuration (--no-default-features): the harness is built a second time without the cargo feature alloc; its queue histories (standard + directed capacity histories, indirect requested in half of them) are replayed through Model/QueueNoAlloc.v (kind 3) under the same monitors plus 151 / 169; theorems C01_noalloc_*', 'sequentially consistent memory'],
 'trusted_extra': ['harness reference device walks chains through device addresses resolved by the ledger Hal']}

SPEC_ENTRY = {'title': "Every published buffer chain is well-formed and describes the caller's buffers",
 'imports': ['Model.Queue', 'Proofs.QueueInv', 'Proofs.QueueReach', 'Proofs.QueueProps', 'Model.QueueNoAlloc', 'Proofs.QueueNoAllocProofs'],
 'theorems': [('C01_add_publishes',
               'Proofs/QueueProps.v',
               'add_publishes',
               'for every reachable state (any history, size 2^k, flags) and any device: what the device reaches from the new ring entry is exactly the '
               "caller's buffers (address, length, direction, order), readable before writable, in the slot designated by the previous index, index +1 mod "
               '2^16, indirect iff enabled and more than one buffer, no cell of another outstanding chain touched'),
              ('C01_all_outstanding_wf',
               'Proofs/QueueProps.v',
               'all_chains_walk',
               'at any time, every outstanding chain still walks to the buffers submitted for it'),
              ('C01_disjoint', 'Proofs/QueueProps.v', 'chains_disjoint', 'no descriptor belongs to two outstanding chains; the counter is exact'),
              ('C01_invariant', 'Proofs/QueueReach.v', 'Reach_Inv', 'the invariant behind all of the above holds in every reachable state'),
              ('C01_walk_of_chain', 'Proofs/QueueProps.v', 'walk_chain_ok', None),
              # ---- the alloc-less build configuration of the crate (--no-default-features): Model/QueueNoAlloc.v ----
              ('C01_noalloc_new_ignores_indirect', 'Proofs/QueueNoAllocProofs.v', 'na_new_eq', 'alloc-less build: VirtQueue::new drops the request for indirect descriptors: the queue is the direct queue of Model/Queue.v'),
              ('C01_noalloc_capacity_equiv', 'Proofs/QueueNoAllocProofs.v', 'na_capacity_equiv', 'alloc-less build: the one-clause capacity test `num_used + needed > SIZE` is the three-clause test of the default build with indirect off, for every state, as soon as one buffer is offered (the empty submission is refused earlier in both)'),
              ('C01_noalloc_add_eq', 'Proofs/QueueNoAllocProofs.v', 'na_add_eq', 'alloc-less build: `add` IS `add` of Model/Queue.v on every state with q_indirect = false, all inputs (any table address: it is never used)'),
              ('C01_noalloc_pop_used_eq', 'Proofs/QueueNoAllocProofs.v', 'na_pop_used_eq', 'alloc-less build: `pop_used` / `recycle_descriptors` IS that of Model/Queue.v unless the SHADOW descriptor of the completed head carries INDIRECT (the compiled-out branch; never written in this build, C01_noalloc_never_indirect)'),
              ('C01_noalloc_ignores_missing_fields', 'Proofs/QueueNoAllocProofs.v', 'na_add_ignores_ind', 'alloc-less build: `add` does not read the two fields the struct does not have in this configuration'),
              ('C01_noalloc_transfer', 'Proofs/QueueNoAllocProofs.v', 'NaReach_Reach', 'every history of the alloc-less build (any request at new, any device) is a history of Model/Queue.v with indirect off: all theorems about Reach apply'),
              ('C01_noalloc_add_publishes', 'Proofs/QueueNoAllocProofs.v', 'na_add_publishes', 'C01_add_publishes for the alloc-less `add`: the device reaches exactly the caller buffers through the main table alone (the memory view offers no table)'),
              ('C01_noalloc_never_indirect', 'Proofs/QueueNoAllocProofs.v', 'na_never_indirect', 'C01 / C08, alloc-less build: a driver that negotiated RING_INDIRECT_DESC and asked for indirect descriptors never publishes an INDIRECT descriptor and never shares a table (monitor 169)')],
 'examples': ['Example C01_nonvacuous : exists s1 evs, add (qnew 4 false false) [mkBuf 1 8 100] [mkBuf 2 16 200] 0 = (Ok 0, s1, evs)\n'
              '  /\\ walk (q_dtable s1) (fun _ => None) 0 4 = Some [(100, 8, false); (200, 16, true)].\n'
              'Proof. eexists; eexists; vm_compute; split; reflexivity. Qed.',
              'Example C01_nonvacuous_indirect : exists s1 evs, add (qnew 4 true false) [mkBuf 1 8 100] [mkBuf 2 16 200] 900 = (Ok 0, s1, evs)\n'
              '  /\\ walk (q_dtable s1) (fun a => if a =? 900 then nthN (q_ind s1) 0 None else None) 0 4 = Some [(100, 8, false); (200, 16, true)].\n'
              'Proof. eexists; eexists; vm_compute; split; reflexivity. Qed.',
              'Example C01_noalloc_nonvacuous : exists s1 evs, na_add (na_new 4 true false) [mkBuf 1 8 100] [mkBuf 2 16 200] = (Ok 0, s1, evs)\n'
              '  /\\ walk (q_dtable s1) (fun _ => None) 0 4 = Some [(100, 8, false); (200, 16, true)] /\\ no_indirect_b (q_dtable s1) = true\n'
              '  /\\ NaReach s1 [new_chain (na_new 4 true false) [mkBuf 1 8 100] [mkBuf 2 16 200] 0] evs.\n'
              'Proof.\n'
              '  destruct (na_add (na_new 4 true false) [mkBuf 1 8 100] [mkBuf 2 16 200]) as [[o s1] evs] eqn:E.\n'
              '  assert (Ho : o = Ok 0) by (vm_compute in E; now inversion E). subst o. exists s1, evs. split; [reflexivity|].\n'
              '  assert (HR : NaReach (qset_indices (na_new (2 ^ 2) true false) 0) [] []) by (constructor; [vm_compute; discriminate|reflexivity]).\n'
              '  assert (Hok : bufs_ok (tag_bufs [mkBuf 1 8 100] [mkBuf 2 16 200])) by (repeat constructor; vm_compute; (discriminate || reflexivity)).\n'
              '  pose proof (NR_add _ _ _ _ _ _ _ _ HR Hok E) as HR1. vm_compute in E. inversion E; subst. repeat split; try reflexivity. exact HR1.\n'
              'Qed.']}

# ---- the monitors evaluated on the IMPLEMENTATION's observations, tied to the statements they stand for (Proofs/QueueMonProofs.v):
# ---- "meaning" = what a true verdict implies, for any input list; "holds_of_model" = no false alarm on code that behaves like the model
SPEC_ENTRY['imports'] += [m for m in ['Extract.QueueMon', 'Proofs.QueueMonProofs'] if m not in SPEC_ENTRY['imports']]
SPEC_ENTRY['theorems'] += [
  ('C01_monitor_150_meaning', 'Proofs/QueueMonProofs.v', 'mon_publish_sound', 'monitor 150, a true verdict on a line [N; indirect; old_idx; tok; ring_val; aidx_now; n_in; n_out; (addr,len)*; n_others; others*; is_ind; bad; hflags; hlen; m; (idx,addr,len,flags,next)*m] means: slot holds the token, index +1 mod 2^16, token < size, as many elements as buffers with exactly their address / length, readable before writable, a well-linked direct chain inside the table (only without indirect or for one buffer) or a well-formed indirect table (only with indirect and more than one buffer), descriptors pairwise distinct and in no other outstanding chain'),
  ('C01_monitor_150_accepts_only_such_lines', 'Proofs/QueueMonProofs.v', 'mon_publish_decodes', 'every list monitor 150 accepts has that layout with consistent counts: the hypotheses of C01_monitor_150_meaning lose nothing'),
  ('C01_monitor_150_holds_of_model', 'Proofs/QueueMonProofs.v', 'mon_publish_complete', 'monitor 150 is true of the line built from the device-visible state of the model itself (ring slot, visible index, raw walk of descriptor table / indirect table as Rig::device_walk does it) after every successful add in every reachable state, direct and indirect: no false alarm on code that behaves like the model'),
]
SPEC_ENTRY['examples'] += [
 '(* the line of monitor 150 built from the model state after a concrete add, direct and indirect: the layout of scen/qrig.rs Rig::add *)\n'
 'Example C01_monitor_150_nonvacuous_direct : exists s1 evs, add (qnew 4 false false) [mkBuf 1 8 100] [mkBuf 2 16 200] 0 = (Ok 0, s1, evs)\n'
 '  /\\ enc_publish (qnew 4 false false) s1 [] [mkBuf 1 8 100] [mkBuf 2 16 200] 0 (fun _ => None)\n'
 '     = [4; 0; 0; 0; 0; 1; 1; 1; 100; 8; 200; 16; 0; 0; 0; 0; 0; 2; 0; 100; 8; 1; 1; 1; 200; 16; 2; 2]\n'
 '  /\\ mon_publish [4; 0; 0; 0; 0; 1; 1; 1; 100; 8; 200; 16; 0; 0; 0; 0; 0; 2; 0; 100; 8; 1; 1; 1; 200; 16; 2; 2] = true.\n'
 'Proof. eexists; eexists; vm_compute; repeat split; reflexivity. Qed.',
 'Example C01_monitor_150_nonvacuous_indirect : exists s1 evs, add (qnew 4 true false) [mkBuf 1 8 100] [mkBuf 2 16 200] 900 = (Ok 0, s1, evs)\n'
 '  /\\ enc_publish (qnew 4 true false) s1 [] [mkBuf 1 8 100] [mkBuf 2 16 200] 0 (fun a => if a =? 900 then nthN (q_ind s1) 0 None else None)\n'
 '     = [4; 1; 0; 0; 0; 1; 1; 1; 100; 8; 200; 16; 0; 1; 0; 4; 32; 2; 0; 100; 8; 1; 1; 1; 200; 16; 2; 2]\n'
 '  /\\ mon_publish [4; 1; 0; 0; 0; 1; 1; 1; 100; 8; 200; 16; 0; 1; 0; 4; 32; 2; 0; 100; 8; 1; 1; 1; 200; 16; 2; 2] = true.\n'
 'Proof. eexists; eexists; vm_compute; repeat split; reflexivity. Qed.']
