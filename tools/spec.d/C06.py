"""C06: check configuration (PROPS_ENTRY, consumed by ./check and gen_manifest.py) and the list of lemmas that make up
the property file (SPEC_ENTRY, consumed by tools/mkprops.py)."""
PROPS_ENTRY = {'models': ['Model/Layout.v'],
 'exhaustive': True,
 'assumptions': ['Hal::dma_alloc returns page-aligned, non-overlapping regions (hypotheses of C06_regions)',
                 "zeroing of DMA memory is the platform's duty; the check observes that the driver stores nothing but descriptor links before queue_set"],
 'trusted_extra': ['drop order of VirtQueueLayout fields is transcribed (tied by the observed dealloc order)']}

SPEC_ENTRY = None  # Properties/C06.v is written by hand
