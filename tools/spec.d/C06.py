"""C06: check configuration (PROPS_ENTRY, consumed by ./check and gen_manifest.py) and the list of lemmas that make up
the property file (SPEC_ENTRY, consumed by tools/mkprops.py)."""
PROPS_ENTRY = {'models': ['Model/Layout.v'],
 'exhaustive': True,
 'assumptions': ['Hal::dma_alloc returns page-aligned, non-overlapping regions (hypotheses of C06_regions)',
                 "zeroing of DMA memory is the platform's duty; the check observes that the driver stores nothing but descriptor links before queue_set"],
 'trusted_extra': ['drop order of VirtQueueLayout fields is transcribed (tied by the observed dealloc order)']}

SPEC_ENTRY = None  # Properties/C06.v is written by hand

# Properties/C06.v (hand-written) also pins, from Proofs/LayoutMonProofs.v, the meaning / completeness theorems of the generic monitors
# decided inline in Extract/Dispatch.v step_alloc: C06_monitor_ledger_meaning (kinds 1, 2), C06_monitor_612_meaning / _decodes /
# _holds_of_model, C06_monitor_613_meaning / _decodes / _holds_of_model.
