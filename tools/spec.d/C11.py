"""C11: check configuration (PROPS_ENTRY, consumed by ./check and gen_manifest.py) and the list of lemmas that make up
the property file (SPEC_ENTRY, consumed by tools/mkprops.py)."""
PROPS_ENTRY = {'models': ['Model/Pci.v', 'Model/PciSpec.v', 'Model/PciBus.v'],
 'design_ref': 'DESIGN.md 3 C11, 4 F4 (and the two further findings F13, F14 recorded in corpus/findings/C11_*)',
 'assumptions': ['the PCI function behind ConfigurationAccess behaves like the reference function of Model/PciBus.v (C12): command/status, six BAR registers = '
                 '(hard-wired mask, content), every other register plain storage; fn_ok: six BAR registers, 16-bit command, 32-bit BAR contents',
                 'a structure "names a BAR" when its bar field is the index of the FIRST register of a well-formed BAR (C12 spec_ok/placed: size 2^k, '
                 'size-aligned address); a structure that names the upper half of a 64-bit BAR as a BAR of its own is outside the window theorems (the '
                 'driver looks at one register pair at a time and cannot tell); it is exercised for model agreement only (note new_unclaimed)',
                 'the capability list is acyclic (a cyclic list makes the real loop run forever: model result NDiverge, proved to happen exactly when the '
                 'C12 walk runs out of 65 items; never given to the real code)',
                 'Hal::mmio_phys_to_virt answers are environment inputs (v0..v3), universally quantified; the alignment test is on the ANSWERED virtual address, '
                 'as in the code',
                 'argument ranges are those of the Rust types (queue index < 2^16, size/status < 2^32, addresses and feature words < 2^64); MMIO read '
                 'answers are truncated to the width of the field read',
                 'drop: the wait ends when device_status has none of the six defined flag bits set (from_bits_truncate); bits 4 and 5 of the byte are '
                 'reserved and ignored; a device that never clears the flags keeps the real loop (and the model, answer list permitting) spinning',
                 'read_config_generation / read_config_space / write_config_space of the PCI transport belong to C13 and are not modelled here',
                 'the common-configuration table of Model/PciSpec.v and the byte layout of virtio_pci_cap / virtio_pci_notify_cap are a faithful copy of '
                 'VirtIO 1.2 sections 4.1.4, 4.1.4.3, 4.1.4.4 (written from the specification, not from the driver)'],
 'trusted_extra': ['safe-mmio: field!(..).read()/write() on a 1/2/4/8-byte field is ONE access of that width (backend/mmio_ops.rs); the harness replaces its backend '
                   'by a logging one (custom-mmio), so address, width, order and direction of every access of the real transport are observed, not assumed',
                   'harness: twin of the reference PCI function (scen/c12.rs RefFn) filled by scen/c11.rs, BAR memory emulated as fake virtual windows of '
                   'the custom MMIO backend, LedgerHal::mmio_phys_to_virt restricted to the allocated memory BARs (a request outside is a ledger violation); '
                   'the multiplier handed to the operation monitor is decoded by the harness with the specification rule (cross-checked by monitor 1102)',
                   'PciTransport keeps its windows private: the correspondence predicts every later access from the transport the MODEL built, so a '
                   'transport that stored a different window, length, multiplier or device type is seen through its accesses']}

SPEC_ENTRY = {'title': 'The PCI transport only uses capability windows that lie inside memory BARs',
 'imports': ['Model.PciBus', 'Model.Pci', 'Model.PciSpec', 'Proofs.PciBusProofs', 'Proofs.PciProofs'],
 'theorems': [('C11_windows',
               'Proofs/PciProofs.v',
               'new_windows',
               'the repaired PciTransport::new, for EVERY configuration space (reference function in any state satisfying fn_ok), every capability list, every '
               'bar/offset/length/multiplier value, every answer of mmio_phys_to_virt, both profiles: if a transport is returned then the PCI function is '
               'exactly as before; the capability walk terminated; the device id is a known one; the common, notify and ISR structures (and the device '
               'structure if any) are spec_found = the FIRST usable capability of each type in list order; the multiplier is even and is the one of the '
               'selected notify capability; the transport holds the answered addresses and length/2 notify elements, length/4 config words; the requests '
               'are exactly one per structure, in order; and every structure that names a well-formed BAR satisfies window_spec: that BAR is a memory BAR '
               'with a non-zero address, offset + length <= size AS NATURAL NUMBERS, the request is (address + offset, length) with address + offset + '
               'length <= address + size <= 2^64, length >= the size its use needs (56 / 2 / 1 / 4) and the mapped address is aligned for it (8 / 2 / 1 / 4); well-formed BAR = C12 spec_ok, which since F11 includes narrow decoders: the BAR size is 2^k whatever the top m of the decoder'),
              ('C11_new_total',
               'Proofs/PciProofs.v',
               'new_total',
               '"either fails with an error or yields ...": when every selected structure names a well-formed BAR the repaired new never panics in either '
               'profile, whatever offsets, lengths, multiplier and mapping addresses; NDiverge only for a cyclic list'),
              ('C11_new_refines',
               'Proofs/PciProofs.v',
               'new_refines',
               'the state-threading transcription of new (configuration accesses, four bar_info runs against the function) equals new_pure, which is '
               'written only in terms of the specification (spec_found of the C12 capability walk, region_check of what bar_info reports): result, requests; '
               'and the function is left untouched. new_pure documents every error: which VirtioPciError in which case'),
              ('C11_scan_spec',
               'Proofs/PciProofs.v',
               'scan_spec',
               'the capability scan of the repaired code = the specification: for each type the first capability that is vendor-specific, of that cfg_type, '
               'with cap_len >= 16 (20 for notify), inside the 256-byte configuration space and with bar <= 5; fields decoded at the byte offsets of struct '
               'virtio_pci_cap; it never overflows; it diverges exactly when the list is cyclic'),
              ('C11_scan_cap_spec', 'Proofs/PciProofs.v', 'scan_cap_spec', 'one loop iteration = the specification update, and no u8 overflow, for every 4-aligned capability offset'),
              ('C11_select_first', 'Proofs/PciProofs.v', 'select_first', 'what "first" means: nothing usable of that type precedes the selected capability in the list'),
              ('C11_select_none', 'Proofs/PciProofs.v', 'select_none', None),
              ('C11_cap_header_bytes', 'Proofs/PciProofs.v', 'header_bytes', 'cap_vndr / cap_len / cfg_type at bytes 0 / 2 / 3 of the capability are what the code extracts from the header word'),
              ('C11_cap_info_bytes', 'Proofs/PciProofs.v', 'info_bytes', 'bar at byte 4, offset le32 at 8, length le32 at 12'),
              ('C11_region_sound',
               'Proofs/PciProofs.v',
               'region_check_sound',
               'get_bar_region (everything after bar_info), repaired: a returned window implies memory BAR, address != 0, offset + length <= size in N, length '
               '>= size_of::<T>(), answered address aligned; the request is (address + offset mod 2^64, length)'),
              ('C11_region_inside', 'Proofs/PciProofs.v', 'region_check_inside', 'for a BAR that does not wrap the address space the physical window is [address + offset, + length) inside [address, address + size)'),
              ('C11_region_complete', 'Proofs/PciProofs.v', 'region_check_complete', 'every outcome of the repaired check by cases: which error when'),
              ('C11_region_no_panic', 'Proofs/PciProofs.v', 'region_check_no_panic', None),
              ('C11_region_prefix_refuted',
               'Proofs/PciProofs.v',
               'region_check_prefix_refuted',
               'F4, code before the repair (u64::from(offset + length), sum in u32): offset 0xfffffff0, length 0x48, BAR of 0x4000 bytes at 0xfe000000: '
               'release = accepted, window requested at 0x1fdfffff0; debug = panic; the repaired check refuses with BarOffsetOutOfRange in both'),
              ('C11_region_prefix_partial', 'Proofs/PciProofs.v', 'region_check_prefix_partial', 'the old check coincides with the repaired one whenever offset + length < 2^32'),
              ('C11_region_prefix_partial_debug', 'Proofs/PciProofs.v', 'region_check_prefix_partial_debug', 'in the debug profile the old check never returns a window that is not inside (it panics instead)'),
              ('C11_prefix_refuted_sum', 'Proofs/PciProofs.v', 'new_prefix_refuted_sum', 'F4 through the whole of new, on a concrete configuration space'),
              ('C11_prefix_refuted_bar',
               'Proofs/PciProofs.v',
               'new_prefix_refuted_bar',
               'F13, code before the repair: reserved bar values are not ignored: bar = 8 sizes the register at 0x30 as if it were a BAR and takes the ISR '
               'window from it; bar = 60 overflows BAR0_OFFSET + 4 * bar_index in u8 (debug: panic)'),
              ('C11_prefix_refuted_overrun',
               'Proofs/PciProofs.v',
               'new_prefix_refuted_overrun',
               'F14, code before the repair: a vendor capability at 0xf4 with cap_len 16: capability.offset + CAP_LENGTH_OFFSET overflows u8 (debug: panic; '
               'release: register 0 is read as the length)'),
              ('C11_scan_cap_prefix_partial', 'Proofs/PciProofs.v', 'scan_cap_prefix_partial', 'the old loop body coincides with the repaired one on every capability inside configuration space with bar <= 5'),
              ('C11_new_conforms',
               'Proofs/PciProofs.v',
               'new_conforms',
               'the monitor new_conform_b (kind 1102, evaluated on the implementation) holds of the model: no panic; a returned transport has all three '
               'mandatory structures, an even multiplier, one request per wanted structure, each window_ok_b against slot_truth; on refusal every request '
               'made so far is still inside its BAR'),
              ('C11_slot_truth_placed', 'Proofs/PciProofs.v', 'slot_truth_placed', 'the truth the monitors use (slot_truth) is the C12 description of every well-formed BAR'),
              ('C11_layout_kinds_honest',
               'Proofs/PciProofs.v',
               'layout_kinds_honest',
               'the hypothesis kinds_honest of C11_new_conforms holds of every function whose six BAR registers are a sequence of well-formed BARs (I/O, '
               '32-bit, below 1 MiB, 64-bit over two registers, unimplemented; any size 2^k up to 2^63, full or narrow decoders (writable address bits [k, m), C12/F11), any size-aligned address below 2^m, zero included)'),
              ('C11_layout_fn_ok', 'Proofs/PciProofs.v', 'layout_fn_ok', 'and such a function with a 16-bit command value satisfies fn_ok'),
              ('C11_ops',
               'Proofs/PciProofs.v',
               'ops_conform',
               'for every operation, every argument in range, every list of device answers, every transport with windows as new leaves them, both profiles: '
               'pci_conform_b holds of the accesses the model performs (inside the windows; common fields at the offsets of 4.1.4.3 with the field width and a '
               'permitted direction; only the fields the operation may touch; queue_select := q before any per-queue field; queue_enable := 1 last after size '
               'and the three addresses; notify at queue_notify_off * multiplier or refused without touching anything else; drop = reset then wait)'),
              ('C11_ops_inside', 'Proofs/PciProofs.v', 'ops_inside', None),
              ('C11_table_meaning', 'Proofs/PciProofs.v', 'table_ok_sound', 'what a true table_ok verdict means on ANY trace (in particular an observed one)'),
              ('C11_monitor_qsel_meaning', 'Proofs/PciProofs.v', 'qsel_scan_sound', 'what a true queue_select verdict means on ANY trace'),
              ('C11_monitor_enable_meaning', 'Proofs/PciProofs.v', 'enable_scan_sound', 'what a true enable-last verdict means on ANY trace'),
              ('C11_queue_set', 'Proofs/PciProofs.v', 'queue_set_trace', 'queue_select, queue_size, queue_desc, queue_driver, queue_device (one 8-byte write each), queue_enable := 1 last'),
              ('C11_notify', 'Proofs/PciProofs.v', 'notify_trace', None),
              ('C11_drop', 'Proofs/PciProofs.v', 'drop_trace', 'device_status := 0, then reads of device_status until no status flag is set, at least one'),
              ('C11_outcomes', 'Proofs/PciProofs.v', 'ops_outcomes', 'only notify can refuse'),
              ('C11_new_then_ops', 'Proofs/PciProofs.v', 'new_then_ops', 'both halves together: the operations on the transport new returned, against the windows new mapped'),
              ('C11_session', 'Proofs/PciProofs.v', 'session_conforms', 'a whole life (operations then drop): every access in the windows, ends with the reset and the wait'),
              ('C11_some_transport', 'Proofs/PciProofs.v', 'some_transport_delegates', 'SomeTransport::Pci is the identity wrapper in the model; the tie to src/transport/some.rs is the harness, which runs a third of the scenarios through the wrapper'),
              ('C11_common_layout', 'Proofs/PciProofs.v', 'common_layout_matches_spec', None),
              ('C11_device_type_table', 'Proofs/PciProofs.v', 'device_type_table', 'device_type(pci id): the seven transitional ids and 0x1041..0x1059 except 0x104e/0x104f; id 0x1045 and 0x1002 give MemoryBalloon (13); never 0'),
              ('C11_windows_nonvacuous', 'Proofs/PciProofs.v', 'new_nonvacuous', 'a concrete function on which new returns a transport; its structures name a well-formed BAR'),
              ('C11_new_conforms_nonvacuous', 'Proofs/PciProofs.v', 'wit_good_honest', None),
              ('C11_monitor_rejects', 'Proofs/PciProofs.v', 'new_conform_b_rejects', 'the monitor is false on what the unrepaired code does with the F4 witness (release: window outside; debug: panic)'),
              ('C11_ops_nonvacuous', 'Proofs/PciProofs.v', 'ops_nonvacuous', None),
              ('C11_alignment_remark', 'Proofs/PciProofs.v', 'common_at_offset_4_refused', 'remark: align_of::<CommonCfg>() = 8, stricter than the 4-byte alignment the specification asks of the common structure: refused with Misaligned')],
 'examples': []}


# ---------------------------------------------------------------------------------------------------------------------
# appended: the x86-64 pKVM hypercall PCI transport (src/transport/x86_64.rs, x86_64/cam.rs, x86_64/hypercalls.rs, the
# SomeTransport::HypPci arms): Model/HypPci.v, Proofs/HypPciProofs.v, Extract/HypPciIO.v, harness/src/scen/c11_hyp.rs
PROPS_ENTRY['models'] += ['Model/HypPci.v']
PROPS_ENTRY['assumptions'] += ['x86-64 hypercall transport (HypPciTransport, C11_hyp_*): same reference PCI function and the same reading of "names a BAR"; a hypercall is '
 '(is_write, physical address, size, data); the values answered to read hypercalls are environment inputs, cut to the size asked for; there is no '
 'Hal::mmio_phys_to_virt: regions are physical, the alignment test is on the physical address',
 'HypPciTransport has NO Drop impl: dropping it (or SomeTransport::HypPci) issues no hypercall and does not reset the device (C11_hyp_drop_silent); '
 'the "resetting the device ... on drop" clause of the property is a statement about PciTransport only and is NOT claimed of the hypercall transport',
 'HypCam: the caller contract of HypCam::new is that the CAM is cam.size() bytes at phys_base inside the physical address space (phys_base + size <= '
 '2^64); outside it the address addition wraps (release) or panics (debug) and nothing is claimed']
PROPS_ENTRY['trusted_extra'] += ['x86-64 hypercall transport: `vmcall` cannot run in user space; with --cfg virtio_drivers_verif hyp_io_read / hyp_io_write hand (is_write, address, '
 'size, data) to the back end registered through src/verif.rs (corpus/proposals/hyp_hook.diff) instead of executing vmcall; everything above these '
 'two functions (HypIoRegion, HypPciTransport, HypCam, SomeTransport::HypPci) is the real code; the hypercall numbers and the register convention of '
 '__vmcall_impl are not executed',
 'the regions of the transport HypPciTransport::new returned are read from its #[derive(Debug)] rendering (the fields are private) and judged by '
 'monitor 1132; independently, every later hypercall is judged against the allocated memory BARs the harness laid out (monitor 1142) and predicted '
 'from the transport the MODEL built (1140)']
SPEC_ENTRY['imports'] += ['Model.HypPci', 'Proofs.HypPciProofs']
SPEC_ENTRY['theorems'] += [('C11_hyp_region_is_pci_region',
  'Proofs/HypPciProofs.v',
  'hyp_region_check_eq',
  'x86-64 hypercall transport: get_bar_region of src/transport/x86_64.rs IS get_bar_region of pci.rs with mmio_phys_to_virt = the identity (the '
  'alignment test falls on the physical address), for each setting of the repair F19 = F4'),
 ('C11_hyp_region_sound',
  'Proofs/HypPciProofs.v',
  'hyp_region_sound',
  'repaired: a returned HypIoRegion implies memory BAR, address != 0, offset + length <= size in N, length >= size_of::<T>(), PHYSICAL address '
  'aligned; the region is (address + offset mod 2^64, length)'),
 ('C11_hyp_region_inside',
  'Proofs/HypPciProofs.v',
  'hyp_region_inside',
  'for a BAR that does not wrap the address space the region is [address + offset, + length) inside [address, address + size)'),
 ('C11_hyp_region_complete', 'Proofs/HypPciProofs.v', 'hyp_region_complete', 'every outcome of the repaired check by cases: which error when'),
 ('C11_hyp_region_no_panic', 'Proofs/HypPciProofs.v', 'hyp_region_no_panic', None),
 ('C11_hyp_region_prefix_refuted',
  'Proofs/HypPciProofs.v',
  'hyp_region_prefix_refuted',
  'F19, the code as found (u64::from(offset + length), sum in u32): offset 0xfffffff0, length 0x48, BAR of 0x4000 bytes at 0xfe000000: release = '
  'HypIoRegion { paddr: 0x1fdfffff0, size: 0x48 }, 4 GiB beyond the BAR; debug = panic; the repaired check refuses with BarOffsetOutOfRange in both'),
 ('C11_hyp_region_prefix_partial',
  'Proofs/HypPciProofs.v',
  'hyp_region_prefix_partial',
  'the old check coincides with the repaired one whenever offset + length < 2^32'),
 ('C11_hyp_region_prefix_partial_debug',
  'Proofs/HypPciProofs.v',
  'hyp_region_prefix_partial_debug',
  'in the debug profile the old check never returns a region that is not inside (it panics instead)'),
 ('C11_hyp_new_refines',
  'Proofs/HypPciProofs.v',
  'hyp_new_refines',
  'the state-threading transcription of the repaired HypPciTransport::new equals hyp_new_pure (specification selection of the C12 capability walk + '
  'the check on what bar_info reports); the function is left untouched; no mmio_phys_to_virt request exists'),
 ('C11_hyp_new_is_pci_new',
  'Proofs/HypPciProofs.v',
  'hyp_new_is_pci_new',
  'HypPciTransport::new = PciTransport::new under the identity mapping: same selection, same errors, same panics, regions = (request address, '
  'request length)'),
 ('C11_hyp_windows',
  'Proofs/HypPciProofs.v',
  'hyp_new_windows',
  'the analogue of C11_windows at FULL strength for the repaired code, for EVERY configuration space, capability list, bar / offset / length / '
  'multiplier, both profiles: function unchanged, walk terminated, known device id, structures = the FIRST usable capability of each type, '
  'multiplier even and the selected one, each region has the length of its structure, and every structure naming a well-formed BAR satisfies '
  'hregion_spec: allocated memory BAR, offset + length <= size AS NATURAL NUMBERS, region = [address + offset, + length) inside the BAR and below '
  '2^64, long enough (56 / 2 / 1 / 4) and PHYSICALLY aligned (8 / 2 / 1 / 4)'),
 ('C11_hyp_new_total',
  'Proofs/HypPciProofs.v',
  'hyp_new_total',
  '"either fails with an error or yields ...": never a panic when the selected structures name well-formed BARs; HNDiverge only for a cyclic list'),
 ('C11_hyp_new_conforms',
  'Proofs/HypPciProofs.v',
  'hyp_new_conforms',
  'the monitor hyp_new_conform_b (kind 1132, evaluated on the regions of the transport the implementation returned) holds of the model'),
 ('C11_hyp_prefix_refuted_sum',
  'Proofs/HypPciProofs.v',
  'hyp_new_prefix_refuted_sum',
  'F19 through the whole of new, on a concrete configuration space; the monitor rejects what the code as found does'),
 ('C11_hyp_prefix_refuted_bar',
  'Proofs/HypPciProofs.v',
  'hyp_new_prefix_refuted_bar',
  'F20, code as found: bar = 8 takes the ISR region from the expansion ROM register (0xfebd0008, in no BAR); bar = 60 overflows u8 (debug: panic)'),
 ('C11_hyp_prefix_refuted_overrun',
  'Proofs/HypPciProofs.v',
  'hyp_new_prefix_refuted_overrun',
  'F21, code as found: a vendor capability at 0xf4 with cap_len 16: u8 offset overflow (debug: panic; release: register 0 read as the length, a good '
  'device refused)'),
 ('C11_hyp_ops_are_pci_ops',
  'Proofs/HypPciProofs.v',
  'hexec_eq_exec',
  'every Transport method of HypPciTransport except ack_interrupt (from_bits_truncate) and drop (none) issues exactly the accesses of PciTransport, '
  'as hypercalls at the physical addresses, in the same order with the same widths and values; the assertion of HypIoRegion::write refuses a '
  'notification exactly when the slice index of pci.rs does'),
 ('C11_hyp_ops',
  'Proofs/HypPciProofs.v',
  'hyp_ops_conform',
  'for every method, every argument in range, every list of answers, every transport with regions as new leaves them, both profiles: hyp_conform_b '
  '(monitor 1141) holds of the hypercalls the model issues: inside the regions; common fields at the offsets of 4.1.4.3 with the field width and a '
  'permitted direction; only the fields the method may touch; queue_select := q before any per-queue field; queue_enable := 1 last after size and '
  'the three addresses; notify at queue_notify_off * multiplier or refused (a panic) without touching anything else; drop: nothing'),
 ('C11_hyp_ops_inside', 'Proofs/HypPciProofs.v', 'hyp_ops_inside', None),
 ('C11_hyp_ops_in_bars',
  'Proofs/HypPciProofs.v',
  'hyp_ops_in_bars',
  'every hypercall of every method on the transport new returned lies, as natural numbers, inside the allocated memory BAR of a selected structure '
  "(what monitor 1142 evaluates with the harness's own knowledge of the BARs)"),
 ('C11_hyp_queue_set',
  'Proofs/HypPciProofs.v',
  'hyp_queue_set_trace',
  'queue_select, queue_size, queue_desc, queue_driver, queue_device (one 8-byte hypercall each), queue_enable := 1 last'),
 ('C11_hyp_notify', 'Proofs/HypPciProofs.v', 'hyp_notify_trace', None),
 ('C11_hyp_outcomes', 'Proofs/HypPciProofs.v', 'hyp_outcomes', 'only notify can refuse'),
 ('C11_hyp_drop_silent', 'Proofs/HypPciProofs.v', 'hyp_drop_silent', 'HypPciTransport has no Drop impl: no hypercall, no reset'),
 ('C11_hyp_generation',
  'Proofs/HypPciProofs.v',
  'hyp_gen_conform',
  'read_config_generation, repaired: ONE read of the config_generation byte at offset 21'),
 ('C11_hyp_generation_prefix_refuted',
  'Proofs/HypPciProofs.v',
  'hyp_gen_prefix_refuted',
  'F22, code as found: T inferred as u32: a FOUR-byte read at offset 21 (config_generation + queue_select + low byte of queue_size); no register of '
  '4.1.4.3 is four bytes wide there: rejected by the table monitor for every transport'),
 ('C11_hyp_new_regions_ok', 'Proofs/HypPciProofs.v', 'hyp_new_regions_ok', None),
 ('C11_hyp_new_then_ops', 'Proofs/HypPciProofs.v', 'hyp_new_then_ops', 'both halves together'),
 ('C11_hyp_some_transport',
  'Proofs/HypPciProofs.v',
  'hyp_some_transport_delegates',
  'SomeTransport::HypPci is the identity wrapper in the model; the tie to src/transport/some.rs is the harness (a third of the scenarios run through '
  'the wrapper)'),
 ('C11_hyp_cam',
  'Proofs/HypPciProofs.v',
  'hyp_cam_spec',
  'HypCam::read_word / write_word: one four-byte hypercall at phys_base + cam_offset, word-aligned, wholly inside the CAM; assertion violations '
  'panic without a hypercall'),
 ('C11_hyp_cam_conforms', 'Proofs/HypPciProofs.v', 'hyp_cam_conforms', 'the monitor (kind 1151) holds of the model'),
 ('C11_hyp_windows_nonvacuous', 'Proofs/HypPciProofs.v', 'hyp_new_nonvacuous', None),
 ('C11_hyp_ops_nonvacuous', 'Proofs/HypPciProofs.v', 'hyp_ops_nonvacuous', None),
 ('C11_hyp_alignment_remark',
  'Proofs/HypPciProofs.v',
  'hyp_common_at_offset_4_refused',
  'remark: align_of::<CommonCfg>() = 8 is tested on the physical address')]
