"""C10: check configuration (PROPS_ENTRY, consumed by ./check and gen_manifest.py) and the list of lemmas that make up
the property file (SPEC_ENTRY, consumed by tools/mkprops.py)."""
PROPS_ENTRY = {'models': ['Model/Mmio.v', 'Model/MmioSpec.v'],
 'design_ref': 'DESIGN.md 3 C10',
 'assumptions': ['argument ranges are those of the Rust types (queue index < 2^16, size/status/page size < 2^32, addresses and feature words < 2^64); every '
                 'read answer is a u32',
                 'the register tables of Model/MmioSpec.v are a faithful copy of VirtIO 1.2 sections 4.2.2 and 4.2.4 (written from the specification, not from '
                 'the driver)',
                 'a device that never answers 0 to the QueueReady read-back keeps modern queue_unset spinning, as 4.2.2.2 asks; the model takes the answers up '
                 'to the first 0',
                 'begin_init receives a value of a flags type, so its bits are among the defined ones (from_bits_truncate(device) & supported = device & '
                 'supported)'],
 'trusted_extra': ['safe-mmio: a field!(..).read()/write() on a 4-byte field is ONE 32-bit access (backend/mmio_ops.rs); the harness replaces its backend by a '
                   'logging one (custom-mmio), so width, offset, order and direction of every access of the real transport are observed, not assumed',
                   'emulated register file: identification registers constant, every other read answered from the scenario stream']}

SPEC_ENTRY = {'title': 'The MMIO transport performs exactly the register accesses the spec prescribes',
 'imports': ['Model.Mmio', 'Model.MmioSpec', 'Proofs.MmioProofs'],
 'theorems': [('C10_layout_offsets',
               'Proofs/MmioProofs.v',
               'offsets_match_spec',
               'the offsets the #[repr(C)] declaration of VirtIOHeader gives its members are the offsets of the specification table; the block is 0x100 bytes'),
              ('C10_layout_wrappers',
               'Proofs/MmioProofs.v',
               'wrappers_match_spec',
               'each member is 4 bytes and its safe-mmio wrapper (ReadPure / WriteOnly / ReadPureWrite) is the direction the specification gives the register'),
              ('C10_ops_conform',
               'Proofs/MmioProofs.v',
               'ops_conform_all',
               'for every operation, every argument in the range of its Rust type, every list of device answers, both versions, both profiles: the monitor '
               'predicate mmio_conform_b (table membership for the version, direction, 32-bit width, registers allowed for the operation, QueueSel with the '
               'right index before per-queue registers, enabling write last after all parameters, per-operation values) holds of the accesses the model '
               'performs'),
              ('C10_ops_conform_but_one',
               'Proofs/MmioProofs.v',
               'ops_conform',
               'the same statement with the legacy read_config_generation case excluded (this is what held before the repair 6a3b294)'),
              ('C10_ops_conform_refuted',
               'Proofs/MmioProofs.v',
               'ops_conform_refuted',
               'the behaviour before the repair (fix: 6a3b294) is refuted: read_config_generation on a legacy device read offset 0x0fc, which the legacy '
               'layout (4.2.4) does not define'),
              ('C10_legacy_config_generation', 'Proofs/MmioProofs.v', 'legacy_config_generation_trace', 'since the repair nothing is accessed there'),
              ('C10_accesses_defined',
               'Proofs/MmioProofs.v',
               'ops_accesses_defined',
               'as propositions: every access is 4 bytes wide, at the offset of a register the table defines for this version (so never in a reserved gap), '
               'never a read of a write-only or a write of a read-only register, and among the registers the operation may touch'),
              ('C10_queue_selected',
               'Proofs/MmioProofs.v',
               'ops_queue_selected',
               "every access to a per-queue register is preceded, within the same operation, by a write of QueueSel carrying the operation's queue index (all "
               'operations, both versions)'),
              ('C10_enable_last',
               'Proofs/MmioProofs.v',
               'ops_enable_last',
               'a write that enables a queue (QueueReady := non-zero, legacy QueuePFN := non-zero) is the last access of its operation and every parameter '
               'register of the version was written before it'),
              ('C10_modern_queue_set',
               'Proofs/MmioProofs.v',
               'modern_queue_set_trace',
               'QueueSel, QueueNum, then Desc/Driver/Device Low and High with low + 2^32*high = address (low = address mod 2^32, high = address / 2^32), '
               'QueueReady := 1 last'),
              ('C10_legacy_queue_set',
               'Proofs/MmioProofs.v',
               'legacy_queue_set_trace',
               'accepted exactly for the layout of the three asserts (same verdict in debug and release, wrap-around included); then QueueSel, QueueNum, '
               'QueueAlign := 4096, QueuePFN := descriptors/4096 last; otherwise a panic before the first access'),
              ('C10_legacy_align_remark',
               'Proofs/MmioProofs.v',
               'legacy_asserted_offset_overshoots',
               "remark: the used-ring offset demanded by the assert is align_up_phys as written, a page beyond the specification's ALIGN when 18n+6 is a page "
               'multiple (n = 1365; never for the power-of-two sizes, C06_align_up_exact)'),
              ('C10_begin_init_page_size',
               'Proofs/MmioProofs.v',
               'begin_init_legacy_page_size',
               'begin_init on a legacy device ends with GuestPageSize := 4096 and writes no QueuePFN'),
              ('C10_legacy_page_size_first',
               'Proofs/MmioProofs.v',
               'legacy_page_size_before_pfn',
               'legacy ordering over a whole initialisation: after begin_init, along any sequence of operations that does not reset the device, every non-zero '
               'QueuePFN write comes after the GuestPageSize write'),
              ('C10_read_features', 'Proofs/MmioProofs.v', 'read_features_trace', 'selector 0, read, selector 1, read; result = low + 2^32*high'),
              ('C10_write_features',
               'Proofs/MmioProofs.v',
               'write_features_trace',
               'selector 0, low word, selector 1, high word; low + 2^32*high = the 64-bit argument'),
              ('C10_ack_interrupt',
               'Proofs/MmioProofs.v',
               'ack_interrupt_trace',
               'the bits read from InterruptStatus are written back to InterruptACK unchanged (all 32, not only the two defined ones); when zero nothing is '
               'written; the result keeps the two defined bits'),
              ('C10_drop_resets', 'Proofs/MmioProofs.v', 'drop_trace', 'dropping the transport is exactly one write, Status := 0'),
              ('C10_simple_ops', 'Proofs/MmioProofs.v', 'simple_traces', None),
              ('C10_queue_unset_legacy', 'Proofs/MmioProofs.v', 'queue_unset_legacy_trace', None),
              ('C10_queue_unset_modern',
               'Proofs/MmioProofs.v',
               'queue_unset_modern_trace',
               'QueueReady := 0, read back until 0, only then the parameters are cleared'),
              ('C10_outcomes',
               'Proofs/MmioProofs.v',
               'ops_outcomes',
               'only the legacy queue_set (its asserts) and, in the debug profile, begin_init (its debug_assert) can panic'),
              ('C10_device_type_table',
               'Proofs/MmioProofs.v',
               'device_type_table',
               'TryFrom<u32> for DeviceType: defined exactly on the known IDs 1..13, 16..25, never 0; ID 5 is mapped to MemoryBalloon (13)'),
              ('C10_probe_writes_nothing', 'Proofs/MmioProofs.v', 'probe_writes_nothing', 'for every header content and region size'),
              ('C10_probe_accepts_iff',
               'Proofs/MmioProofs.v',
               'probe_accepts_iff',
               'accepted iff region >= 0x100 and magic = 0x74726976 and version in {1,2} and the device ID is known (hence non-zero)'),
              ('C10_probe_accepted', 'Proofs/MmioProofs.v', 'probe_accepted', None),
              ('C10_probe_refusals',
               'Proofs/MmioProofs.v',
               'probe_refusals',
               'which error in each failing case, and the reads made up to it (region too small: none at all)'),
              ('C10_probe_conforms', 'Proofs/MmioProofs.v', 'probe_conforms', 'the probe monitor holds of the model'),
              ('C10_some_transport',
               'Proofs/MmioProofs.v',
               'some_transport_delegates',
               'SomeTransport::Mmio is the identity wrapper in the model; the tie to src/transport/some.rs is the harness, which runs every scenario through '
               'the wrapper as well'),
              ('C10_session_conforms',
               'Proofs/MmioProofs.v',
               'session_conforms',
               'probe; begin_init; any operations that do not reset; drop: the session monitor holds (defined registers throughout, page size before PFN, '
               'reset last)'),
              ('C10_monitor_table_meaning',
               'Proofs/MmioProofs.v',
               'table_ok_sound',
               'what a true monitor verdict means on ANY trace (in particular an observed one)'),
              ('C10_monitor_qsel_meaning', 'Proofs/MmioProofs.v', 'qsel_scan_sound', None),
              ('C10_monitor_enable_meaning', 'Proofs/MmioProofs.v', 'enable_scan_sound', None)],
 'examples': ['Example C10_legacy_queue_set_nonvacuous :\n'
              '  legacy_layout_ok 8 0x10000 (0x10000 + 128) (0x10000 + 4096)\n'
              '  /\\ exec Debug Legacy 2 (OQueueSet 1 8 0x10000 (0x10000 + 128) (0x10000 + 4096)) [] =\n'
              '       (Ok 0, [W 0x30 1; W 0x38 8; W 0x3c 4096; W 0x40 16]).\n'
              'Proof. exact legacy_queue_set_nonvacuous. Qed.',
              'Example C10_begin_init_nonvacuous :\n'
              '  exists r, fst (exec Debug Legacy 2 (OBeginInit 0x130000000) [0x30000000; 0]) = Ok r\n'
              '            /\\ keeps_gps (OQueueSet 0 8 0x10000 (0x10000 + 128) (0x10000 + 4096)) = true.\n'
              'Proof. exact begin_init_nonvacuous. Qed.',
              'Example C10_probe_nonvacuous :\n'
              '  fst (probe 0x100 MAGIC 1 2) = POk Legacy 2 /\\ fst (probe 0x200 MAGIC 2 5) = POk Modern 13\n'
              '  /\\ fst (probe 0xff MAGIC 2 5) = PErr ME_MmioRegionTooSmall 0.\n'
              'Proof. exact probe_nonvacuous. Qed.']}
