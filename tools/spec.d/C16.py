"""C16: check configuration (PROPS_ENTRY, consumed by ./check and gen_manifest.py) and the list of lemmas that make up
the property file (SPEC_ENTRY, consumed by tools/mkprops.py)."""
PROPS_ENTRY = {'assumptions': ['queue sizes are powers of two <= 2^15 and VirtQueue::new succeeds (C06); the transport handshake, MAC/status config reads and Drop of the '
                 'drivers are not part of this model (C08, C13, C09)',
                 'VirtIONet histories (C16_ownership): the device reports used ids inside the queue (otherwise rx_buffers[token] panics: C16_receive, Panic '
                 'case) and used lengths of at least a header (otherwise receive returns IoError and that buffer is dropped: C16_receive, IoError case); the '
                 'caller recycles only buffers it received (RxBuffer cannot be forged: its fields are pub(crate))',
                 'raw driver: the caller contract of the queue (same buffers at complete as at begin) is a hypothesis (Reach), as in C01-C04',
                 'the end of a busy-wait (send, receive_wait) is an environment input: the used-ring view at the moment can_pop became true; termination of '
                 'the wait is C05',
                 'bytes: the Coq model carries buffer contents only through the pure functions send_payload / fill_buffer_header / rx_packet; that Hal::share '
                 'exposes exactly the buffer bytes to the device and copies device-written bytes back is C04 and is checked here on the implementation by the '
                 'monitors 1650/1651 (the reference NIC reads and writes only through device addresses)',
                 'buffer lengths < 2^32 (a longer buffer makes VirtQueue::add panic, modelled)'],
 'design_ref': 'DESIGN.md 3 C16',
 'models': ['Model/Queue.v', 'Model/Net.v', 'Model/NetSpec.v'],
 'trusted_extra': ['reference NIC of harness/src/scen/c16.rs (walks chains through device addresses only; validates transmit chains; injects frames)',
                   'Model/NetSpec.v is a faithful reading of VirtIO 1.2 5.1.6 (header layout, 10-byte legacy header without MRG_RXBUF, frame follows header, '
                   'used length = header + frame)',
                   'observation recorded, not claimed as a violation of C16: VirtIONetRaw::receive_wait (like VirtQueue::add_notify_wait_pop) returns '
                   'WrongToken while its buffer is still posted if another receive completes first (Example receive_wait_other_completion_first); '
                   'VirtIONet::receive drops the buffer when a device reports a used length below the header size']}

SPEC_ENTRY = {'examples': ['Example C16_hdr_size_examples :\n'
              '  hdr_size (legacy_header (net_negotiate (2 ^ 32 + 2 ^ 28))) = 12\n'
              '  /\\ hdr_size (legacy_header (net_negotiate (2 ^ 29))) = 10\n'
              '  (* a legacy device offering MRG_RXBUF: the driver does not accept the bit, the header stays 10 bytes *)\n'
              '  /\\ hdr_size (legacy_header (net_negotiate (2 ^ 15))) = 10\n'
              '  /\\ spec_hdr_len (net_negotiate (2 ^ 15)) = 10.\n'
              'Proof. exact hdr_size_examples. Qed.',
              'Example C16_tx_wire_example :\n'
              '  concat (send_payload true [1; 2; 3]) = [0; 0; 0; 0; 0; 0; 0; 0; 0; 0; 1; 2; 3]\n'
              '  /\\ concat (send_payload false []) = [0; 0; 0; 0; 0; 0; 0; 0; 0; 0; 0; 0]\n'
              '  /\\ spec_tx_ok_b (2 ^ 32) [12; 3] false [0; 0; 0; 0; 0; 0; 0; 0; 0; 0; 0; 0; 7; 8; 9] [7; 8; 9] = true\n'
              '  /\\ spec_tx_ok_b (2 ^ 32) [10; 3] false [0; 0; 0; 0; 0; 0; 0; 0; 0; 0; 7; 8; 9] [7; 8; 9] = false\n'
              '  /\\ spec_tx_ok_b 0 [12; 3] false [0; 0; 0; 0; 0; 0; 0; 0; 0; 0; 0; 0; 7; 8; 9] [7; 8; 9] = false.\n'
              'Proof. exact tx_wire_example. Qed.',
              'Example C16_rx_roundtrip_example :\n'
              '  rx_packet false ([1; 0; 0; 0; 0; 0; 0; 0; 0; 0; 1; 0] ++ [9; 8; 7] ++ [0; 0; 0]) (15 - 12) = Ok [9; 8; 7]\n'
              '  /\\ spec_rx_ok_b (2 ^ 32) 15 ([1; 0; 0; 0; 0; 0; 0; 0; 0; 0; 1; 0] ++ [9; 8; 7]) 12 3 [9; 8; 7] = true\n'
              '  /\\ spec_rx_ok_b (2 ^ 32) 15 ([1; 0; 0; 0; 0; 0; 0; 0; 0; 0; 1; 0] ++ [9; 8; 7]) 10 5 [0; 0; 9; 8; 7] = false.\n'
              'Proof. exact rx_roundtrip_example. Qed.',
              'Example C16_vnet_history_nonvacuous :\n'
              '  exists v0 e0 b v1 e1 v2 e2 v3 e3,\n'
              '    vnet_new (2 ^ 32) (2 ^ 2) 1528 [] = (Ok tt, v0, e0)\n'
              '    /\\ vnet_receive v0 1 2 17 = (Ok b, v1, e1) /\\ rb_plen b = 5 /\\ rb_idx b = 2 /\\ rb_id b = 2\n'
              '    /\\ v_slots v1 = [Some (mkRx 0 1528 0 0); Some (mkRx 1 1528 0 1); None; Some (mkRx 3 1528 0 3)]\n'
              '    /\\ vnet_recycle v1 b 7777 0 0 = (Ok tt, v2, e2)\n'
              '    /\\ vnet_send v2 100 8888 (mkBuf 101 60 9999) 0 0 0 1 0 0 = (Ok tt, v3, e3)\n'
              '    /\\ VReach 1528 v1 [b] /\\ VReach 1528 v3 [].\n'
              'Proof. exact vnet_history_nonvacuous. Qed.',
              'Example C16_vnet_new_refused_example :\n'
              '  fst (fst (vnet_new (2 ^ 32) 4 1527 [])) = Err EInvalidParam /\\ fst (fst (vnet_new (2 ^ 32) 4 1528 [])) = Ok tt.\n'
              'Proof. exact vnet_new_refused_example. Qed.',
              'Example C16_net_send_nonvacuous :\n'
              '  let s := raw_new (2 ^ 32) 4 in\n'
              '  Reach (n_tx s) [] [] /\\ q_last_used (n_tx s) <> w16 1\n'
              '  /\\ fst (fst (net_send s 100 8888 (mkBuf 101 60 9999) 0 0 0 1 0 0)) = Ok tt\n'
              '  /\\ fst (fst (net_send s 100 8888 (mkBuf 101 0 0) 0 0 0 1 0 0)) = Ok tt\n'
              '  /\\ fst (fst (net_send s 100 8888 (mkBuf 101 60 9999) 0 0 0 1 3 0)) = Err EWrongToken.\n'
              'Proof. exact net_send_nonvacuous. Qed.',
              'Example C16_receive_wait_other_completion_first :\n'
              '  let s0 := raw_new (2 ^ 32) 4 in\n'
              '  exists s1 e1 s2 e2,\n'
              '    receive_begin s0 (mkBuf 1 2048 4096) 0 0 = (Ok 0, s1, e1)\n'
              '    /\\ receive_wait s1 (mkBuf 2 2048 8192) 0 0 1 0 100 = (Err EWrongToken, s2, e2)\n'
              '    /\\ q_num_used (n_rx s2) = 2.\n'
              'Proof. exact receive_wait_other_completion_first. Qed.'],
 'imports': ['Model.Queue', 'Proofs.QueueInv', 'Proofs.QueueReach', 'Proofs.QueueProps', 'Model.Net', 'Model.NetSpec', 'Proofs.NetProofs'],
 'theorems': [('C16_header_len',
               'Proofs/NetProofs.v',
               'hdr_size_negotiated',
               'configurations: for EVERY 64-bit feature word the device offers, the negotiated set never contains MRG_RXBUF, contains VERSION_1 iff offered, '
               'and the header length the driver uses (legacy_header as written: !VERSION_1 && !MRG_RXBUF) is 12 iff VERSION_1 else 10 = the length VirtIO 1.2 '
               '5.1.6/5.1.6.1 prescribes for the negotiated bits'),
              ('C16_header_len_is_spec',
               'Proofs/NetProofs.v',
               'hdr_size_is_spec',
               'for every negotiated word whatsoever (also words this driver can never negotiate) the size selection agrees with the specification'),
              ('C16_header_zero',
               'Proofs/NetProofs.v',
               'hdr_bytes_zero',
               'the header the driver emits (Default of the #[repr(C)] struct, encoded field by field little-endian) is all zero bytes and has the declared '
               'size'),
              ('C16_tx',
               'Proofs/NetProofs.v',
               'tx_wire',
               'C16_tx at byte level, every frame (every length, empty included), both header sizes: the buffers send hands to the queue, read back to back, '
               "are a zeroed header of the specified size followed by exactly the caller's bytes; the device-side parser written from the specification "
               'recovers exactly the frame; no buffer is empty; the buffer lengths are those of the queue-level chain (C16_send)'),
              ('C16_tx_monitor_complete', 'Proofs/NetProofs.v', 'tx_monitor_accepts_model', 'the transmit monitor (kind 1650) accepts what the model sends'),
              ('C16_tx_monitor_sound',
               'Proofs/NetProofs.v',
               'tx_monitor_sound',
               'and accepts only a zeroed header of the specified length followed by the frame'),
              ('C16_fill_buffer_header',
               'Proofs/NetProofs.v',
               'fill_buffer_header_spec',
               'raw interface: InvalidParam iff the buffer is shorter than the header, otherwise the first hdr_size bytes become zero and nothing else '
               'changes'),
              ('C16_send',
               'Proofs/NetProofs.v',
               'net_send_spec',
               'C16_tx at queue level, for every reachable state of the transmit queue, every frame length < 2^32 and every device behaviour: refused with '
               'QueueFull without effect iff the chain does not fit; otherwise the ring entry published names a chain from which the device reaches the header '
               'buffer then the frame buffer (frame omitted when empty), all device-readable, with exactly the lengths of C16_tx; when the device completes '
               'that token the call returns Ok and the set of outstanding chains is what it was (nothing leaked); if another completion is at the head of the '
               'used ring the result is WrongToken and the chain stays outstanding'),
              ('C16_transmit_begin',
               'Proofs/NetProofs.v',
               'transmit_begin_spec',
               'raw transmit_begin: InvalidParam iff shorter than the header; QueueFull iff no descriptor; otherwise one device-readable descriptor with the '
               "caller's address and length"),
              ('C16_transmit_complete',
               'Proofs/NetProofs.v',
               'transmit_complete_is_pop',
               'transmit_complete is pop_used on the transmit queue with the same buffer (C16_pop gives its behaviour)'),
              ('C16_pop', 'Proofs/QueueProps.v', 'pop_refines', None),
              ('C16_rx',
               'Proofs/NetProofs.v',
               'rx_packet_roundtrip',
               'C16_rx at byte level: for every header content hb of the negotiated size, every frame and every remainder of the buffer, with used length = '
               'header + frame: packet_len = used - header = frame length, RxBuffer::packet returns exactly the frame, and this is the frame the specification '
               'assigns to the completion'),
              ('C16_rx_packet_total',
               'Proofs/NetProofs.v',
               'rx_packet_total',
               'RxBuffer::packet panics exactly when header + packet_len exceeds the buffer; otherwise it returns packet_len bytes'),
              ('C16_receive_begin',
               'Proofs/NetProofs.v',
               'receive_begin_spec',
               'raw receive_begin: InvalidParam iff shorter than MIN_BUFFER_LEN (1526); QueueFull iff no descriptor; otherwise one device-writable descriptor '
               "with the buffer's address and length"),
              ('C16_receive_complete',
               'Proofs/NetProofs.v',
               'receive_complete_spec',
               "C16_rx at queue level, every device behaviour: NotReady / WrongToken without effect; otherwise the chain is popped (the buffer is the caller's "
               'again) and the result is (header, used - header) if used >= header, IoError if smaller'),
              ('C16_receive_wait',
               'Proofs/NetProofs.v',
               'receive_wait_spec',
               'receive_wait = begin; wait; complete(token): Ok/IoError as receive_complete when the device completes this token; WrongToken with the buffer '
               'STILL posted when another completion is at the head of the used ring (recorded as an observation)'),
              ('C16_new',
               'Proofs/NetProofs.v',
               'vnet_new_inv',
               'VirtIONet::new for every queue size 2^k <= 2^15, every buffer length whose multiple-of-8 rounding is in [1526, 2^32), every device: token i '
               'for buffer i (the assert never fires), all buffers posted, invariant established'),
              ('C16_new_small_buffer',
               'Proofs/NetProofs.v',
               'vnet_new_small_buffer',
               'a buffer length that rounds down to less than 1526 (1526 and 1527 included) is refused with InvalidParam'),
              ('C16_receive',
               'Proofs/NetProofs.v',
               'vnet_receive_cases',
               'VirtIONet::receive for EVERY device behaviour (used index, id, length arbitrary): Ok = the buffer of the token at the head of the used ring, '
               'taken out of its slot, packet_len + header = used length, invariant kept with the buffer now owned by the caller; NotReady / WrongToken (token '
               'not posted) change nothing; IoError only if used < header; Panic only if the used id is outside the queue'),
              ('C16_recycle',
               'Proofs/NetProofs.v',
               'vnet_recycle_ok',
               'recycle_rx_buffer of a buffer the caller owns ALWAYS succeeds: the token handed out by the queue has an empty slot (WrongToken, QueueFull, '
               'InvalidParam branches unreachable), invariant kept with the buffer posted'),
              ('C16_ownership',
               'Proofs/NetProofs.v',
               'vnet_ownership',
               'over ALL histories of new / receive / recycle / send with any arrival order, burst size and lengths chosen by the device (used ids inside the '
               'queue, lengths >= header), both header sizes: the ownership invariant NetInv holds'),
              ('C16_exactly_one_place',
               'Proofs/NetProofs.v',
               'netinv_exactly_one_place',
               'NetInv spelled out: every buffer identity 0..size-1 occurs exactly once among (caller-owned ++ slots); slot t holds a buffer iff token t is '
               'posted, with that buffer, as one device-writable descriptor of the buffer length that the device reaches by walking the descriptor table; '
               'posted + owned = queue size'),
              ('C16_all_recycled',
               'Proofs/NetProofs.v',
               'netinv_all_recycled',
               'once the caller owns nothing, the number of posted buffers is the queue size and every token is posted'),
              ('C16_ownership_monitor_sound',
               'Proofs/NetProofs.v',
               'ownership_monitor_sound',
               'the ownership monitor (kind 1652) accepts only observations in which each identity 0..size-1 is in exactly one of: posted to the device, '
               'completed but not yet received, held by the caller'),
              ('C16_lifo_token',
               'Proofs/QueueProps.v',
               'lifo_token',
               'receive followed at once by recycle re-posts under the same token (the free list is LIFO); the general case (several buffers held, any return '
               'order) is C16_recycle'),
              ('C16_can_recv',
               'Proofs/NetProofs.v',
               'can_recv_spec',
               'can_recv <-> the used ring holds a completion not yet consumed; receive returns NotReady exactly when can_recv is false'),
              ('C16_can_send',
               'Proofs/NetProofs.v',
               'can_send_spec',
               'can_send = "a header+frame chain fits" computed from the outstanding chains (two free descriptors, or one with indirect descriptors in a table '
               "of >= 2) = the queue's own capacity test for 2 buffers; when true the 1-buffer (empty frame) send fits too")],
 'title': 'Network frames pass unmodified; receive buffers are never lost or duplicated'}

# ---- the monitors evaluated on the IMPLEMENTATION's observations, tied to the statements they stand for (Proofs/NetMonProofs.v):
# ---- "meaning" = what a true verdict implies, for any input list; "holds_of_model" = no false alarm on code that behaves like the model
SPEC_ENTRY['imports'] += [m for m in ['Extract.QueueIO', 'Extract.NetIO', 'Proofs.NetMonProofs'] if m not in SPEC_ENTRY['imports']]
SPEC_ENTRY['theorems'] += [
  ('C16_monitor_1650_meaning', 'Proofs/NetMonProofs.v', 'mon1650_meaning', 'a [1] of 1650 on any list: a transmit line; no writable / empty element, lengths sum to the bytes read, wire = h zero bytes ++ exactly the frame, h = 12 with VERSION_1 or MRG_RXBUF else 10'),
  ('C16_monitor_1650_exactly', 'Proofs/NetMonProofs.v', 'mon1650_line_iff', 'on a line of the layout 1650 demands exactly that (no constraint on number / cut of descriptors)'),
  ('C16_monitor_1650_holds_of_model', 'Proofs/NetMonProofs.v', 'mon1650_holds_of_model', 'every neg, every frame: the line of send_payload passes'),
  ('C16_monitor_1650_holds_of_model_raw', 'Proofs/NetMonProofs.v', 'mon1650_holds_of_model_raw', 'buffer after fill_buffer_header as one descriptor passes'),
  ('C16_monitor_1651_meaning', 'Proofs/NetMonProofs.v', 'mon1651_meaning', 'a [1] of 1651: h <= used <= written, hdr = h, packet_len = used - h, written = hb ++ packet ++ tail with |hb| = h'),
  ('C16_monitor_1651_exactly', 'Proofs/NetMonProofs.v', 'mon1651_line_iff', '... and nothing else'),
  ('C16_monitor_1651_short_completion', 'Proofs/NetMonProofs.v', 'mon1651_rejects_short_completion', 'used length below the header: no line is accepted'),
  ('C16_monitor_1651_holds_of_model', 'Proofs/NetMonProofs.v', 'mon1651_holds_of_model', 'raw receive_complete Ok + rx_packet, device reporting what it wrote'),
  ('C16_monitor_1651_holds_of_model_vnet', 'Proofs/NetMonProofs.v', 'mon1651_holds_of_model_vnet', 'VirtIONet::receive in every state of every history'),
  ('C16_monitor_1652_meaning', 'Proofs/NetMonProofs.v', 'mon1652_meaning', 'a [1] of 1652: ownership line; NoDup, i < size iff present, counts sum to size, each identity in exactly one of posted / pending / owned'),
  ('C16_monitor_1652_exactly', 'Proofs/NetMonProofs.v', 'mon1652_line_iff', 'equivalence'),
  ('C16_monitor_1652_holds_of_model', 'Proofs/NetMonProofs.v', 'mon1652_holds_of_model', 'NetInv: any split of the slot buffers into posted / pending passes'),
  ('C16_monitor_1653_meaning', 'Proofs/NetMonProofs.v', 'mon1653_meaning', 'iff: can_recv <-> used idx <> consumed mod 2^16; can_send <-> 2 free descriptors (indirect: one free and size >= 2)'),
  ('C16_monitor_1653_holds_of_model', 'Proofs/NetMonProofs.v', 'mon1653_holds_of_model', 'raw driver, both queues reachable'),
  ('C16_monitor_1653_holds_of_model_vnet', 'Proofs/NetMonProofs.v', 'mon1653_holds_of_model_vnet', 'can_recv / can_send of VirtIONet under NetInv'),
  ('C16_monitor_1654_meaning', 'Proofs/NetMonProofs.v', 'mon1654_meaning', 'iff: [0; code]'),
  ('C16_monitor_1654_holds_of_model', 'Proofs/NetMonProofs.v', 'mon1654_holds_of_model', 'recycle of an owned buffer (C16_recycle)'),
  ('C16_monitor_1655_meaning', 'Proofs/NetMonProofs.v', 'mon1655_meaning', 'iff: h = 12 with bit 32 or 15 else 10'),
  ('C16_monitor_1655_holds_of_model', 'Proofs/NetMonProofs.v', 'mon1655_holds_of_model', 'hdr_size (legacy_header neg) for every neg'),
  ('C16_monitor_1655_holds_of_model_fill', 'Proofs/NetMonProofs.v', 'mon1655_holds_of_model_fill', 'as returned by fill_buffer_header'),
  ('C16_monitor_1655_holds_of_model_rx', 'Proofs/NetMonProofs.v', 'mon1655_holds_of_model_rx', 'as returned by receive_complete'),
  ('C16_monitor_1656_meaning', 'Proofs/NetMonProofs.v', 'mon1656_meaning', 'iff: pending -> Ok with the oldest pending buffer; none pending -> NotReady'),
  ('C16_monitor_1656_holds_of_model', 'Proofs/NetMonProofs.v', 'mon1656_holds_of_model', 'vnet_receive under NetInv, conforming device'),
  ('C16_monitor_1657_meaning', 'Proofs/NetMonProofs.v', 'mon1657_meaning', 'iff: Ok exactly when the presented token is the next completion (non-Ok of ANY class otherwise)'),
  ('C16_monitor_1657_holds_of_model_rx', 'Proofs/NetMonProofs.v', 'mon1657_holds_of_model_rx', 'receive_complete, reachable queue, lengths >= header'),
  ('C16_monitor_1657_holds_of_model_tx', 'Proofs/NetMonProofs.v', 'mon1657_holds_of_model_tx', 'transmit_complete, reachable queue'),
  ('C16_monitor_1658_meaning', 'Proofs/NetMonProofs.v', 'mon1658_meaning', 'iff: accepted bits are offered ones, bit 15 not accepted'),
  ('C16_monitor_1658_holds_of_model', 'Proofs/NetMonProofs.v', 'mon1658_holds_of_model', 'net_negotiate devf for every devf'),
]
