#!/bin/sh
# usage: import_seeds6.sh Cxx ...  -- copy /tmp/seed6/Cxx-out/{mA,mB} to seeded/Cxx-m16 / Cxx-m17 and re-verify each (tools/confirm_seed.sh)
V=$(cd "$(dirname "$0")/.." && pwd)
for p in "$@"; do
  for x in A B; do
    src=/tmp/seed6/$p-out/m$x
    [ -f $src/patch.diff ] || { echo "$p m$x: no patch"; continue; }
    n=16; [ $x = B ] && n=17
    d=$V/seeded/$p-m$n
    mkdir -p $d
    cp $src/patch.diff $src/demo.diff $src/agent_meta.json $d/
    $V/tools/confirm_seed.sh $d | cut -c1-400
  done
done
