#!/bin/sh
# usage: confirm_seed.sh <seeded dir>  -- re-verify a seeded change in a scratch worktree of /repo:
#  (1) unchanged tree + demo: all tests pass; (2) change alone: the 57 pinned tests pass; (3) change + demo: the demo fails.
d=$(cd "$1" && pwd); name=$(basename $d)
wt=/tmp/confirm_$name
git -C /repo worktree remove --force $wt 2>/dev/null; rm -rf $wt
git -C /repo worktree add -q $wt HEAD || exit 2
cp /repo/Cargo.lock $wt/ 2>/dev/null
cd $wt
export CARGO_TARGET_DIR=$wt/target CARGO_NET_OFFLINE=true RUST_BACKTRACE=0
# (--test-threads=2: one test of the pinned suite, console::embedded_io::tests::read_exact, is timing-sensitive and aborts the test
# binary when the machine is heavily loaded)
run() { cargo test --offline --no-fail-fast -- --test-threads=2 2>&1 | grep -E "^test result|^test .* FAILED|error(\[|:)" | tr '\n' ';'; }
# round 7: the demonstration of a change in the hypercall transport needs the hook (file `mode` = hyp), that of a change that only
# shows without the alloc feature needs the second build configuration (`mode` = noalloc); the pinned suite is always run plainly
mode=$(cat $d/mode 2>/dev/null)
rund() {
  case "$mode" in
    hyp) RUSTFLAGS="--cfg virtio_drivers_verif" cargo test --offline --no-fail-fast --lib -- --test-threads=2 2>&1 | grep -E "^test result|^test .* FAILED|error(\[|:)" | tr '\n' ';' ;;
    noalloc) cargo test --offline --no-fail-fast --no-default-features --lib -- --test-threads=2 2>&1 | grep -E "^test result|^test .* FAILED|error(\[|:)" | tr '\n' ';' ;;
    *) run ;;
  esac
}
git apply $d/demo.diff || { echo "$name: demo does not apply"; exit 2; }
r1=$(rund)
git checkout -q -- . && git clean -fdq -e target -e Cargo.lock
git apply $d/patch.diff || { echo "$name: patch does not apply"; exit 2; }
r2=$(run)
git apply $d/demo.diff 2>/dev/null || git apply -C1 $d/demo.diff || echo "demo does not apply on top of the change"
r3=$(rund)
cd /; git -C /repo worktree remove --force $wt; rm -rf $wt
echo "$name | unchanged+demo: $r1 | change only: $r2 | change+demo: $r3" | tee $d/confirm.txt
