#!/usr/bin/env python3
"""Mutation self-test of ./check C12 against the FIXED scratch copy of the repo."""
import subprocess, sys, os, re, json, shutil
R = os.environ.get('C12_REPO', '/tmp/wb_c12b/repo')   # scratch copy of the repo WITH the F5a/F5b/F11 fixes; harness/Cargo.toml must point at it
V = os.path.dirname(os.path.dirname(os.path.abspath(__file__)))
F = os.path.join(R, 'src/transport/pci/bus.rs')

MUTS = [
 ('M1 BAR not restored when its address bits are non-zero',
  """        // Restore the original value.
        self.configuration_access.write_word(
            device_function,
            BAR0_OFFSET + 4 * bar_index,
            bar_orig,
        );
""",
  """        // Restore the original value.
        if bar_orig & 0xfffffff0 == 0 {
        self.configuration_access.write_word(
            device_function,
            BAR0_OFFSET + 4 * bar_index,
            bar_orig,
        );
        }
"""),
 ('M2 command restored before the BAR (sizing value decoded)',
  """        // Restore the original value.
        self.configuration_access.write_word(
            device_function,
            BAR0_OFFSET + 4 * bar_index,
            bar_orig,
        );

        if command_disable_decode != command_orig {
            self.set_command(device_function, command_orig);
        }
""",
  """        if command_disable_decode != command_orig {
            self.set_command(device_function, command_orig);
        }

        // Restore the original value.
        self.configuration_access.write_word(
            device_function,
            BAR0_OFFSET + 4 * bar_index,
            bar_orig,
        );
"""),
 ('M3 64-bit BAR address ignores the upper register',
  "            let address = u64::from(bar_orig & 0xfffffff0) | (u64::from(address_top) << 32);",
  "            let address = u64::from(bar_orig & 0xfffffff0) | (u64::from(address_top & 0) << 32);"),
 ('M4 only MEMORY_SPACE cleared while sizing (I/O decoding left on)',
  "            command_orig.difference(Command::IO_SPACE | Command::MEMORY_SPACE);",
  "            command_orig.difference(Command::MEMORY_SPACE);"),
 ('M5 cam_offset: ECAM shift 11 instead of 12',
  "                Cam::Ecam => 12,",
  "                Cam::Ecam => 11,"),
 ('M6 enumeration skips function 7',
  "            if self.next.function >= MAX_FUNCTIONS {",
  "            if self.next.function >= MAX_FUNCTIONS - 1 {"),
 ('M7 capability walk rejects next pointer 0x40 (<= 64)',
  "        } else if next_offset < 64 || next_offset & 0x3 != 0 {",
  "        } else if next_offset <= 64 || next_offset & 0x3 != 0 {"),
 ('M8 I/O BAR address masked with 0xfffffff0',
  "            let address = bar_orig & 0xfffffffc;",
  "            let address = bar_orig & 0xfffffff0;"),
 ('M9 size of a 64-bit BAR taken from the low half only when it has writable bits',
  "        size_mask |= u64::from(size_top) << 32;",
  "        size_mask |= u64::from(if size_mask & 0xfffffff0 != 0 { 0xffffffff } else { size_top }) << 32;"),
 ('M10 cam_offset: device shifted by 4 instead of 3',
  "            | ((device_function.device as u32) << 3)",
  "            | ((device_function.device as u32) << 4)"),
 ('M11 upper half of a 64-bit BAR not restored when it is non-zero',
  """            self.configuration_access.write_word(
                device_function,
                BAR0_OFFSET + 4 * (bar_index + 1),
                bar_top_orig,
            );""",
  """            if bar_top_orig == 0 {
            self.configuration_access.write_word(
                device_function,
                BAR0_OFFSET + 4 * (bar_index + 1),
                bar_top_orig,
            );
            }"""),
 ('M12 header type keeps the multi-function bit (& 0xff)',
  "                let header_type = HeaderType::from((bist_type_latency_cache >> 16) as u8 & 0x7f);",
  "                let header_type = HeaderType::from((bist_type_latency_cache >> 16) as u8 & 0xff);"),
 ('M13 capability list walked even when the status bit is clear',
  "        if status.contains(Status::CAPABILITIES_LIST) {",
  "        if status.contains(Status::CAPABILITIES_LIST) || true {"),
 ('M14 size of a 64-bit BAR loses the upper-half bits where the current address has ones',
  "        size_mask |= u64::from(size_top) << 32;",
  "        size_mask |= u64::from(size_top & !address_top) << 32;"),
 ('M15 I/O BARs keep the two\'s-complement size (F11 repaired for memory BARs only)',
  "        let size = address_mask & address_mask.wrapping_neg();",
  "        let size = if io_space { (!address_mask).wrapping_add(1) } else { address_mask & address_mask.wrapping_neg() };"),
 ('M16 I/O BAR size truncated to 16 bits',
  "                size: size as u32,",
  "                size: size as u16 as u32,"),
 ('M17 lowest set bit used only when more than 60 mask bits are set, twos complement otherwise (narrow decoders mis-sized)',
  "        let size = address_mask & address_mask.wrapping_neg();",
  "        let size = if address_mask.count_ones() > 60 { address_mask & address_mask.wrapping_neg() } else { (!address_mask).wrapping_add(1) };"),
]

def sh(cmd, cwd, timeout=1500):
    p = subprocess.run(cmd, shell=True, cwd=cwd, stdout=subprocess.PIPE, stderr=subprocess.STDOUT, text=True, timeout=timeout)
    return p.returncode, p.stdout

orig = open(F).read()
rows = []
only = sys.argv[1:]  # optional list of mutation ids
try:
    for name, a, b in MUTS:
        if only and name.split()[0] not in only: continue
        assert a in orig, name
        open(F, 'w').write(orig.replace(a, b, 1))
        rc, out = sh('cargo test --offline 2>&1 | grep -E "^test result|error(\\[|:)" | head -5', R)
        tests_ok = 'test result: ok. 57 passed' in out
        shutil.rmtree(os.path.join(V, 'replays', 'C12'), ignore_errors=True)
        rc, out = sh('./check C12', V)
        lines = [l for l in out.splitlines() if l.startswith(('VIOLATION', 'OK', 'NOTE', 'BROKEN', 'KNOWN'))]
        verdict = 'missed'
        detail = ''
        vio = [l for l in lines if l.startswith('VIOLATION')]
        if vio:
            if any('no-failing-input-found' in l for l in vio): verdict = 'no-failing-input-found'
            else:
                verdict = 'monitor VIOLATION with replay'
                m = re.search(r'replay=(\S+)', vio[0])
                if m:
                    meta = open(os.path.join(V, m.group(1))).readline()
                    mm = re.search(r'"kind": "(\d+)", "scenario": "([^"]+)"', meta)
                    kinds = set()
                    for l in vio:
                        m2 = re.search(r'replay=(\S+)', l)
                        k = re.search(r'"kind": "(\d+)"', open(os.path.join(V, m2.group(1))).readline())
                        if k: kinds.add(k.group(1))
                    detail = 'monitor kinds %s; first: %s (%s)' % (sorted(kinds), m.group(1), mm.group(2) if mm else '')
        notes = [l for l in lines if l.startswith('NOTE')]
        rows.append((name, 'pass' if tests_ok else 'FAIL', verdict, detail, notes[0][:160] if notes else ''))
        print(rows[-1], flush=True)
finally:
    open(F, 'w').write(orig)
json.dump(rows, open('/tmp/c12_mutation_results%s.json' % ('_'.join(only)), 'w'), indent=1)
