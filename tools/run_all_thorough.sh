#!/bin/sh
# run every registered check in the thorough tier and print one line per property
V=$(cd "$(dirname "$0")/.." && pwd); cd $V
for p in $(python3 -c "import json;print(' '.join(c['property_id'] for c in json.load(open('MANIFEST.json'))['checks']))"); do
  out=$(./check $p --tier thorough 2>&1 | grep -E "^(OK|VIOLATION|KNOWN|BROKEN|NOTE)" | head -6 | cut -c1-400 | tr '\n' ' ')
  echo "$p: $out"
done
