#!/usr/bin/env python3
"""Source lint for C02 (part of the correspondence, not of the proof): hooks are add-only, so a deleted fence
cannot be seen through them. In VirtQueue::add, fence(Ordering::SeqCst) must stand between the ring-slot store
and the Release store of avail.idx. Exit 0 = present; exit 1 + message otherwise."""
import re, sys, os
src = open(os.path.join(os.environ.get('VERIF_REPO', '/repo'), 'src/queue.rs')).read()
m = re.search(r'pub unsafe fn add<.*?\n    }\n', src, re.S)
if not m: sys.exit('lint_c02: VirtQueue::add not found')
body = m.group(0)
ring = re.search(r'\.ring\[\s*avail_slot as usize\s*\]\s*=\s*head', body)
fence = re.search(r'fence\(\s*Ordering::SeqCst\s*\)', body)
idx = re.search(r'\.idx\s*\.store\(\s*self\.avail_idx\s*,\s*Ordering::(Release|SeqCst)\s*\)', body, re.S)
if not (ring and fence and idx): sys.exit('lint_c02: ring-slot store / fence(SeqCst) / Release store of idx not all present in add()')
if not (ring.start() < fence.start() < idx.start()): sys.exit('lint_c02: fence(SeqCst) is not between the ring-slot store and the index store')
print('lint_c02 ok')
