#!/usr/bin/env python3
"""Mutation self-test of ./check C09 against the FIXED scratch copy of the repo (harness/Cargo.toml must point at it).
Each mutation compiles, passes the crate's 57 pinned unit tests, and breaks property C09 only on something specific
(a particular failing allocation, a device verdict at a particular request, a field order, a multi-step history).
usage: c09_mutation_selftest.py [--quick] [M1 M2 ...]     (--quick: harness + runner only, no ./check)"""
import subprocess, sys, os, re, json, shutil
R = os.environ.get('C09_REPO', '/tmp/wb_c09/repo')
V = os.path.dirname(os.path.dirname(os.path.abspath(__file__)))
P9 = 'src/device/virtio_9p.rs'
SND = 'src/device/sound.rs'
BLK = 'src/device/blk.rs'
GPU = 'src/device/gpu/mod.rs'
Q = 'src/queue.rs'
HAL = 'src/hal.rs'
NET = 'src/device/net/dev.rs'
SOCK = 'src/device/socket/vsock.rs'
INP = 'src/device/input.rs'
OWN = 'src/queue/owning.rs'

MUTS = [
 ('M0 the repaired defect put back (9p: finish_init before the mount tag is read)', P9,
  "        let mount_tag = read_mount_tag(&transport)?;\n        transport.finish_init();\n",
  "        transport.finish_init();\n        let mount_tag = read_mount_tag(&transport)?;\n"),
 ('M1 sound (no Drop impl): the transport field moved behind the queues, so queue memory goes before the reset', SND,
  "pub struct VirtIOSound<H: Hal, T: Transport> {\n    transport: T,\n\n    control_queue: VirtQueue<H, { QUEUE_SIZE as usize }>,\n    event_queue: OwningQueue<H, { QUEUE_SIZE as usize }, { size_of::<VirtIOSndEvent>() }>,\n    tx_queue: VirtQueue<H, { QUEUE_SIZE as usize }>,\n    rx_queue: VirtQueue<H, { QUEUE_SIZE as usize }>,\n",
  "pub struct VirtIOSound<H: Hal, T: Transport> {\n    control_queue: VirtQueue<H, { QUEUE_SIZE as usize }>,\n    event_queue: OwningQueue<H, { QUEUE_SIZE as usize }, { size_of::<VirtIOSndEvent>() }>,\n    tx_queue: VirtQueue<H, { QUEUE_SIZE as usize }>,\n    rx_queue: VirtQueue<H, { QUEUE_SIZE as usize }>,\n    transport: T,\n"),
 ('M2 blk: the Drop impl no longer disables the queue (only a transport that resets on drop saves it)', BLK,
  "        self.transport.queue_unset(QUEUE);\n    }\n}\n\n#[derive(FromBytes, Immutable, IntoBytes)]",
  "        let _ = QUEUE;\n    }\n}\n\n#[derive(FromBytes, Immutable, IntoBytes)]"),
 ('M3 gpu change_resolution: the previous frame buffer Dma is forgotten instead of dropped (leak on the SECOND resolution)', GPU,
  "            self.frame_buffer_dma = None;\n",
  "            core::mem::forget(self.frame_buffer_dma.take());\n"),
 ('M4 gpu setup_cursor: the new Dma leaks when the device rejects resource_attach_backing', GPU,
  "        self.resource_attach_backing(RESOURCE_ID_CURSOR, cursor_buffer_dma.paddr() as u64, size)?;\n        self.transfer_to_host_2d",
  "        if let Err(e) = self.resource_attach_backing(RESOURCE_ID_CURSOR, cursor_buffer_dma.paddr() as u64, size) {\n            core::mem::forget(cursor_buffer_dma);\n            return Err(e);\n        }\n        self.transfer_to_host_2d"),
 ('M5 queue allocate_flexible: the first region leaks when the SECOND allocation is refused', Q,
  "        let device_to_driver_dma = Dma::new(\n            pages(used),\n            BufferDirection::DeviceToDriver,\n            access_platform,\n        )?;",
  "        let device_to_driver_dma = match Dma::new(\n            pages(used),\n            BufferDirection::DeviceToDriver,\n            access_platform,\n        ) {\n            Ok(d) => d,\n            Err(e) => {\n                core::mem::forget(driver_to_device_dma);\n                return Err(e);\n            }\n        };"),
 ('M6 Dma::new: a refused allocation panics instead of returning Err(DmaError)', HAL,
  "        if paddr == 0 {\n            return Err(Error::DmaError);\n        }",
  "        assert!(paddr != 0, \"dma_alloc failed\");"),
 ('M7 VirtIONet: rx_buffers declared before inner, so the receive buffers are freed while still posted on the live queue', NET,
  "    inner: VirtIONetRaw<H, T, QUEUE_SIZE>,\n    rx_buffers: [Option<RxBuffer>; QUEUE_SIZE],\n}",
  "    rx_buffers: [Option<RxBuffer>; QUEUE_SIZE],\n    inner: VirtIONetRaw<H, T, QUEUE_SIZE>,\n}"),
 ('M8 socket new: finish_init moved before the event queue is created (a refused 5th/6th allocation frees rx/tx while live)', SOCK,
  "        let event = VirtQueue::new(\n            &mut transport,\n            EVENT_QUEUE_IDX,",
  "        transport.finish_init();\n        let event = VirtQueue::new(\n            &mut transport,\n            EVENT_QUEUE_IDX,"),
 ('M9 Drop for Dma returns one page less for regions of more than two pages (only the cursor / large frame buffers)', HAL,
  "unsafe { H::dma_dealloc(self.paddr, self.vaddr, self.pages, self.access_platform) };",
  "unsafe { H::dma_dealloc(self.paddr, self.vaddr, if self.pages > 2 { self.pages - 1 } else { self.pages }, self.access_platform) };"),
 ('M10 input: the Drop impl forgets the status queue', INP,
  "        self.transport.queue_unset(QUEUE_EVENT);\n        self.transport.queue_unset(QUEUE_STATUS);",
  "        self.transport.queue_unset(QUEUE_EVENT);"),
 ('M11 sound new: finish_init before the config space is read (a failing config read frees four live queues and the event buffers)', SND,
  "        // read configuration space\n        let jacks = read_config!(transport, VirtIOSoundConfig, jacks)?;",
  "        transport.finish_init();\n        // read configuration space\n        let jacks = read_config!(transport, VirtIOSoundConfig, jacks)?;"),
 ('M12 gpu setup_cursor: the previous cursor Dma is forgotten when a second cursor is set', GPU,
  "        self.cursor_buffer_dma = Some(cursor_buffer_dma);\n        Ok(())",
  "        core::mem::forget(self.cursor_buffer_dma.replace(cursor_buffer_dma));\n        Ok(())"),
 ('M13 console: the Drop impl leaves the receive queue enabled (receive buffer and queue memory freed with the queue still registered)', 'src/device/console.rs',
  "        self.transport.queue_unset(QUEUE_RECEIVEQ_PORT_0);\n        self.transport.queue_unset(QUEUE_TRANSMITQ_PORT_0);",
  "        self.transport.queue_unset(QUEUE_TRANSMITQ_PORT_0);"),
]

def sh(cmd, cwd, timeout=1500, env=None):
    p = subprocess.run(cmd, shell=True, cwd=cwd, stdout=subprocess.PIPE, stderr=subprocess.STDOUT, text=True, timeout=timeout, env=env)
    return p.returncode, p.stdout

def quick_verdict():
    env = dict(os.environ, CARGO_NET_OFFLINE='true', RUSTFLAGS='--cfg virtio_drivers_verif', CARGO_TARGET_DIR=os.path.join(V, 'build/target'))
    fails, mism = [], 0
    for prof, flag in (('debug', ''), ('release', ' --release')):
        rc, out = sh('timeout 1400 cargo build --offline%s 2>&1 | tail -3' % flag, os.path.join(V, 'harness'), env=env)
        tr = '/tmp/c09_mut_%s.trace' % prof
        rc, out = sh('%s/build/target/%s/vharness C09 quick 1 %s; %s/build/runner/runner %s 400' % (V, prof, tr, V, tr), V, env=env)
        for l in out.splitlines():
            if l.startswith('MONITOR_FAIL'):
                d = dict(re.findall(r'(\w+)=(\[[^\]]*\]|\S+)', l)); fails.append((prof, d.get('kind'), d.get('scenario')))
            elif l.startswith('MISMATCH'): mism += 1
    if fails:
        kinds = sorted(set(f[1] for f in fails))
        return 'monitor VIOLATION', 'monitor kinds %s (%d failing lines); first: %s in %s (%s)' % (kinds, len(fails), fails[0][1], fails[0][2], fails[0][0]), '%d correspondence mismatches' % mism
    if mism: return 'correspondence only', '', '%d correspondence mismatches' % mism
    return 'missed', '', ''

rows = []
args = sys.argv[1:]
quick = '--quick' in args
only = [a for a in args if a != '--quick']
for name, rel, a, b in MUTS:
    if only and name.split()[0] not in only: continue
    F = os.path.join(R, rel)
    orig = open(F).read()
    try:
        assert a in orig, name
        open(F, 'w').write(orig.replace(a, b, 1))
        rc, out = sh('CARGO_TARGET_DIR=%s/target timeout 1400 cargo test --offline 2>&1 | grep -E "^test result|error(\\[|:)" | head -5' % R, R)
        tests_ok = 'test result: ok. 57 passed' in out
        if quick:
            verdict, detail, note = quick_verdict()
            rows.append((name, 'pass' if tests_ok else 'FAIL: ' + out.strip()[-160:], verdict, detail, note))
            print(rows[-1], flush=True)
            continue
        shutil.rmtree(os.path.join(V, 'replays', 'C09'), ignore_errors=True)
        rc, out = sh('./check C09', V)
        lines = [l for l in out.splitlines() if l.startswith(('VIOLATION', 'OK', 'NOTE', 'BROKEN', 'KNOWN'))]
        verdict, detail = 'missed', ''
        vio = [l for l in lines if l.startswith('VIOLATION')]
        if vio:
            if any('no-failing-input-found' in l for l in vio): verdict = 'no-failing-input-found'
            else:
                verdict = 'monitor VIOLATION with replay'
                kinds, first = set(), ''
                for l in vio:
                    m2 = re.search(r'replay=(\S+)', l)
                    meta = open(os.path.join(V, m2.group(1))).readline()
                    k = re.search(r'"kind": "(\d+)", "scenario": "([^"]+)"', meta)
                    if k:
                        kinds.add(k.group(1))
                        if not first: first = '%s in %s' % (k.group(1), k.group(2))
                    elif 'did not terminate' in meta: kinds.add('hang')
                detail = 'monitor kinds %s; first: %s' % (sorted(kinds), first)
        notes = [l for l in lines if l.startswith('NOTE')]
        rows.append((name, 'pass' if tests_ok else 'FAIL: ' + out.strip()[-160:], verdict, detail, notes[0][:200] if notes else ''))
        print(rows[-1], flush=True)
    finally:
        open(F, 'w').write(orig)
        sh('git checkout -q -- %s' % rel, R)
shutil.rmtree(os.path.join(V, 'replays', 'C09'), ignore_errors=True)
json.dump(rows, open(os.path.join(V, 'build', 'c09_mutation_results%s.json' % ('_'.join(only))), 'w'), indent=1)
