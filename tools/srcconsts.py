#!/usr/bin/env python3
"""A small translator for the one part of the source where translation is robust: NUMERIC CONSTANTS.

  srcconsts.py dump [--repo DIR]                 every constant of DIR/src that could be evaluated, one `key = value` per line
  srcconsts.py check [--repo DIR] [--props Cxx]  regenerate build/tie/SrcConsts.v from the source, generate build/tie/ConstsTie.v from
                                                 tools/consts_map.py and let coqc decide `model constant = source constant` for every
                                                 pair (all pairs, or those tagged with the property)

What is read from the Rust source (by a line parser, no rustc): `const NAME: T = EXPR;` items (also inside `impl` blocks), the
`const NAME = EXPR;` members of `bitflags!` structs, and the discriminants of enums (explicit `Name = EXPR`, implicit = previous + 1).
EXPR may use integer literals (dec / hex / bin / octal, `_`, type suffix), `<< >> | & + - * /`, parentheses, `as T` casts, other
constants of the same file (`NAME`, `Self::NAME`, `Type::NAME`, with `.bits()`); anything else (size_of, function calls, arrays,
strings) is not evaluated and simply does not appear. Keys: `<file path under src without .rs, / as _>__<container>__<NAME>`
(`container` = the enum / bitflags struct / impl type, empty for a free constant).

The tie (second mode): tools/consts_map.py lists (Coq constant, source key, properties). A pair whose source key no longer exists
(a renamed or removed constant: a harmless rewrite) is reported as `missing` and is NOT a failure. A pair whose two values differ is
a failure: the model no longer describes the code at that point.
Prints: CONSTS pairs=<n> equal=<n> missing=<keys> mismatch=<name model src; ...>   exit 0 iff no mismatch."""
import sys, os, re, subprocess

V = os.path.dirname(os.path.dirname(os.path.abspath(__file__)))
INT = re.compile(r'^(0x[0-9a-fA-F_]+|0b[01_]+|0o[0-7_]+|[0-9][0-9_]*)(u8|u16|u32|u64|u128|usize|i8|i16|i32|i64|isize)?$')
TOK = re.compile(r'\s*(0x[0-9a-fA-F_]+(?:[ui](?:8|16|32|64|128|size))?|0b[01_]+(?:[ui](?:8|16|32|64|128|size))?|[0-9][0-9_]*(?:[ui](?:8|16|32|64|128|size))?|[A-Za-z_][A-Za-z0-9_]*(?:::[A-Za-z_][A-Za-z0-9_]*)*|<<|>>|[|&+\-*/()]|\.bits\(\)|\.bits)')


def strip_comments(text):
    text = re.sub(r'/\*.*?\*/', ' ', text, flags=re.S)
    return '\n'.join(l.split('//')[0] for l in text.split('\n'))


def lit(tok):
    m = INT.match(tok)
    if not m: return None
    t = m.group(1).replace('_', '')
    return int(t, 0) if not t.startswith('0o') else int(t[2:], 8)


def tokens(expr):
    expr = re.sub(r'\bas\s+[A-Za-z0-9_:]+', '', expr)
    out = []; i = 0
    expr = expr.strip()
    while i < len(expr):
        m = TOK.match(expr, i)
        if not m: return None
        out.append(m.group(1)); i = m.end()
        while i < len(expr) and expr[i].isspace(): i += 1
    return out


GLOBAL = {}   # (container, name) -> set of values, over all files (for `use`d flag types such as common::Feature)


def evaluate(expr, scope, container):
    # a newtype constant: `Command(0x100)`
    m = re.match(r'^[A-Z][A-Za-z0-9_]*\((.*)\)$', expr.strip())
    if m and m.group(1).count('(') == m.group(1).count(')'): expr = m.group(1)
    expr = expr.replace('.union(', ' | (')
    toks = tokens(expr)
    if toks is None: return None
    py = []
    for t in toks:
        if t in ('.bits()', '.bits'): continue
        v = lit(t)
        if v is not None: py.append(str(v)); continue
        if t in ('<<', '>>', '|', '&', '+', '-', '*', '(', ')'): py.append(t); continue
        if t == '/': py.append('//'); continue
        if re.match(r'^[A-Za-z_]', t):
            parts = t.split('::')
            name = parts[-1]
            cands = []
            if len(parts) >= 2:
                c = container if parts[-2] == 'Self' else parts[-2]
                cands.append((c, name))
            else:
                cands += [(container, name), ('', name)]
            val = None
            for c in cands:
                if c in scope: val = scope[c]; break
            if val is None:
                # any container of this file that has the name, if unambiguous
                hits = [v for (c, n), v in scope.items() if n == name]
                if len(set(hits)) == 1 and len(parts) == 1: val = hits[0]
            if val is None and len(parts) >= 2 and parts[-2] != 'Self':
                g = GLOBAL.get((parts[-2], name), set())
                if len(g) == 1: val = next(iter(g))
            if val is None: return None
            py.append(str(val)); continue
        return None
    try:
        v = eval(' '.join(py), {'__builtins__': {}}, {})
    except Exception:
        return None
    return v if isinstance(v, int) and v >= 0 else None


def parse_file(text):
    """returns list of (container, name, expr) in order"""
    text = strip_comments(text)
    # cut the unit tests off
    m = re.search(r'#\[cfg\(test\)\]\s*(?:pub\s+)?mod\s+\w+\s*\{', text)
    if m: text = text[:m.start()]
    items = []
    lines = text.split('\n')
    stack = []          # (kind, name, depth at which it opened)
    depth = 0
    prev_enum_val = {}  # container -> last expression (for implicit discriminants)
    explicit = set()    # enums with at least one explicit discriminant (the others have no specified values)
    enum_items = []
    buf = None
    for raw in lines:
        l = raw.strip()
        if buf is not None:
            buf[2] += ' ' + l
            if ';' in l:
                items.append((buf[0], buf[1], buf[2].split(';')[0].strip())); buf = None
        else:
            cont = ''
            for k, n, d in reversed(stack):
                if k in ('enum', 'flags', 'impl'): cont = n; break
            m = re.match(r'^(?:pub(?:\([a-z]+\))?\s+)?const\s+([A-Z_][A-Za-z0-9_]*)\s*(?::\s*[^=]+)?=\s*(.*)$', l)
            if m and not l.startswith('const fn'):
                name, rest = m.group(1), m.group(2)
                if ';' in rest: items.append((cont, name, rest.split(';')[0].strip()))
                else: buf = [cont, name, rest]
            elif stack and stack[-1][0] == 'enum' and depth == stack[-1][2] + 1:
                m2 = re.match(r'^([A-Z][A-Za-z0-9_]*)\s*(?:=\s*([^,]+))?,?$', l)
                if m2 and not l.startswith('#'):
                    name = m2.group(1); en = stack[-1][1]
                    if m2.group(2) is not None: expr = m2.group(2).strip(); explicit.add(en)
                    elif en in prev_enum_val: expr = '(%s) + 1' % prev_enum_val[en]
                    else: expr = '0'
                    prev_enum_val[en] = expr
                    enum_items.append((en, name, expr))
        # block structure
        m = re.match(r'^(?:pub(?:\([a-z]+\))?\s+)?enum\s+([A-Za-z0-9_]+)', l)
        if m and '{' in l: stack.append(('enum', m.group(1), depth))
        m = re.match(r'^(?:pub(?:\([a-z]+\))?\s+)?struct\s+([A-Za-z0-9_]+)\s*:\s*u\d+\s*\{', l)
        if m: stack.append(('flags', m.group(1), depth))
        m = re.match(r'^impl(?:<[^>]*>)?\s+(?:[A-Za-z0-9_:<>, ]+\s+for\s+)?([A-Za-z0-9_]+)', l)
        if m and '{' in l and not l.startswith('impl Trait'): stack.append(('impl', m.group(1), depth))
        depth += l.count('{') - l.count('}')
        while stack and depth <= stack[-1][2]: stack.pop()
    return items + [it for it in enum_items if it[0] in explicit]


def source_consts(repo):
    out = {}
    src = os.path.join(repo, 'src')
    GLOBAL.clear()
    for rnd in range(2):
      out = {}
      for root, _, files in os.walk(src):
        for f in sorted(files):
            if not f.endswith('.rs') or f == 'verif.rs' or f == 'fake.rs': continue
            path = os.path.join(root, f)
            rel = os.path.relpath(path, src)[:-3].replace('/', '_')
            items = parse_file(open(path, errors='replace').read())
            scope = {}
            for _ in range(4):
                for c, n, e in items:
                    if (c, n) in scope: continue
                    v = evaluate(e, scope, c)
                    if v is not None: scope[(c, n)] = v
            for (c, n), v in scope.items():
                out['%s__%s__%s' % (rel, c, n)] = v
                if c: GLOBAL.setdefault((c, n), set()).add(v)
    return out


def source_shapes(repo, consts):
    """for every `struct Name<..> {..}` of src/ that has a field of a resource kind: (kinds of its transport / virtqueue /
    Option<Dma> fields in declaration order, the queue indices of the queue_unset calls of its `impl Drop`, in order)"""
    out = {}
    src = os.path.join(repo, 'src')
    for root, _, files in os.walk(src):
        for f in sorted(files):
            if not f.endswith('.rs') or f in ('verif.rs', 'fake.rs'): continue
            path = os.path.join(root, f)
            rel = os.path.relpath(path, src)[:-3].replace('/', '_')
            text = strip_comments(open(path, errors='replace').read())
            m = re.search(r'#\[cfg\(test\)\]\s*(?:pub\s+)?mod\s+\w+\s*\{', text)
            if m: text = text[:m.start()]
            for sm in re.finditer(r'\bstruct\s+([A-Za-z0-9_]+)\s*(<[^{;]*>)?\s*(?:where[^{]*)?\{', text):
                name = sm.group(1)
                # body up to the matching brace
                i = sm.end(); depth = 1
                while i < len(text) and depth: depth += {'{': 1, '}': -1}.get(text[i], 0); i += 1
                body = text[sm.end():i - 1]
                kinds = []
                # fields: split at top-level commas
                parts = []; d = 0; cur = ''
                for ch in body:
                    if ch in '<([{': d += 1
                    if ch in '>)]}': d -= 1
                    if ch == ',' and d == 0: parts.append(cur); cur = ''
                    else: cur += ch
                parts.append(cur)
                for part in parts:
                    part = re.sub(r'#\[[^\]]*\]', '', part).strip()
                    fm = re.match(r'^(?:pub(?:\([a-z]+\))?\s+)?([a-z_][A-Za-z0-9_]*)\s*:\s*(.+)$', part, re.S)
                    if not fm: continue
                    ty = ' '.join(fm.group(2).split())
                    if ty == 'T': kinds.append(1)
                    elif re.match(r'^(VirtQueue|OwningQueue)\s*<', ty): kinds.append(2)
                    elif re.match(r'^Option\s*<\s*Dma\s*<', ty): kinds.append(3)
                if not kinds: continue
                unsets = []
                dm = re.search(r'impl\s*<[^{]*>\s*Drop\s+for\s+' + name + r'\b[^{]*\{', text)
                if dm:
                    i = dm.end(); depth = 1
                    while i < len(text) and depth: depth += {'{': 1, '}': -1}.get(text[i], 0); i += 1
                    for um in re.finditer(r'queue_unset\(\s*([^)]+?)\s*\)', text[dm.end():i]):
                        arg = um.group(1)
                        scope = {(k.split('__')[1], k.split('__')[2]): v for k, v in consts.items() if k.startswith(rel + '__')}
                        v = evaluate(arg, scope, '')
                        if v is None:
                            # a constant imported from the parent module (net: super::QUEUE_RECEIVE)
                            cands = [(len(os.path.commonprefix([k, rel])), val) for k, val in consts.items() if k.endswith('____' + arg.split('::')[-1])]
                            best = max([c[0] for c in cands], default=0)
                            hits = set(val for c, val in cands if c == best)
                            v = next(iter(hits)) if len(hits) == 1 else 999
                        unsets.append(v)
                out[name] = (kinds, unsets)
    return out


SIZES = {'u8': 1, 'u16': 2, 'u32': 4, 'u64': 8, 'DeviceStatus': 4}
WRAP = {'ReadPure': 1, 'ReadOnly': 1, 'WriteOnly': 2, 'ReadPureWrite': 3, 'ReadWrite': 3}


def source_layouts(repo, consts):
    """for every `#[repr(C)]`-style register struct whose members are all (wrapped) integers or arrays of them:
    [(size in bytes, wrapper code)] in declaration order"""
    out = {}
    src = os.path.join(repo, 'src')
    for root, _, files in os.walk(src):
        for f in sorted(files):
            if not f.endswith('.rs') or f in ('verif.rs', 'fake.rs'): continue
            text = strip_comments(open(os.path.join(root, f), errors='replace').read())
            for sm in re.finditer(r'\bstruct\s+([A-Za-z0-9_]+)\s*\{', text):
                i = sm.end(); depth = 1
                while i < len(text) and depth: depth += {'{': 1, '}': -1}.get(text[i], 0); i += 1
                body = text[sm.end():i - 1]
                ok = True; lay = []
                for part in body.split(','):
                    part = re.sub(r'#\[[^\]]*\]', '', part).strip()
                    if not part: continue
                    fm = re.match(r'^(?:pub(?:\([a-z]+\))?\s+)?([a-z_][A-Za-z0-9_]*)\s*:\s*(.+)$', part, re.S)
                    if not fm: ok = False; break
                    ty = ''.join(fm.group(2).split()); n = 1
                    am = re.match(r'^\[(.+);(\d+)\]$', ty)
                    if am: ty, n = am.group(1), int(am.group(2))
                    wm = re.match(r'^([A-Za-z]+)<([A-Za-z0-9_]+)>$', ty)
                    if wm and wm.group(1) in WRAP and wm.group(2) in SIZES: lay.append((n * SIZES[wm.group(2)], WRAP[wm.group(1)]))
                    elif ty in SIZES: lay.append((n * SIZES[ty], 4))
                    else: ok = False; break
                if ok and lay: out[sm.group(1)] = lay
    return out


def coq_ident(key): return 'src_' + re.sub(r'\W', '_', key)


def main():
    args = sys.argv[1:]
    mode = args[0] if args else 'dump'
    repo = '/repo'; props = None
    i = 1
    while i < len(args):
        if args[i] == '--repo': repo = args[i + 1]; i += 2
        elif args[i] == '--props': props = args[i + 1]; i += 2
        else: i += 1
    consts = source_consts(repo)
    if mode == 'dump':
        for k in sorted(consts): print('%s = %d' % (k, consts[k]))
        for k, v in sorted(source_shapes(repo, consts).items()): print('shape %s = %s unsets %s' % (k, v[0], v[1]))
        for k, v in sorted(source_layouts(repo, consts).items()): print('layout %s = %s' % (k, v))
        return 0
    ns = {}
    exec(open(os.path.join(V, 'tools', 'consts_map.py')).read(), ns)
    shapes = source_shapes(repo, consts)
    layouts = source_layouts(repo, consts)
    lpairs = [p for p in ns.get('LAYOUTS', []) if props is None or props in p[2]]
    pairs = [p for p in ns['PAIRS'] if props is None or props in p[2]]
    spairs = [p for p in ns.get('SHAPES', []) if props is None or props in p[2]]
    tie = os.path.join(V, 'build', 'tie' + (('_' + props) if props else ''))
    os.makedirs(tie, exist_ok=True)
    with open(os.path.join(tie, 'SrcConsts.v'), 'w') as f:
        f.write('(* GENERATED on every run by tools/srcconsts.py from %s/src: the numeric constants of the source *)\nFrom Coq Require Import NArith.\nOpen Scope N_scope.\n' % repo)
        for k in sorted(consts): f.write('Definition %s : N := %d.\n' % (coq_ident(k), consts[k]))
        f.write('From Coq Require Import List. Import ListNotations.\n')
        for k, lay in sorted(layouts.items()):
            f.write('Definition src_layout_%s : list (N * N) := [%s].\n' % (k, '; '.join('(%d, %d)' % x for x in lay)))
        for k, (kinds, unsets) in sorted(shapes.items()):
            f.write('Definition src_shape_%s : list N * list N := ([%s], [%s]).\n' % (k, '; '.join(map(str, kinds)), '; '.join(map(str, unsets))))
    present = [p for p in pairs if p[1] in consts]
    missing = [p[1] for p in pairs if p[1] not in consts] + ['struct ' + p[1] for p in spairs if p[1] not in shapes]
    spresent = [p for p in spairs if p[1] in shapes]
    lpresent = [p for p in lpairs if p[1] in layouts]
    missing += ['register struct ' + p[1] for p in lpairs if p[1] not in layouts]
    mods = sorted(set(m for p in present + spresent + lpresent for m in re.findall(r'\b((?:Model|Base)\.[A-Za-z0-9_]+)\.', p[0])))
    with open(os.path.join(tie, 'ConstsTie.v'), 'w') as f:
        f.write('(* GENERATED by tools/srcconsts.py from tools/consts_map.py: model constant = source constant, decided by the kernel *)\n')
        f.write('From Coq Require Import NArith List Bool.\nImport ListNotations.\n')
        for m in mods: f.write('From VD Require %s.\n' % m)
        f.write('Require SrcConsts.\nOpen Scope N_scope.\n')
        f.write('Definition ties : list (N * (N * N)) := [\n')
        f.write(';\n'.join('  (%d, (%s, SrcConsts.%s))' % (j, re.sub(r'\b(Model|Base)\.', r'VD.\1.', p[0]), coq_ident(p[1])) for j, p in enumerate(present)))
        f.write('].\nDefinition differ := filter (fun t => negb (fst (snd t) =? snd (snd t))) ties.\nEval vm_compute in differ.\n')
        f.write('(* declarations: field order of the driver structs and the queue_unset calls of their Drop impls *)\n')
        f.write('Fixpoint leqb (a b : list N) : bool := match a, b with [], [] => true | x :: a\', y :: b\' => (x =? y) && leqb a\' b\' | _, _ => false end.\n')
        f.write('Definition shape_ties : list (N * ((list N * list N) * (list N * list N))) := [\n')
        f.write(';\n'.join('  (%d, (%s, SrcConsts.src_shape_%s))' % (1000 + j, re.sub(r'\b(Model|Base)\.', r'VD.\1.', p[0]), p[1]) for j, p in enumerate(spresent)))
        f.write('].\nDefinition shape_differ := map fst (filter (fun t => negb (leqb (fst (fst (snd t))) (fst (snd (snd t))) && leqb (snd (fst (snd t))) (snd (snd (snd t))))) shape_ties).\n')
        f.write('(* declarations: member sizes and safe-mmio wrappers of the register blocks *)\n')
        f.write('Fixpoint lpeqb (a b : list (N * N)) : bool := match a, b with [], [] => true | (x, u) :: a\', (y, v) :: b\' => (x =? y) && (u =? v) && lpeqb a\' b\' | _, _ => false end.\n')
        f.write('Definition layout_ties : list (N * (list (N * N) * list (N * N))) := [\n')
        f.write(';\n'.join('  (%d, (%s, SrcConsts.src_layout_%s))' % (2000 + j, re.sub(r'\b(Model|Base)\.', r'VD.\1.', p[0]), p[1]) for j, p in enumerate(lpresent)))
        f.write('].\nDefinition layout_differ := map fst (filter (fun t => negb (lpeqb (fst (snd t)) (snd (snd t)))) layout_ties).\n')
        f.write('Definition decl_differ := shape_differ ++ layout_differ.\nEval vm_compute in decl_differ.\n')
        f.write('(* the obligation itself: it only type-checks when every pair is equal *)\nTheorem consts_tie : differ = [] /\\ decl_differ = [].\nProof. vm_compute. split; reflexivity. Qed.\n')
    r1 = subprocess.run(['coqc', '-noglob', '-R', tie, '', os.path.join(tie, 'SrcConsts.v')], capture_output=True, text=True, cwd=tie)
    r2 = subprocess.run(['coqc', '-noglob', '-Q', os.path.join(V, 'coq', 'theories'), 'VD', '-R', tie, '', os.path.join(tie, 'ConstsTie.v')],
                        capture_output=True, text=True, cwd=tie)
    out = ' '.join((r2.stdout + r2.stderr).split())
    m = re.search(r'=\s*(\[.*?\])\s*:\s*list \(N \* \(N \* N\)\)', out)
    if r1.returncode != 0 or not m:
        print('CONSTS pairs=%d error=%s' % (len(pairs), (r1.stderr + out)[-400:])); return 2
    bad = re.findall(r'\((\d+),\s*\((\d+),\s*(\d+)\)\)', m.group(1))
    mism = ['%s model=%s source(%s)=%s' % (present[int(j)][0], a, present[int(j)][1], b) for j, a, b in bad]
    m2 = re.search(r'=\s*(\[[^\]]*\])\s*:\s*list N', out)
    if not m2:
        print('CONSTS pairs=%d error=%s' % (len(pairs), out[-400:])); return 2
    for j in re.findall(r'\d+', m2.group(1)):
        if int(j) >= 2000:
            lp = lpresent[int(j) - 2000]
            mism.append('member sizes / wrappers of register struct %s: source %s, model %s differs' % (lp[1], layouts[lp[1]], lp[0]))
        else:
            sp = spresent[int(j) - 1000]
            mism.append('field order / Drop of struct %s: source %s, model %s differs' % (sp[1], shapes[sp[1]], sp[0]))
    print('CONSTS pairs=%d equal=%d missing=[%s] mismatch=[%s]' % (len(pairs) + len(spairs) + len(lpairs), len(present) + len(spresent) + len(lpresent) - len(mism), ', '.join(missing), '; '.join(mism)))
    return 1 if mism else 0


if __name__ == '__main__':
    sys.exit(main())
