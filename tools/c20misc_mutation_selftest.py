#!/usr/bin/env python3
"""Mutation self-test of ./check C20 (part rng / rtc / 9p) against a scratch copy of the repo (C20_REPO, default
/tmp/wb_c20misc/repo; ./check is pointed at it through VERIF_REPO, proofs skipped: the Coq side does not depend on the repo).
Each mutation compiles, passes the pinned `cargo test --offline` (57 unit tests) and needs something specific to manifest
(a used length above the buffer, one particular status byte, a clock type / smearing / flag combination, a non-palindromic
clock id, a reading with the top bit, a size field below / far above the used length, a 7-byte buffer, a tag of 256 bytes or
more, an ill-formed tag, a config change under the read, a zero tag length, an empty request)."""
import subprocess, sys, os, re, json, shutil
R = os.environ.get('C20_REPO', '/tmp/wb_c20misc/repo')
V = os.path.dirname(os.path.dirname(os.path.abspath(__file__)))
RNG, RTC, P9 = 'src/device/rng.rs', 'src/device/rtc.rs', 'src/device/virtio_9p.rs'

MUTS = [
 ('M1 rng: returned length clamped to dst.len()', RNG,
  """        let num = self
            .queue
            .add_notify_wait_pop(&[], &mut [dst], &mut self.transport)?;
        Ok(num as usize)""",
  """        let cap = dst.len();
        let num = self
            .queue
            .add_notify_wait_pop(&[], &mut [dst], &mut self.transport)?;
        Ok((num as usize).min(cap))"""),
 ('M2 rtc: status 1 (undefined) accepted as success', RTC,
  "            VIRTIO_RTC_S_OK => Ok(resp),",
  "            VIRTIO_RTC_S_OK | 1 => Ok(resp),"),
 ('M3 rtc: S_ENODEV reported as Unsupported', RTC,
  "            VIRTIO_RTC_S_ENODEV | VIRTIO_RTC_S_EINVAL => Err(Error::InvalidParam),",
  "            VIRTIO_RTC_S_EINVAL => Err(Error::InvalidParam),\n            VIRTIO_RTC_S_ENODEV => Err(Error::Unsupported),"),
 ('M4 rtc: smearing variants swapped', RTC,
  """                VIRTIO_RTC_SMEAR_UTC_SLS => Some(SmearingVariant::UtcSls),
                VIRTIO_RTC_SMEAR_NOON_LINEAR => Some(SmearingVariant::NoonLinear),""",
  """                VIRTIO_RTC_SMEAR_UTC_SLS => Some(SmearingVariant::NoonLinear),
                VIRTIO_RTC_SMEAR_NOON_LINEAR => Some(SmearingVariant::UtcSls),"""),
 ('M5 rtc: alarm capability = any flag bit', RTC,
  "            alarm_capability: resp.flags & VIRTIO_RTC_FLAG_ALARM_CAP != 0,",
  "            alarm_capability: resp.flags != 0,"),
 ('M6 rtc: read sends the clock id byte-swapped', RTC,
  """                msg_type: VIRTIO_RTC_REQ_READ,
                ..VirtioRtcReqHead::default()
            },
            clock_id,""",
  """                msg_type: VIRTIO_RTC_REQ_READ,
                ..VirtioRtcReqHead::default()
            },
            clock_id: clock_id.swap_bytes(),"""),
 ('M7 rtc: read drops the top bit of the reading', RTC,
  "        Ok(resp.clock_reading)",
  "        Ok(resp.clock_reading & 0x7FFF_FFFF_FFFF_FFFF)"),
 ('M8 rtc: clock_cap sets a reserved byte', RTC,
  """            clock_id,
            ..VirtioRtcReqClockCap::default()""",
  """            clock_id,
            reserved: [0, 0, 0, 0, 0, 1],"""),
 ('M9 rtc: smearing also decoded for UTC_MAYBE_SMEARED', RTC,
  "        let leap_second_smearing = if kind == ClockType::UtcSmeared {",
  "        let leap_second_smearing = if kind == ClockType::UtcSmeared || kind == ClockType::UtcMaybeSmeared {"),
 ('M10 9p: size check loosened to size > used_len', P9,
  "        if size != used_len {",
  "        if size > used_len {"),
 ('M11 9p: a 7-byte response buffer refused', P9,
  "        if req.is_empty() || resp.len() < P9_HEADER_SIZE {",
  "        if req.is_empty() || resp.len() <= P9_HEADER_SIZE {"),
 ('M12 9p: size field read from three bytes', P9,
  "        let size = u32::from_le_bytes([resp[0], resp[1], resp[2], resp[3]]);",
  "        let size = u32::from_le_bytes([resp[0], resp[1], resp[2], (used_len >> 24) as u8]);"),
 ('M13 9p: mount tag length truncated to 8 bits', P9,
  "        for idx in 0..tag_len as usize {",
  "        for idx in 0..(tag_len as u8) as usize {"),
 ('M14 9p: ill-formed UTF-8 in the tag replaced instead of refused', P9,
  "        Ok(String::from_utf8(bytes)?)",
  "        Ok(String::from_utf8_lossy(&bytes).into_owned())"),
 ('M15 9p: mount tag read without read_consistent', P9,
  "    transport.read_consistent(|| {\n        let tag_len: u16 = transport.read_config_space(0)?;",
  "    (|| {\n        let tag_len: u16 = transport.read_config_space(0)?;"),
 ('M16 9p: zero tag length accepted', P9,
  """        if tag_len == 0 {
            return Err(Error::InvalidParam);
        }""",
  """        if tag_len == 0xFFFF {
            return Err(Error::InvalidParam);
        }"""),
 ('M17 9p: empty request not refused', P9,
  "        if req.is_empty() || resp.len() < P9_HEADER_SIZE {",
  "        if resp.len() < P9_HEADER_SIZE {"),
 ('M18 rtc: num_clocks above 0x7FFF loses its top bit', RTC,
  "        Ok(resp.num_clocks)",
  "        Ok(if resp.num_clocks > 0x7FFF { resp.num_clocks & 0x7FFF } else { resp.num_clocks })"),
]

def sh(cmd, cwd, timeout=1500, env=None):
    p = subprocess.run(cmd, shell=True, cwd=cwd, stdout=subprocess.PIPE, stderr=subprocess.STDOUT, text=True, timeout=timeout, env=env)
    return p.returncode, p.stdout

rows = []
only = sys.argv[1:]
env = dict(os.environ, VERIF_REPO=R, VERIF_SKIP_PROOFS='1')
for name, rel, a, b in MUTS:
    if only and name.split()[0] not in only: continue
    F = os.path.join(R, rel)
    orig = open(F).read()
    try:
        assert a in orig, name
        if name.startswith('M15'):
            # the closure is called directly: close it with `})()` instead of `})`
            mutated = orig.replace(a, b, 1).replace("        Ok(String::from_utf8(bytes)?)\n    })", "        Ok(String::from_utf8(bytes)?)\n    })()", 1)
        else:
            mutated = orig.replace(a, b, 1)
        open(F, 'w').write(mutated)
        rc, out = sh('CARGO_TARGET_DIR=%s/target cargo test --offline 2>&1 | grep -E "^test result|^error" | head -5' % R, R)
        tests_ok = 'test result: ok. 57 passed' in out
        shutil.rmtree(os.path.join(V, 'replays', 'C20'), ignore_errors=True)
        rc, out = sh('./check C20', V, env=env)
        lines = [l for l in out.splitlines() if l.startswith(('VIOLATION', 'OK', 'NOTE', 'BROKEN', 'KNOWN'))]
        verdict = 'missed'; detail = ''
        vio = [l for l in lines if l.startswith('VIOLATION')]
        if any(l.startswith('BROKEN') for l in lines): verdict = 'BROKEN'
        if vio:
            if any('no-failing-input-found' in l for l in vio): verdict = 'no-failing-input-found'
            else:
                verdict = 'monitor VIOLATION with replay'
                kinds = set(); first = ''
                for l in vio:
                    m2 = re.search(r'replay=(\S+)', l)
                    meta = open(os.path.join(V, m2.group(1))).readline()
                    k = re.search(r'"kind": "(\d+)"', meta); sc = re.search(r'"scenario": "([^"]+)"', meta)
                    if k: kinds.add(k.group(1))
                    if not first: first = '%s (%s)' % (m2.group(1), sc.group(1) if sc else '')
                detail = 'monitor kinds %s; first: %s' % (sorted(kinds), first)
        notes = [l for l in lines if l.startswith('NOTE')]
        rows.append((name, 'pass' if tests_ok else 'FAIL: ' + out[-200:], verdict, detail, notes[0][:200] if notes else ''))
        print(rows[-1], flush=True)
    finally:
        open(F, 'w').write(orig)
        shutil.rmtree(os.path.join(V, 'replays', 'C20'), ignore_errors=True)
json.dump(rows, open(os.path.join(os.path.dirname(R), 'c20misc_mutation_results%s.json' % ('_'.join(only))), 'w'), indent=1)
