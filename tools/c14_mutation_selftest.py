#!/usr/bin/env python3
"""Mutation self-test of ./check C14 against a scratch copy of the repo (harness/Cargo.toml must point at it).
Each mutation compiles, passes the pinned `cargo test --offline` (57 unit tests) and needs something specific to
manifest (an error status, a sector >= 2^32, a feature combination, a config change between the two halves,
a full-length id, two requests in flight completing out of order, a multi-sector transfer)."""
import subprocess, sys, os, re, json, shutil
R = os.environ.get('C14_REPO', '/tmp/wb_c14/repo')
V = os.path.dirname(os.path.dirname(os.path.abspath(__file__)))
F = os.path.join(R, 'src/device/blk.rs')

MUTS = [
 ('M1 status 2 (UNSUPP) reported as IoError',
  "            RespStatus::UNSUPPORTED => Err(Error::Unsupported),",
  "            RespStatus::UNSUPPORTED => Err(Error::IoError),"),
 ('M2 read_blocks_nb truncates the sector to 32 bits',
  """        *req = BlkReq {
            type_: ReqType::In,
            reserved: 0,
            sector: block_id as u64,
        };""",
  """        *req = BlkReq {
            type_: ReqType::In,
            reserved: 0,
            sector: block_id as u32 as u64,
        };"""),
 ('M3 complete_write_blocks ignores the status byte',
  """                .pop_used(token, &[req.as_bytes(), buf], &mut [resp.as_mut_bytes()])?;
        }
        resp.status.into()""",
  """                .pop_used(token, &[req.as_bytes(), buf], &mut [resp.as_mut_bytes()])?;
        }
        Ok(())"""),
 ('M4 flush also sent when only RO was negotiated',
  "        if self.negotiated_features.contains(BlkFeature::FLUSH) {",
  "        if self.negotiated_features.intersects(BlkFeature::FLUSH.union(BlkFeature::RO)) {"),
 ('M5 capacity halves read without read_consistent (torn when the config changes in between)',
  """        let capacity = transport.read_consistent(|| {
            Ok((read_config!(transport, BlkConfig, capacity_low)? as u64)
                | ((read_config!(transport, BlkConfig, capacity_high)? as u64) << 32))
        })?;""",
  """        let capacity = (|| -> Result<u64> {
            Ok((read_config!(transport, BlkConfig, capacity_low)? as u64)
                | ((read_config!(transport, BlkConfig, capacity_high)? as u64) << 32))
        })()?;"""),
 ('M6 device_id: an id using all 20 bytes reported as length 0',
  "        let length = id.iter().position(|&x| x == 0).unwrap_or(20);",
  "        let length = id.iter().position(|&x| x == 0).unwrap_or(0);"),
 ('M7 write_blocks_nb sets reserved = 1 in the header',
  """        *req = BlkReq {
            type_: ReqType::Out,
            reserved: 0,
            sector: block_id as u64,
        };""",
  """        *req = BlkReq {
            type_: ReqType::Out,
            reserved: 1,
            sector: block_id as u64,
        };"""),
 ('M8 complete_read_blocks pops whatever completed first instead of its token',
  """        unsafe {
            self.queue
                .pop_used(token, &[req.as_bytes()], &mut [buf, resp.as_mut_bytes()])?;
        }""",
  """        let token = self.queue.peek_used().unwrap_or(token);
        unsafe {
            self.queue
                .pop_used(token, &[req.as_bytes()], &mut [buf, resp.as_mut_bytes()])?;
        }"""),
 ('M9 read_blocks transfers only the first sector of a multi-sector buffer',
  """                sector: block_id as u64,
            },
            buf,
        )
    }

    /// Submits a request to read""",
  """                sector: block_id as u64,
            },
            &mut buf[..SECTOR_SIZE],
        )
    }

    /// Submits a request to read"""),
 ('M10 readonly() reports the FLUSH bit',
  "        self.negotiated_features.contains(BlkFeature::RO)\n    }",
  "        self.negotiated_features.contains(BlkFeature::RO) && !self.negotiated_features.contains(BlkFeature::ACCESS_PLATFORM)\n    }"),
 ('M11 write_blocks (blocking) sends sector + 1 for sectors above 2^40',
  """                type_: ReqType::Out,
                sector: block_id as u64,
                ..Default::default()""",
  """                type_: ReqType::Out,
                sector: if block_id as u64 > (1 << 40) { block_id as u64 ^ 1 } else { block_id as u64 },
                ..Default::default()"""),
 ('M12 status >= 128 treated as success',
  "            _ => Err(Error::IoError),\n        }\n    }\n}\n\nimpl Default for BlkResp",
  "            RespStatus(s) if s >= 128 => Ok(()),\n            _ => Err(Error::IoError),\n        }\n    }\n}\n\nimpl Default for BlkResp"),
]

def sh(cmd, cwd, timeout=1500):
    p = subprocess.run(cmd, shell=True, cwd=cwd, stdout=subprocess.PIPE, stderr=subprocess.STDOUT, text=True, timeout=timeout)
    return p.returncode, p.stdout

orig = open(F).read()
rows = []
only = sys.argv[1:]
try:
    for name, a, b in MUTS:
        if only and name.split()[0] not in only: continue
        assert a in orig, name
        open(F, 'w').write(orig.replace(a, b, 1))
        rc, out = sh('CARGO_TARGET_DIR=%s/target cargo test --offline 2>&1 | grep -E "^test result|error(\\[|:)" | head -5' % R, R)
        tests_ok = 'test result: ok. 57 passed' in out
        shutil.rmtree(os.path.join(V, 'replays', 'C14'), ignore_errors=True)
        rc, out = sh('./check C14', V)
        lines = [l for l in out.splitlines() if l.startswith(('VIOLATION', 'OK', 'NOTE', 'BROKEN', 'KNOWN'))]
        verdict = 'missed'; detail = ''
        vio = [l for l in lines if l.startswith('VIOLATION')]
        if any(l.startswith('BROKEN') for l in lines): verdict = 'BROKEN'
        if vio:
            if any('no-failing-input-found' in l for l in vio): verdict = 'no-failing-input-found'
            else:
                verdict = 'monitor VIOLATION with replay'
                kinds = set(); first = ''
                for l in vio:
                    m2 = re.search(r'replay=(\S+)', l)
                    meta = open(os.path.join(V, m2.group(1))).readline()
                    k = re.search(r'"kind": "(\d+)"', meta); sc = re.search(r'"scenario": "([^"]+)"', meta)
                    if k: kinds.add(k.group(1))
                    if not first: first = '%s (%s)' % (m2.group(1), sc.group(1) if sc else '')
                detail = 'monitor kinds %s; first: %s' % (sorted(kinds), first)
        notes = [l for l in lines if l.startswith('NOTE')]
        rows.append((name, 'pass' if tests_ok else 'FAIL: ' + out[-200:], verdict, detail, notes[0][:200] if notes else ''))
        print(rows[-1], flush=True)
finally:
    open(F, 'w').write(orig)
    shutil.rmtree(os.path.join(V, 'replays', 'C14'), ignore_errors=True)
json.dump(rows, open('/tmp/wb_c14/c14_mutation_results%s.json' % ('_'.join(only)), 'w'), indent=1)
