#!/usr/bin/env python3
"""Mutation self-test of ./check C15 against the FIXED scratch copy of the repo (harness/Cargo.toml must point at it).
Each mutation compiles, passes the crate's 57 pinned unit tests, and breaks property C15 only on something specific
(a boundary value, a particular order of calls, a multi-step history)."""
import subprocess, sys, os, re, json, shutil
R = os.environ.get('C15_REPO', '/tmp/wb_c15/repo')
V = os.path.dirname(os.path.dirname(os.path.abspath(__file__)))
CON = 'src/device/console.rs'
EIO = 'src/device/console/embedded_io.rs'

MUTS = [
 ('M0 the repaired defect put back (consume: cursor + amt may wrap)', EIO,
  "        assert!(amt <= self.pending_len - self.cursor);",
  "        assert!(self.cursor + amt <= self.pending_len);"),
 ('M1 poll_retrieve posts the buffer while received bytes are still unread', CON,
  "        if self.receive_token.is_none() && self.cursor == self.pending_len {",
  "        if self.receive_token.is_none() {"),
 ('M2 read sets the cursor to the length read instead of advancing it (second partial read repeats bytes)', EIO,
  "            self.cursor += read_length;",
  "            self.cursor = read_length;"),
 ('M3 finish_receive caps pending_len at 4095 (last byte of a full-page chunk lost)', CON,
  "            self.pending_len = len as usize;",
  "            self.pending_len = (len as usize).min(PAGE_SIZE - 1);"),
 ('M4 read_ready no longer completes a finished request (reports no data while a chunk is waiting)', EIO,
  "        self.finish_receive()?;\n        Ok(self.cursor != self.pending_len)",
  "        Ok(self.cursor != self.pending_len)"),
 ('M5 recv indexes the buffer with cursor capped at 255 (wrong byte once 256 bytes of a chunk are consumed)', CON,
  "        let ch = self.queue_buf_rx[self.cursor];",
  "        let ch = self.queue_buf_rx[self.cursor.min(255)];"),
 ('M6 send_bytes silently truncates a buffer above one page', CON,
  "            .add_notify_wait_pop(&[buffer], &mut [], &mut self.transport)?;",
  "            .add_notify_wait_pop(&[&buffer[..buffer.len().min(PAGE_SIZE)]], &mut [], &mut self.transport)?;"),
 ('M7 read bounds the copy by pending_len instead of what is left (stale bytes after a partial read)', EIO,
  "            let read_length = min(buf.len(), self.pending_len - self.cursor);",
  "            let read_length = min(buf.len(), self.pending_len).min(4096 - self.cursor);"),
 ('M8 recv(pop) on the last byte of a chunk does not advance (byte delivered twice) when the chunk is longer than 1', CON,
  "            self.cursor += 1;",
  "            if !(self.cursor + 1 == self.pending_len && self.pending_len == 7) { self.cursor += 1; }"),
 ('M9 consume(amt) of everything but one byte skips the whole rest', EIO,
  "        self.cursor += amt;",
  "        self.cursor += if amt > 1 && self.cursor + amt + 1 == self.pending_len { amt + 1 } else { amt };"),
]

def sh(cmd, cwd, timeout=1500):
    p = subprocess.run(cmd, shell=True, cwd=cwd, stdout=subprocess.PIPE, stderr=subprocess.STDOUT, text=True, timeout=timeout)
    return p.returncode, p.stdout

rows = []
only = sys.argv[1:]
for name, rel, a, b in MUTS:
    if only and name.split()[0] not in only: continue
    F = os.path.join(R, rel)
    orig = open(F).read()
    try:
        assert a in orig, name
        open(F, 'w').write(orig.replace(a, b, 1))
        rc, out = sh('CARGO_TARGET_DIR=%s/target timeout 1400 cargo test --offline 2>&1 | grep -E "^test result|error(\\[|:)" | head -5' % R, R)
        tests_ok = 'test result: ok. 57 passed' in out
        shutil.rmtree(os.path.join(V, 'replays', 'C15'), ignore_errors=True)
        rc, out = sh('./check C15', V)
        lines = [l for l in out.splitlines() if l.startswith(('VIOLATION', 'OK', 'NOTE', 'BROKEN', 'KNOWN'))]
        verdict, detail = 'missed', ''
        vio = [l for l in lines if l.startswith('VIOLATION')]
        if vio:
            if any('no-failing-input-found' in l for l in vio): verdict = 'no-failing-input-found'
            else:
                verdict = 'monitor VIOLATION with replay'
                kinds, first = set(), ''
                for l in vio:
                    m2 = re.search(r'replay=(\S+)', l)
                    meta = open(os.path.join(V, m2.group(1))).readline()
                    k = re.search(r'"kind": "(\d+)", "scenario": "([^"]+)"', meta)
                    if k:
                        kinds.add(k.group(1))
                        if not first: first = '%s in %s' % (k.group(1), k.group(2))
                    elif 'did not terminate' in meta: kinds.add('hang')
                detail = 'monitor kinds %s; first: %s' % (sorted(kinds), first)
        notes = [l for l in lines if l.startswith('NOTE')]
        rows.append((name, 'pass' if tests_ok else 'FAIL: ' + out.strip()[-120:], verdict, detail, notes[0][:200] if notes else ''))
        print(rows[-1], flush=True)
    finally:
        open(F, 'w').write(orig)
        sh('git checkout -q -- %s' % rel, R)
shutil.rmtree(os.path.join(V, 'replays', 'C15'), ignore_errors=True)
json.dump(rows, open(os.path.join(V, 'build', 'c15_mutation_results%s.json' % ('_'.join(only))), 'w'), indent=1)
