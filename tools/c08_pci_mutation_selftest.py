#!/usr/bin/env python3
"""Mutation self-test of the PCI part of ./check C08 (kinds 812 / 854) against a scratch copy of the repo
(harness/Cargo.toml must point at it; C08_REPO names it). Every mutation touches src/transport/pci.rs only, compiles
and passes the pinned `cargo test --offline` (57 unit tests); P* break the C08 handshake on the PCI transport only,
H* are harmless for the property (the device sees the same handshake) but change the exact access sequence."""
import subprocess, sys, os, re, json, shutil
R = os.environ.get('C08_REPO', '/tmp/wb_c08p/repo')
V = os.path.dirname(os.path.dirname(os.path.abspath(__file__)))
F = 'src/transport/pci.rs'

MUTS = [
 ('P1 write_driver_features writes the high half under selector 0',
  """        field!(self.common_cfg, driver_feature_select).write(1);
        field!(self.common_cfg, driver_feature).write((driver_features >> 32) as u32);""",
  """        field!(self.common_cfg, driver_feature_select).write(0);
        field!(self.common_cfg, driver_feature).write((driver_features >> 32) as u32);"""),
 ('P2 set_status ORs in the status read back from the device, the reset included (a stale status survives; Drop then spins)',
  """        field!(self.common_cfg, device_status).write(status.bits() as u8);""",
  """        let old = field_shared!(self.common_cfg, device_status).read();
        field!(self.common_cfg, device_status).write(status.bits() as u8 | (old & 0x0f));"""),
 ('H3 set_status ORs in the status read back from the device except when resetting (same values reach the device)',
  """        field!(self.common_cfg, device_status).write(status.bits() as u8);""",
  """        let old = field_shared!(self.common_cfg, device_status).read();
        let bits = status.bits() as u8;
        field!(self.common_cfg, device_status).write(if bits == 0 { 0 } else { bits | (old & bits) });"""),
 ('P3 queue_set enables the queue before writing its addresses',
  """        field!(self.common_cfg, queue_desc).write(descriptors);
        field!(self.common_cfg, queue_driver).write(driver_area);
        field!(self.common_cfg, queue_device).write(device_area);
        field!(self.common_cfg, queue_enable).write(1);""",
  """        field!(self.common_cfg, queue_enable).write(1);
        field!(self.common_cfg, queue_desc).write(descriptors);
        field!(self.common_cfg, queue_driver).write(driver_area);
        field!(self.common_cfg, queue_device).write(device_area);"""),
 ('P4 read_device_features reads the high half under selector 0',
  """        field!(self.common_cfg, device_feature_select).write(1);
        device_features_bits |=""",
  """        field!(self.common_cfg, device_feature_select).write(0);
        device_features_bits |="""),
 ('P5 notify uses the queue index instead of queue_notify_off',
  """        let offset_bytes = usize::from(queue_notify_off) * self.notify_off_multiplier as usize;""",
  """        let _ = queue_notify_off;
        let offset_bytes = usize::from(queue) * self.notify_off_multiplier as usize;"""),
 ('P6 set_status truncates the status to its low three bits (FEATURES_OK never reaches the device)',
  """        field!(self.common_cfg, device_status).write(status.bits() as u8);""",
  """        field!(self.common_cfg, device_status).write(status.bits() as u8 & 0x07);"""),
 ('P7 write_driver_features skips the high half when it is zero apart from VERSION_1',
  """        field!(self.common_cfg, driver_feature_select).write(1);
        field!(self.common_cfg, driver_feature).write((driver_features >> 32) as u32);""",
  """        if (driver_features >> 33) != 0 {
            field!(self.common_cfg, driver_feature_select).write(1);
            field!(self.common_cfg, driver_feature).write((driver_features >> 32) as u32);
        }"""),
 ('H1 queue_set writes queue_size after the addresses (still before queue_enable)',
  """        field!(self.common_cfg, queue_size).write(size as u16);
        field!(self.common_cfg, queue_desc).write(descriptors);
        field!(self.common_cfg, queue_driver).write(driver_area);
        field!(self.common_cfg, queue_device).write(device_area);""",
  """        field!(self.common_cfg, queue_desc).write(descriptors);
        field!(self.common_cfg, queue_driver).write(driver_area);
        field!(self.common_cfg, queue_device).write(device_area);
        field!(self.common_cfg, queue_size).write(size as u16);"""),
 ('H2 read_device_features reads the high half first',
  """        field!(self.common_cfg, device_feature_select).write(0);
        let mut device_features_bits = field_shared!(self.common_cfg, device_feature).read() as u64;
        field!(self.common_cfg, device_feature_select).write(1);
        device_features_bits |=
            (field_shared!(self.common_cfg, device_feature).read() as u64) << 32;""",
  """        field!(self.common_cfg, device_feature_select).write(1);
        let mut device_features_bits = (field_shared!(self.common_cfg, device_feature).read() as u64) << 32;
        field!(self.common_cfg, device_feature_select).write(0);
        device_features_bits |= field_shared!(self.common_cfg, device_feature).read() as u64;"""),
]

def sh(cmd, cwd, timeout=3000):
    p = subprocess.run(cmd, shell=True, cwd=cwd, stdout=subprocess.PIPE, stderr=subprocess.STDOUT, text=True, timeout=timeout)
    return p.returncode, p.stdout

rows = []
only = sys.argv[1:]
for name, a, b in MUTS:
    if only and name.split()[0] not in only: continue
    P = os.path.join(R, F)
    orig = open(P).read()
    try:
        assert orig.count(a) == 1, name
        open(P, 'w').write(orig.replace(a, b, 1))
        rc, out = sh('CARGO_TARGET_DIR=%s/target timeout 1400 cargo test --offline 2>&1 | grep -E "^test result|error(\\[|:)" | head -5' % R, R)
        tests_ok = 'test result: ok. 57 passed' in out
        tests_out = out
        shutil.rmtree(os.path.join(V, 'replays', 'C08'), ignore_errors=True)
        rc, out = sh('VERIF_SKIP_PROOFS=1 timeout 2800 ./check C08', V)
        lines = [l for l in out.splitlines() if l.startswith(('VIOLATION', 'OK', 'NOTE', 'BROKEN', 'KNOWN'))]
        verdict = 'missed'; detail = ''
        vio = [l for l in lines if l.startswith('VIOLATION')]
        if any(l.startswith('BROKEN') for l in lines): verdict = 'BROKEN'
        if vio:
            if any('no-failing-input-found' in l for l in vio): verdict = 'correspondence only (no-failing-input-found)'
            else:
                verdict = 'monitor VIOLATION with replay'
                kinds = set(); first = ''
                for l in vio:
                    m2 = re.search(r'replay=(\S+)', l)
                    meta = open(os.path.join(V, m2.group(1))).readline()
                    k = re.search(r'"kind": "(\d+)"', meta); sc = re.search(r'"scenario": "([^"]+)"', meta)
                    if k: kinds.add(k.group(1))
                    if not first: first = '%s (%s)' % (m2.group(1), sc.group(1) if sc else '')
                detail = 'monitor kinds %s; first: %s' % (sorted(kinds), first)
        notes = [l for l in lines if l.startswith('NOTE')]
        rows.append((name, 'pass' if tests_ok else 'FAIL: ' + tests_out[-300:], verdict, detail, notes[0][:200] if notes else ''))
        print(rows[-1], flush=True)
    finally:
        open(P, 'w').write(orig)
        shutil.rmtree(os.path.join(V, 'replays', 'C08'), ignore_errors=True)
json.dump(rows, open(os.path.join(V, 'tools', 'c08_pci_mutation_results.json'), 'w'), indent=1)
