#!/usr/bin/env python3
"""Mutation self-test of ./check C20 (sound part) against a scratch copy of the repo with the two C20 repairs applied
(harness/Cargo.toml must point at it). Each mutation compiles, passes the pinned `cargo test --offline` (57 unit tests)
and needs something specific to manifest: buffer size <> period size, a status other than IO_ERR, a refused
SET_PARAMS followed by a transfer, a stream id other than 0, non-zero feature bits, a direction value above 1,
an event of a particular type, a non-divider period."""
import subprocess, sys, os, re, json, shutil
R = os.environ.get('C20_REPO', '/tmp/wb_c20snd/repo')
V = os.path.dirname(os.path.dirname(os.path.abspath(__file__)))
F = os.path.join(R, 'src/device/sound.rs')

MUTS = [
 ('M1 pcm_xfer cuts the frames by buffer_bytes instead of period_bytes',
  "        let period_size = self.pcm_parameters[stream_id as usize].period_bytes as usize;\n\n        let mut remaining_buffers",
  "        let period_size = self.pcm_parameters[stream_id as usize].buffer_bytes as usize;\n\n        let mut remaining_buffers"),
 ('M2 pcm_xfer treats only IO_ERR as a failed transfer',
  "                if statuses[tail].status != CommandCode::SOk.into() {",
  "                if statuses[tail].status == u32::from(CommandCode::SIoErr) {"),
 ('M3 pcm_set_params records the parameters even when the device refuses them',
  """        if rsp == VirtIOSndHdr::from(RequestStatusCode::Ok) {
            self.pcm_parameters[stream_id as usize] = PcmParameters {""",
  """        if rsp == VirtIOSndHdr::from(RequestStatusCode::Ok) || (stream_id as usize) < self.pcm_parameters.len() {
            self.pcm_parameters[stream_id as usize] = PcmParameters {"""),
 ('M4 pcm_xfer_nb writes the stream id big-endian',
  "        buf[..U32_SIZE].copy_from_slice(&stream_id.to_le_bytes());",
  "        buf[..U32_SIZE].copy_from_slice(&stream_id.to_be_bytes());"),
 ('M5 pcm_xfer tags every message with stream 0',
  "        let stream_id_bytes = stream_id.to_le_bytes();\n        let period_size",
  "        let stream_id_bytes = (stream_id & 0).to_le_bytes();\n        let period_size"),
 ('M6 pcm_set_params accepts a period that does not divide the buffer size',
  "            || !buffer_bytes.is_multiple_of(period_bytes)\n",
  "            || (!buffer_bytes.is_multiple_of(period_bytes) && buffer_bytes < 2 * period_bytes)\n"),
 ('M7 input_streams counts every direction other than OUTPUT',
  "            .filter(|(_, info)| info.direction == VIRTIO_SND_D_INPUT)",
  "            .filter(|(_, info)| info.direction != VIRTIO_SND_D_OUTPUT)"),
 ('M8 pcm_stop accepts every response but IO_ERR',
  """        let request_hdr = VirtIOSndHdr::from(CommandCode::RPcmStop);
        let rsp = self.request(VirtIOSndPcmHdr {
            hdr: request_hdr,
            stream_id,
        })?;
        // rsp is just a header, so it can be compared with VirtIOSndHdr
        if rsp == VirtIOSndHdr::from(RequestStatusCode::Ok) {""",
  """        let request_hdr = VirtIOSndHdr::from(CommandCode::RPcmStop);
        let rsp = self.request(VirtIOSndPcmHdr {
            hdr: request_hdr,
            stream_id,
        })?;
        // rsp is just a header, so it can be compared with VirtIOSndHdr
        if rsp != VirtIOSndHdr::from(RequestStatusCode::IoErr) {"""),
 ('M9 jack_remap sends association and sequence swapped',
  "            association,\n            sequence,\n        })?;",
  "            association: sequence,\n            sequence: association,\n        })?;"),
 ('M10 latest_notification: PCM period-elapsed and xrun events swapped',
  "            0x1100 => Some(Self::PcmPeriodElapsed),\n            0x1101 => Some(Self::PcmXrun),",
  "            0x1101 => Some(Self::PcmPeriodElapsed),\n            0x1100 => Some(Self::PcmXrun),"),
 ('M11 pcm_set_params drops the feature bits from the request',
  "            features: features.bits(),\n            channels,",
  "            features: features.bits() & 0,\n            channels,"),
 ('M12 pcm_xfer_ok reports success for the status NOT_SUPP',
  "        if rsp.status != CommandCode::SOk.into() {\n            return Err(Error::IoError);",
  "        if rsp.status != CommandCode::SOk.into() && rsp.status != u32::from(CommandCode::SNotSupp) {\n            return Err(Error::IoError);"),
 ('M13 pcm_xfer_nb takes the period of stream 0 for every stream',
  "        let period_size: usize = self.pcm_parameters[stream_id as usize].period_bytes as usize;\n        assert_eq!(period_size, frames.len());",
  "        let period_size: usize = self.pcm_parameters[0].period_bytes as usize;\n        assert_eq!(period_size, frames.len());"),
 ('M14 rates_supported answers from the stream before the last one for the last stream id',
  """        Ok(PcmRates::from_bits_retain(
            self.pcm_infos.as_ref().unwrap()[stream_id as usize].rates,
        ))""",
  """        let n = self.pcm_infos.as_ref().unwrap().len();
        let k = if n > 2 && stream_id as usize == n - 1 { n - 2 } else { stream_id as usize };
        Ok(PcmRates::from_bits_retain(
            self.pcm_infos.as_ref().unwrap()[k].rates,
        ))"""),
 ('M15 pcm_xfer adds a message when only 2 descriptors are free',
  "            if self.tx_queue.available_desc() >= 3 {",
  "            if self.tx_queue.available_desc() >= 2 {"),
 ('M16 pcm_xfer wraps head one slot early',
  "                    if head >= usize::from(QUEUE_SIZE) {",
  "                    if head >= usize::from(QUEUE_SIZE) - 1 {"),
 ('M17 pcm_xfer_nb copies the frames shifted by one byte for periods above 64',
  "        buf[U32_SIZE..U32_SIZE + period_size].copy_from_slice(frames);",
  "        buf[U32_SIZE..U32_SIZE + period_size].copy_from_slice(frames);\n        if period_size > 64 { buf.copy_within(U32_SIZE + 1..U32_SIZE + period_size, U32_SIZE); }"),
]

def sh(cmd, cwd, timeout=2400, env=None):
    p = subprocess.run(cmd, shell=True, cwd=cwd, stdout=subprocess.PIPE, stderr=subprocess.STDOUT, text=True, timeout=timeout, env=env)
    return p.returncode, p.stdout

orig = open(F).read()
rows = []
only = sys.argv[1:]
try:
    for name, a, b in MUTS:
        if only and name.split()[0] not in only: continue
        assert a in orig, name
        open(F, 'w').write(orig.replace(a, b, 1))
        rc, out = sh('CARGO_TARGET_DIR=%s/target cargo test --offline 2>&1 | grep -E "^test result|error(\\[|:)" | head -5' % R, R)
        tests_ok = 'test result: ok. 57 passed' in out
        shutil.rmtree(os.path.join(V, 'replays', 'C20'), ignore_errors=True)
        rc, out = sh('./check C20', V, env=dict(os.environ, VERIF_SKIP_PROOFS='1'))
        lines = [l for l in out.splitlines() if l.startswith(('VIOLATION', 'OK', 'NOTE', 'BROKEN', 'KNOWN'))]
        verdict = 'missed'; detail = ''
        vio = [l for l in lines if l.startswith('VIOLATION')]
        if any(l.startswith('BROKEN') for l in lines): verdict = 'BROKEN'
        if vio:
            if any('no-failing-input-found' in l for l in vio): verdict = 'no-failing-input-found'
            else:
                verdict = 'monitor VIOLATION with replay'
                kinds = set(); first = ''
                for l in vio:
                    m2 = re.search(r'replay=(\S+)', l)
                    meta = open(os.path.join(V, m2.group(1))).readline()
                    k = re.search(r'"kind": "(\d+)"', meta); sc = re.search(r'"scenario": "([^"]+)"', meta)
                    if k: kinds.add(k.group(1))
                    if not first: first = '%s (%s)' % (m2.group(1), sc.group(1) if sc else '')
                detail = 'monitor kinds %s; first: %s' % (sorted(kinds), first)
        notes = [l for l in lines if l.startswith('NOTE')]
        rows.append((name, 'pass' if tests_ok else 'FAIL: ' + out[-200:], verdict, detail, notes[0][:200] if notes else ''))
        print(rows[-1], flush=True)
finally:
    open(F, 'w').write(orig)
    shutil.rmtree(os.path.join(V, 'replays', 'C20'), ignore_errors=True)
json.dump(rows, open(os.path.join(os.path.dirname(R), 'c20_snd_mutation_results%s.json' % ('_'.join(only))), 'w'), indent=1)
