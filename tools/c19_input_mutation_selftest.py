#!/usr/bin/env python3
"""Mutation self-test of the VirtIOInput part of ./check C19 and ./check C07 (Model/Input.v, lines 1960..1962, monitors 1970 /
1971 next to the older 1951 / 160) against a scratch copy of the repo (INPUT_REPO, default /tmp/wb_inp/repo; the harness of this
tree must point at it: harness/Cargo.toml). Each mutation changes src/device/input.rs, compiles and passes the pinned
`cargo test --offline` (57 unit tests). For speed the script does what ./check does after the proofs: build the harness in both
profiles, run the quick scenarios of C19 and C07, replay the traces through the extracted model; a false monitor is what
./check reports as VIOLATION with a replay, a mismatch alone is what it reports as no-failing-input-found. H* are harmless
rewrites that must not make a monitor false.
usage: tools/c19_input_mutation_selftest.py [M1 M2 ...]"""
import subprocess, sys, os, re, json
R = os.environ.get('INPUT_REPO', '/tmp/wb_inp/repo')
V = os.path.dirname(os.path.dirname(os.path.abspath(__file__)))
F = 'src/device/input.rs'

MUTS = [
 ('M1 pop_pending_event reads the event out of the buffer AFTER posting it again',
  "                return Some(event_saved);", "                return Some(self.event_buf[token as usize]);"),
 ('M2 pop_pending_event notifies the status queue instead of the event queue',
  "                if self.event_queue.should_notify() {\n                    self.transport.notify(QUEUE_EVENT);\n                }\n                return",
  "                if self.event_queue.should_notify() {\n                    self.transport.notify(QUEUE_STATUS);\n                }\n                return"),
 ('M3 new posts only 31 of the 32 event buffers',
  "        for (i, event) in event_buf.as_mut().iter_mut().enumerate() {",
  "        for (i, event) in event_buf.as_mut().iter_mut().take(QUEUE_SIZE - 1).enumerate() {"),
 ('M4 pop_pending_event re-posts the NEXT buffer of the array under the token just freed',
  "            if let Ok(new_token) = unsafe { self.event_queue.add(&[], &mut [event.as_mut_bytes()]) }",
  "            let other = &mut self.event_buf[(token as usize + 1) % QUEUE_SIZE];\n            if let Ok(new_token) = unsafe { self.event_queue.add(&[], &mut [other.as_mut_bytes()]) }"),
 ('M5 pop_pending_event returns None before the re-post when the device recorded fewer than 8 bytes',
  "            unsafe {\n                self.event_queue\n                    .pop_used(token, &[], &mut [event.as_mut_bytes()])\n                    .ok()?;\n            }",
  "            let len = unsafe {\n                self.event_queue\n                    .pop_used(token, &[], &mut [event.as_mut_bytes()])\n                    .ok()?\n            };\n            if (len as usize) < size_of::<InputEvent>() {\n                return None;\n            }"),
 ('M6 new notifies the event queue before finish_init',
  "        transport.finish_init();\n\n        // The device must not be notified of available buffers before DRIVER_OK is set.\n        if event_queue.should_notify() {\n            transport.notify(QUEUE_EVENT);\n        }\n",
  "        if event_queue.should_notify() {\n            transport.notify(QUEUE_EVENT);\n        }\n        transport.finish_init();\n"),
 ('M7 pop_pending_event never notifies after the re-post',
  "                if self.event_queue.should_notify() {\n                    self.transport.notify(QUEUE_EVENT);\n                }\n                return",
  "                return"),
 ('E1 pop_pending_event: a device id outside event_buf is wrapped into the array for the buffer (observably equivalent: pop_used is still called with the unwrapped id and panics on its own bounds-checked desc_shadow[id] before any effect; expected: not flagged)',
  "            let event = &mut self.event_buf[token as usize];",
  "            let event = &mut self.event_buf[token as usize % QUEUE_SIZE];"),
 ('M9 new: the posting loop ignores a refused add (no `?`, no assert)',
  "            let token = unsafe { event_queue.add(&[], &mut [event.as_mut_bytes()])? };\n            assert_eq!(token, i as u16);",
  "            if i % 2 == 0 {\n                let token = unsafe { event_queue.add(&[], &mut [event.as_mut_bytes()])? };\n                let _ = token;\n            }"),
 ('H1 pop_pending_event: `if let Ok` written as a match, should_notify hoisted into a local (same behaviour)',
  "                assert_eq!(new_token, token);\n                if self.event_queue.should_notify() {\n                    self.transport.notify(QUEUE_EVENT);\n                }\n                return Some(event_saved);",
  "                assert_eq!(new_token, token);\n                let tell = self.event_queue.should_notify();\n                if tell {\n                    self.transport.notify(QUEUE_EVENT);\n                }\n                return Some(event_saved);"),
 ('H2 new notifies the event queue unconditionally after finish_init (a superfluous notification is allowed)',
  "        if event_queue.should_notify() {\n            transport.notify(QUEUE_EVENT);\n        }\n\n        Ok(VirtIOInput {",
  "        let _ = event_queue.should_notify();\n        transport.notify(QUEUE_EVENT);\n\n        Ok(VirtIOInput {"),
]

def sh(cmd, cwd, timeout=2400):
    p = subprocess.run(cmd, shell=True, cwd=cwd, stdout=subprocess.PIPE, stderr=subprocess.STDOUT, text=True, timeout=timeout)
    return p.returncode, p.stdout

def run_traces():
    """returns (monitor kinds that failed, kinds that mismatched, first failing scenario, harness trouble)"""
    mon, mis, scen, trouble = set(), set(), None, []
    env = 'CARGO_TARGET_DIR=%s/build/target RUSTFLAGS="--cfg virtio_drivers_verif" CARGO_NET_OFFLINE=true' % V
    for prof, flag in (('debug', ''), ('release', '--release')):
        rc, out = sh('%s timeout 1500 cargo build --offline %s 2>&1 | grep -E "^error" | head -3' % (env, flag), os.path.join(V, 'harness'))
        if out.strip(): trouble.append('harness (%s) does not build: %s' % (prof, out.strip()[:200])); continue
        for pid in ('C19', 'C07'):
            tr = '/tmp/wb_inp/mut.%s.%s.trace' % (pid, prof)
            rc, out = sh('ulimit -v 8000000; timeout 600 %s/build/target/%s/vharness %s quick 1 %s' % (V, prof, pid, tr), V)
            if rc != 0: trouble.append('harness %s %s exit %s' % (pid, prof, rc))
            rc, out = sh('timeout 600 %s/build/runner/runner %s 50' % (V, tr), V)
            for l in out.splitlines():
                m = re.match(r'(MONITOR_FAIL|MISMATCH) line=(\d+) kind=(\d+) scenario=(\S+)', l)
                if m:
                    (mon if m.group(1) == 'MONITOR_FAIL' else mis).add('%s:%s' % (pid, m.group(3)))
                    if m.group(1) == 'MONITOR_FAIL' and scen is None: scen = '%s %s %s' % (pid, prof, m.group(4))
    return sorted(mon), sorted(mis), scen, trouble

rows = []
only = sys.argv[1:]
path = os.path.join(R, F)
orig = open(path).read()
try:
    for name, a, b in MUTS:
        if only and name.split()[0] not in only: continue
        assert a in orig, name
        open(path, 'w').write(orig.replace(a, b, 1))
        rc, tout = sh('CARGO_TARGET_DIR=%s/target timeout 900 cargo test --offline 2>&1 | grep -E "^test result|^error|FAILED" | head -8' % R, R)
        tests_ok = 'test result: ok. 57 passed' in tout
        if not tests_ok and 'read_exact' in tout:
            rc, tout = sh('CARGO_TARGET_DIR=%s/target timeout 900 cargo test --offline 2>&1 | grep -E "^test result|^error|FAILED" | head -8' % R, R)
            tests_ok = 'test result: ok. 57 passed' in tout
        mon, mis, scen, trouble = run_traces()
        verdict = ('monitor false (VIOLATION with replay)' if mon else 'correspondence broken only (no-failing-input-found)' if mis or trouble else 'not flagged')
        row = dict(mutation=name, unit_tests_pass=tests_ok, verdict=verdict, monitors=mon, mismatches=mis, first=scen, trouble=trouble)
        rows.append(row)
        print(json.dumps(row), flush=True)
finally:
    open(path, 'w').write(orig)
json.dump(rows, open(os.path.join(V, 'tools', 'c19_input_mutation_results.json'), 'w'), indent=1)
