#!/usr/bin/env python3
"""Regenerates MANIFEST.json from tools/props.py (claimed) and the not-applicable table."""
import json, os, sys
V = os.path.dirname(os.path.dirname(os.path.abspath(__file__)))
sys.path.insert(0, os.path.join(V, 'tools'))
import props
ALL = ['C%02d' % i for i in range(1, 21)]
checks = []
for pid in ALL:
    if pid not in props.PROPS: continue
    info = props.PROPS[pid]
    checks.append(dict(
        property_id=pid,
        quick_cmd='./check %s --tier quick' % pid,
        thorough_cmd='./check %s --tier thorough' % pid,
        evidence_file='evidence/%s.json' % pid,
        replay_cmd_template='./check %s --replay {path}' % pid,
        engine='coq-model+correspondence',
        level_claimed=dict(category='proof', text=info.get('level_text', 'Coq theorems over an executable Gallina model for all inputs/histories the property quantifies over; the model is tied to /repo on every run by a differential correspondence check (real code vs extracted model on the same operations and environment answers).'), design_ref=info.get('design_ref', 'DESIGN.md section 3, ' + pid)),
        level_note=info.get('level_note', 'Trusted: Coq kernel, extraction (ExtrOcamlBasic only; a sample of every trace is re-evaluated inside Coq), hand-written model, constants / declarations translator (line parser) with its hand-written pairing, Rust harness and its generators, rustc. No axioms. Assumptions: ' + '; '.join(info.get('assumptions', []))),
        technique=info.get('technique', 'machine-checked proof in Coq over a hand-written model, tied to the source on every run by a differential correspondence check against the implementation (real code vs extracted model, sampled again inside Coq by vm_compute) and, for numeric constants, by a translator that regenerates them from the source and lets the kernel compare them with the model'),
    ))
na = [dict(property_id=p, reason=props.NOT_YET.get(p, 'check not built yet in this round (no technique switch; see DESIGN.md section 6 for the order of work)')) for p in ALL if p not in props.PROPS]
m = dict(version=1, setup_cmd='./tools/setup.sh',
         hooks=dict(guard='virtio_drivers_verif', enable='RUSTFLAGS="--cfg virtio_drivers_verif" (set by ./check and tools/setup.sh when building /verif/harness, which depends on /repo by path)',
                    baseline_off_cmd='cd /repo && cargo test --workspace --no-fail-fast --offline',
                    source_commits=props.HOOK_COMMITS, add_only=True),
         engines=[dict(name='coq-model+correspondence', path='check', serves_properties=[c['property_id'] for c in checks],
                       kind_free_text='Coq 8.16 theorems (coq/theories) + Rust harness (harness/) vs OCaml-extracted model (runner/)')],
         checks=checks, not_applicable=na,
         notes='See DESIGN.md. KNOWN_FINDINGS.jsonl lists repaired defects (fixed:) and any recorded finding.')
json.dump(m, open(os.path.join(V, 'MANIFEST.json'), 'w'), indent=1)
print('claimed', len(checks), 'not yet', len(na))
