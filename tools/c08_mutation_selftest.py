#!/usr/bin/env python3
"""Mutation self-test of ./check C08 against a scratch copy of the repo (harness/Cargo.toml must point at it).
Each mutation compiles, passes the pinned `cargo test --offline` (57 unit tests) and needs something specific to
manifest (a particular order of two calls, a device that does not suppress notifications, a feature combination,
an offered word lacking a supported bit, VERSION_1 offered, the third of three queues)."""
import subprocess, sys, os, re, json, shutil
R = os.environ.get('C08_REPO', '/tmp/wb_c08/repo')
V = os.path.dirname(os.path.dirname(os.path.abspath(__file__)))

MUTS = [
 ('M1 sound: the event queue is notified before finish_init', 'src/device/sound.rs',
  """        transport.finish_init();

        if event_queue.should_notify() {
            transport.notify(EVENT_QUEUE_IDX);
        }
""",
  """        if event_queue.should_notify() {
            transport.notify(EVENT_QUEUE_IDX);
        }

        transport.finish_init();
"""),
 ('M2 begin_init: FEATURES_OK is set before the accepted features are written', 'src/transport/mod.rs',
  """        self.write_driver_features(negotiated_features.bits());

        self.set_status(
            DeviceStatus::ACKNOWLEDGE | DeviceStatus::DRIVER | DeviceStatus::FEATURES_OK,
        );
""",
  """        self.set_status(
            DeviceStatus::ACKNOWLEDGE | DeviceStatus::DRIVER | DeviceStatus::FEATURES_OK,
        );

        self.write_driver_features(negotiated_features.bits());
"""),
 ('M3 blk: the indirect flag of the queue is taken from RING_EVENT_IDX', 'src/device/blk.rs',
  """            QUEUE,
            negotiated_features.contains(BlkFeature::RING_INDIRECT_DESC),""",
  """            QUEUE,
            negotiated_features.contains(BlkFeature::RING_EVENT_IDX),"""),
 ('M4 net: legacy 10-byte header unless MRG_RXBUF (never negotiated) - also with VERSION_1', 'src/device/net/dev_raw.rs',
  """            legacy_header: !negotiated_features.contains(Features::VERSION_1)
                && !negotiated_features.contains(Features::MRG_RXBUF),""",
  """            legacy_header: !negotiated_features.contains(Features::VERSION_1)
                || !negotiated_features.contains(Features::MRG_RXBUF),"""),
 ('M5 socket: DRIVER_OK is set before the event queue (third queue) is registered', 'src/device/socket/vsock.rs',
  """        let event = VirtQueue::new(
            &mut transport,
            EVENT_QUEUE_IDX,
            negotiated_features.contains(Feature::RING_INDIRECT_DESC),
            negotiated_features.contains(Feature::RING_EVENT_IDX),
            negotiated_features.contains(Feature::ACCESS_PLATFORM),
        )?;

        let rx = OwningQueue::new(rx)?;

        transport.finish_init();
""",
  """        transport.finish_init();
        let event = VirtQueue::new(
            &mut transport,
            EVENT_QUEUE_IDX,
            negotiated_features.contains(Feature::RING_INDIRECT_DESC),
            negotiated_features.contains(Feature::RING_EVENT_IDX),
            negotiated_features.contains(Feature::ACCESS_PLATFORM),
        )?;

        let rx = OwningQueue::new(rx)?;

"""),
 ('M6 begin_init: ACCESS_PLATFORM is accepted whenever supported, offered or not', 'src/transport/mod.rs',
  "        self.write_driver_features(negotiated_features.bits());",
  "        self.write_driver_features(negotiated_features.bits() | (1 << 33));"),
 ('M7 console: emergency_write gated on SIZE instead of EMERG_WRITE', 'src/device/console.rs',
  "        if self.negotiated_features.contains(Features::EMERG_WRITE) {",
  "        if self.negotiated_features.contains(Features::SIZE) {"),
 ('M8 rng: access_platform of the queue hard-wired to false', 'src/device/rng.rs',
  """            feat.contains(Feature::RING_EVENT_IDX),
            feat.contains(Feature::ACCESS_PLATFORM),
        )?;""",
  """            feat.contains(Feature::RING_EVENT_IDX),
            false,
        )?;"""),
 ('M9 begin_init: no reset, starts with ACKNOWLEDGE|DRIVER', 'src/transport/mod.rs',
  """        self.set_status(DeviceStatus::empty());
        self.set_status(DeviceStatus::ACKNOWLEDGE | DeviceStatus::DRIVER);
""",
  """        self.set_status(DeviceStatus::ACKNOWLEDGE | DeviceStatus::DRIVER);
"""),
 ('M10 gpu: VERSION_1 missing from SUPPORTED_FEATURES', 'src/device/gpu/mod.rs',
  """    .union(Features::RING_INDIRECT_DESC)
    .union(Features::VERSION_1)
    .union(Features::ACCESS_PLATFORM)
    .union(Features::EDID);""",
  """    .union(Features::RING_INDIRECT_DESC)
    .union(Features::ACCESS_PLATFORM)
    .union(Features::EDID);"""),
 ('M11 console: the receive buffer is posted and notified before finish_init when EVENT_IDX is on', 'src/device/console.rs',
  """        transport.finish_init();
        let mut console = VirtIOConsole {""",
  """        if negotiated_features.contains(Features::RING_EVENT_IDX) && negotiated_features.contains(Features::SIZE) {
            transport.notify(QUEUE_RECEIVEQ_PORT_0);
        }
        transport.finish_init();
        let mut console = VirtIOConsole {"""),
 ('M12 blk: flush also sent when only RO was negotiated', 'src/device/blk.rs',
  "        if self.negotiated_features.contains(BlkFeature::FLUSH) {",
  "        if self.negotiated_features.intersects(BlkFeature::FLUSH.union(BlkFeature::RO)) {"),
 ('M13 finish_init drops FEATURES_OK from the final status', 'src/transport/mod.rs',
  """            DeviceStatus::ACKNOWLEDGE
                | DeviceStatus::DRIVER
                | DeviceStatus::FEATURES_OK
                | DeviceStatus::DRIVER_OK,""",
  """            DeviceStatus::ACKNOWLEDGE | DeviceStatus::DRIVER | DeviceStatus::DRIVER_OK,"""),
]

def sh(cmd, cwd, timeout=600):
    p = subprocess.run(cmd, shell=True, cwd=cwd, stdout=subprocess.PIPE, stderr=subprocess.STDOUT, text=True, timeout=timeout)
    return p.returncode, p.stdout

rows = []
only = sys.argv[1:]
for name, rel, a, b in MUTS:
    if only and name.split()[0] not in only: continue
    F = os.path.join(R, rel)
    orig = open(F).read()
    try:
        assert a in orig, name
        open(F, 'w').write(orig.replace(a, b, 1))
        rc, out = sh('CARGO_TARGET_DIR=%s/target cargo test --offline 2>&1 | grep -E "^test result|error(\\[|:)" | head -5' % R, R)
        tests_ok = 'test result: ok. 57 passed' in out
        tests_out = out
        shutil.rmtree(os.path.join(V, 'replays', 'C08'), ignore_errors=True)
        rc, out = sh('./check C08', V)
        lines = [l for l in out.splitlines() if l.startswith(('VIOLATION', 'OK', 'NOTE', 'BROKEN', 'KNOWN'))]
        verdict = 'missed'; detail = ''
        vio = [l for l in lines if l.startswith('VIOLATION')]
        if any(l.startswith('BROKEN') for l in lines): verdict = 'BROKEN'
        if vio:
            if any('no-failing-input-found' in l for l in vio): verdict = 'no-failing-input-found'
            else:
                verdict = 'monitor VIOLATION with replay'
                kinds = set(); first = ''
                for l in vio:
                    m2 = re.search(r'replay=(\S+)', l)
                    meta = open(os.path.join(V, m2.group(1))).readline()
                    k = re.search(r'"kind": "(\d+)"', meta); sc = re.search(r'"scenario": "([^"]+)"', meta)
                    if k: kinds.add(k.group(1))
                    if not first: first = '%s (%s)' % (m2.group(1), sc.group(1) if sc else '')
                detail = 'monitor kinds %s; first: %s' % (sorted(kinds), first)
        notes = [l for l in lines if l.startswith('NOTE')]
        rows.append((name, 'pass' if tests_ok else 'FAIL: ' + tests_out[-300:], verdict, detail, notes[0][:160] if notes else ''))
        print(rows[-1], flush=True)
    finally:
        open(F, 'w').write(orig)
        shutil.rmtree(os.path.join(V, 'replays', 'C08'), ignore_errors=True)
json.dump(rows, open(os.path.join(os.path.dirname(R), 'c08_mutation_results%s.json' % ('_'.join(only))), 'w'), indent=1)
