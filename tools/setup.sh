#!/bin/sh
# Build the whole framework from files on disk, offline: full .vo build (no -vos), coqchk over the
# property files, extraction + runner, harness in both cargo profiles (from /repo's working tree).
set -e
V=$(cd "$(dirname "$0")/.." && pwd)
mkdir -p $V/build
cd $V/coq
coq_makefile -f _CoqProject -o Makefile
timeout 3000 make -j16
# independent re-check of the property files and everything they depend on
timeout 3000 coqchk -o -silent -Q theories VD $(ls theories/Properties/*.v | sed 's#theories/#VD.#; s#/#.#g; s#\.v$##') > $V/build/coqchk.log 2>&1 || { tail -20 $V/build/coqchk.log; exit 1; }
grep -A1 "Axioms" $V/build/coqchk.log | head -4
$V/tools/build_runner.sh
cd $V/harness
export CARGO_NET_OFFLINE=true RUSTFLAGS="--cfg virtio_drivers_verif" CARGO_TARGET_DIR=$V/build/target
timeout 3000 cargo build --offline
timeout 3000 cargo build --offline --release
# second build configuration of the crate: without the cargo features alloc / embedded-io (harness variant of ./check, see NOALLOC_PROPS
# there); `na-hooks` when the checkout carries the alloc-less private-state hooks (corpus/proposals/noalloc_hook.diff)
NAF=""; grep -q "fn verif_shadow_desc" /repo/src/queue.rs && NAF="--features na-hooks"
CARGO_TARGET_DIR=$V/build/target_noalloc timeout 3000 cargo build --offline --no-default-features $NAF
CARGO_TARGET_DIR=$V/build/target_noalloc timeout 3000 cargo build --offline --no-default-features $NAF --release
echo setup-ok
