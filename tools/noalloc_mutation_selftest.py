#!/usr/bin/env python3
"""Mutation self-test of the alloc-less part of ./check (harness variant built with --no-default-features, trace replayed through
Model/QueueNoAlloc.v, monitors 150-169 incl. 151 / 169) against a scratch checkout of the repo (NOALLOC_REPO, default
/tmp/bld/noalloc/repo). Every mutation touches ONLY code under `#[cfg(not(feature = "alloc"))]` (or adds such code), so the default
build of the crate is byte-for-byte the same program: the pinned `cargo test --offline` (default features, 57 tests) passes and
every check that builds the harness with default features only is blind to it (column `default_only`, obtained with
VERIF_NO_NOALLOC=1). For each mutation the script runs the REAL `./check <property>` with VERIF_REPO pointing at the scratch checkout
(VERIF_SKIP_PROOFS=1: the Coq side does not depend on the repo) and records the verdict lines and the failing kinds of the replay.
H* are harmless rewrites of the same code that must NOT be reported.
usage: tools/noalloc_mutation_selftest.py [M1 M2 ...]"""
import subprocess, sys, os, re, json
R = os.environ.get('NOALLOC_REPO', '/tmp/bld/noalloc/repo')
V = os.path.dirname(os.path.dirname(os.path.abspath(__file__)))
F = 'src/queue.rs'

CAP = "        #[cfg(not(feature = \"alloc\"))]\n        if self.num_used as usize + descriptors_needed > SIZE {\n            return Err(Error::QueueFull);\n        }\n"
ADDD = "        #[cfg(not(feature = \"alloc\"))]\n        let head = self.add_direct(inputs, outputs);\n"
AVAIL = "        SIZE - usize::from(self.num_used)\n    }\n"
# (name, property to check, [(old, new), ...])
MUTS = [
 ('M1 capacity test `>=` instead of `>`: an exactly-full queue can no longer be reached', 'C03',
  [(CAP, CAP.replace('descriptors_needed > SIZE {', 'descriptors_needed >= SIZE {'))]),
 ('M2 capacity test `> SIZE + 1`: one descriptor more than there are is accepted', 'C03',
  [(CAP, CAP.replace('descriptors_needed > SIZE {', 'descriptors_needed > SIZE + 1 {'))]),
 ('M3 capacity test forgets the descriptors in use (`descriptors_needed > SIZE`)', 'C03',
  [(CAP, CAP.replace('self.num_used as usize + descriptors_needed > SIZE {', 'descriptors_needed > SIZE {'))]),
 ('M4 capacity test counts the readable buffers only (`num_used + inputs.len() > SIZE`)', 'C03',
  [(CAP, CAP.replace('self.num_used as usize + descriptors_needed > SIZE {', 'self.num_used as usize + inputs.len() > SIZE {'))]),
 ('M5 capacity test in 16-bit arithmetic (`num_used.wrapping_add(needed as u16)`): 65536+k buffers are accepted', 'C03',
  [(CAP, CAP.replace('self.num_used as usize + descriptors_needed > SIZE {', 'self.num_used.wrapping_add(descriptors_needed as u16) as usize > SIZE {'))]),
 ('M6 add_direct called without the writable buffers under that cfg', 'C01',
  [(ADDD, "        #[cfg(not(feature = \"alloc\"))]\n        let head = if inputs.is_empty() { self.add_direct(inputs, outputs) } else { self.add_direct(inputs, &mut []) };\n")]),
 ('M7 new() honours `indirect` in the alloc-less build: a field under cfg(not(alloc)) and the indirect form of available_desc()', 'C03',
  [("    #[cfg(feature = \"alloc\")]\n    indirect: bool,\n", "    #[cfg(feature = \"alloc\")]\n    indirect: bool,\n    #[cfg(not(feature = \"alloc\"))]\n    indirect: bool,\n"),
   ("            #[cfg(feature = \"alloc\")]\n            indirect,\n", "            #[cfg(feature = \"alloc\")]\n            indirect,\n            #[cfg(not(feature = \"alloc\"))]\n            indirect,\n"),
   (AVAIL, "        #[cfg(not(feature = \"alloc\"))]\n        if self.indirect {\n            return if usize::from(self.num_used) == SIZE { 0 } else { SIZE };\n        }\n" + AVAIL)]),
 ('M8 new() refuses a request for indirect descriptors in the alloc-less build (Unsupported)', 'C01',
  [("        if transport.queue_used(idx) {\n            return Err(Error::AlreadyUsed);\n        }\n",
    "        #[cfg(not(feature = \"alloc\"))]\n        if indirect {\n            return Err(Error::Unsupported);\n        }\n        if transport.queue_used(idx) {\n            return Err(Error::AlreadyUsed);\n        }\n")]),
 ('M9 available_desc() one too few in the alloc-less build', 'C03',
  [(AVAIL, "        #[cfg(not(feature = \"alloc\"))]\n        if self.num_used > 0 && usize::from(self.num_used) < SIZE {\n            return SIZE - usize::from(self.num_used) - 1;\n        }\n" + AVAIL)]),
 ('M10 the alloc-less add publishes with a requested-indirect flavour: head descriptor flagged INDIRECT when more than one buffer', 'C01',
  [(ADDD, ADDD + "        #[cfg(not(feature = \"alloc\"))]\n        if descriptors_needed > 1 {\n            self.desc_shadow[usize::from(head)].flags.insert(DescFlags::INDIRECT);\n            self.write_desc(head);\n        }\n")]),
 ('M11 block driver level: the capacity test that forgets the descriptors in use (M3), seen through ./check C14 (VirtIOBlk over the alloc-less queue: a sixth request is accepted)', 'C14',
  [(CAP, CAP.replace('self.num_used as usize + descriptors_needed > SIZE {', 'descriptors_needed > SIZE {'))]),
 ('M12 raw network driver level: M3 seen through ./check C16 (VirtIONetRaw over the alloc-less queues)', 'C16',
  [(CAP, CAP.replace('self.num_used as usize + descriptors_needed > SIZE {', 'descriptors_needed > SIZE {'))]),
 ('E1 equivalent at block level: the `>=` capacity test (M1) under ./check C14: every request takes 3 of 16 descriptors, 16 is never reached exactly (expected: not flagged by C14; C03 flags it, M1)', 'C14',
  [(CAP, CAP.replace('descriptors_needed > SIZE {', 'descriptors_needed >= SIZE {'))]),
 ('H1 harmless: the alloc-less capacity test written as `SIZE < num_used + needed`', 'C03',
  [(CAP, CAP.replace('self.num_used as usize + descriptors_needed > SIZE {', 'SIZE < descriptors_needed + usize::from(self.num_used) {'))]),
 ('H2 harmless: the alloc-less branch binds the head through a block', 'C01',
  [(ADDD, "        #[cfg(not(feature = \"alloc\"))]\n        let head = {\n            let h = self.add_direct(inputs, outputs);\n            h\n        };\n")]),
]


def sh(cmd, cwd, timeout=3000, env=None):
    p = subprocess.run(cmd, shell=True, cwd=cwd, stdout=subprocess.PIPE, stderr=subprocess.STDOUT, text=True, timeout=timeout,
                       env=dict(os.environ, **(env or {})))
    return p.returncode, p.stdout


def check(pid, extra=None):
    env = dict(VERIF_REPO=R, VERIF_SKIP_PROOFS='1'); env.update(extra or {})
    rc, out = sh('timeout 2400 ./check %s' % pid, V, env=env)
    lines = [l for l in out.splitlines() if l.startswith(('VIOLATION', 'OK ', 'KNOWN', 'BROKEN'))]
    return rc, lines, out


def replay_info(lines):
    """failing kinds / build / scenario from the replay files named by the VIOLATION lines"""
    info = []
    for l in lines:
        m = re.search(r'replay=(\S+)', l)
        if not m: continue
        p = os.path.join(V, m.group(1))
        try: meta = json.loads(open(p).readline()[9:])
        except Exception: meta = {}
        info.append(dict(replay=m.group(1), kind=meta.get('kind'), build=meta.get('profile'), scenario=meta.get('scenario'), what=meta.get('what'),
                         no_failing_input='no-failing-input-found' in l))
    return info


def main():
    only = sys.argv[1:]
    path = os.path.join(R, F)
    orig = open(path).read()
    rows = []
    rc, out = sh('git diff --stat -- src', R)
    try:
        for name, pid, edits in MUTS:
            if only and name.split()[0] not in only: continue
            txt = orig
            for a, b in edits:
                assert txt.count(a) == 1, (name, a)
                txt = txt.replace(a, b)
            open(path, 'w').write(txt)
            rc, out = sh('CARGO_TARGET_DIR=%s/build/target_selftest timeout 1500 cargo test --offline 2>&1 | grep -E "^test result|^error" | head -5' % V, R)
            m = re.search(r'test result: (\w+)\. (\d+) passed; (\d+) failed', out)
            tests = dict(ok=bool(m and m.group(1) == 'ok' and m.group(3) == '0'), passed=int(m.group(2)) if m else 0, raw=out.strip()[:200])
            rc, lines, full = check(pid)
            rc0, lines0, _ = check(pid, dict(VERIF_NO_NOALLOC='1'))
            inf = replay_info(lines)
            verdict = ('not reported' if rc == 0 else
                       'VIOLATION with replay (monitor false on the implementation)' if any(not i['no_failing_input'] for i in inf) else
                       'VIOLATION no-failing-input-found (model and code disagree, no monitor false)')
            row = dict(mutation=name, property=pid, unit_tests_pass=tests['ok'], unit_tests_passed=tests['passed'], verdict=verdict, exit=rc,
                       lines=lines[:6], replays=inf[:6], default_only_exit=rc0, default_only=(lines0[:2]),
                       notes=[l[:300] for l in full.splitlines() if l.startswith('NOTE:')][:3])
            rows.append(row)
            print('%-4s %-4s tests=%s(%d) exit=%d %s | default-only exit=%d | kinds=%s' % (
                name.split()[0], pid, tests['ok'], tests['passed'], rc, verdict, rc0, sorted(set(str(i['kind']) for i in inf))), flush=True)
    finally:
        open(path, 'w').write(orig)
    outp = os.path.join(V, 'tools', 'noalloc_mutation_results.json')
    # a partial run replaces the rows of the mutations it ran
    old = json.load(open(outp)) if (only and os.path.exists(outp)) else []
    ids = [m[0].split()[0] for m in MUTS]
    merged = {r['mutation'].split()[0]: r for r in old if r['mutation'].split()[0] in ids}
    merged.update({r['mutation'].split()[0]: r for r in rows})
    json.dump([merged[i] for i in ids if i in merged], open(outp, 'w'), indent=1)
    bad = [r for r in rows if (r['mutation'].startswith('M') and (r['exit'] == 0 or not r['unit_tests_pass'])) or (r['mutation'].startswith(('H', 'E')) and r['exit'] != 0)]
    return 1 if bad else 0


if __name__ == '__main__':
    sys.exit(main())
