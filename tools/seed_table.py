#!/usr/bin/env python3
"""Writes seeded/README.md: one row per seeded change (from seeded/<id>/meta.json written by tools/seed_all.py)."""
import json, glob, os
V = os.path.dirname(os.path.dirname(os.path.abspath(__file__)))
rows = []
for f in sorted(glob.glob(os.path.join(V, 'seeded', '*', 'meta.json'))):
    m = json.load(open(f)); d = m['detection']
    def cell(x, n): return (x or '').replace('|', '/').replace('\n', ' ')[:n]
    rows.append('| %s | %s | %s | %s | %s |' % (m['id'], cell(m.get('summary'), 260), cell(m.get('needs_to_manifest'), 200), d['verdict'], ' '.join(d['monitor_kinds'])))
out = ['# Seeded changes and how the checks report them', '',
       'Each directory holds `patch.diff` (the change), `demo.diff` (a demonstration test that passes on the unchanged tree and fails with the change),',
       '`agent_meta.json` (the author\'s description), `confirm.txt` (re-verification by `tools/confirm_seed.sh` in a scratch worktree) and `meta.json`',
       '(what `./check <property>` reported for a scratch checkout with the change applied: `tools/seed_all.py`). None of these is ever applied to `/repo`.', '',
       '| id | change | needs to manifest | verdict of the check | failing monitor kinds |', '|---|---|---|---|---|'] + rows
s = sum(1 for r in rows if 'violation-with-replay' in r); n = len(rows)
out += ['', '%d changes; %d reported with a concrete replay, %d reported as `no-failing-input-found`, %d missed.' % (
    n, s, sum(1 for r in rows if 'no-failing-input-found' in r), sum(1 for r in rows if '| missed |' in r))]
open(os.path.join(V, 'seeded', 'README.md'), 'w').write('\n'.join(out) + '\n')
print(out[-1])
