#!/usr/bin/env python3
"""Mutation self-test of the driver-level part of ./check C07 (harness/src/scen/c07_drv.rs, monitors 165 / 166) against a
scratch copy of the repo (C07_REPO, default /tmp/wb_c07d/repo = the tree plus corpus/findings/C07_sound_stream_count_abort_fix.diff; ./check is pointed at it through VERIF_REPO, proofs skipped:
the Coq side does not depend on the repo). Each mutation makes one driver trust a value the device wrote; it compiles and
passes the pinned `cargo test --offline` (57 unit tests). H* are harmless rewrites that must NOT be flagged.
usage: tools/c07_drv_mutation_selftest.py [M1 M2 ...]"""
import subprocess, sys, os, re, json, shutil
R = os.environ.get('C07_REPO', '/tmp/wb_c07d/repo')
V = os.path.dirname(os.path.dirname(os.path.abspath(__file__)))
NETRAW, NET, RNG, P9 = 'src/device/net/dev_raw.rs', 'src/device/net/dev.rs', 'src/device/rng.rs', 'src/device/virtio_9p.rs'
NETBUF = 'src/device/net/net_buf.rs'
CONSOLE, CONIO, VSOCK, OWNING = 'src/device/console.rs', 'src/device/console/embedded_io.rs', 'src/device/socket/vsock.rs', 'src/queue/owning.rs'
BLK, SOUND = 'src/device/blk.rs', 'src/device/sound.rs'

MUTS = [
 ('M1 net: RxBuffer::packet builds the slice from the device-reported packet length without the bounds check', NETBUF,
  "        &self.buf.as_bytes()[hdr_size..hdr_size + self.packet_len]\n    }\n\n    /// Returns the network packet as a mutable slice.",
  """        // SAFETY: none: trusts the length the device reported
        unsafe {
            core::slice::from_raw_parts(self.buf.as_bytes().as_ptr().add(hdr_size), self.packet_len)
        }
    }

    /// Returns the network packet as a mutable slice."""),
 ('M2 rng: request_entropy zeroes the part of dst the device did not write, trusting the reported length', RNG,
  """        let num = self
            .queue
            .add_notify_wait_pop(&[], &mut [dst], &mut self.transport)?;
        Ok(num as usize)""",
  """        let (ptr, cap) = (dst.as_mut_ptr(), dst.len());
        let num = self
            .queue
            .add_notify_wait_pop(&[], &mut [dst], &mut self.transport)?;
        // SAFETY: none: trusts the length the device reported
        unsafe {
            core::ptr::write_bytes(ptr.add(num as usize), 0, cap.wrapping_sub(num as usize));
        }
        Ok(num as usize)"""),
 ('M3 9p: request looks at the last byte of the response at the device-reported length', P9,
  "        let size = u32::from_le_bytes([resp[0], resp[1], resp[2], resp[3]]);",
  """        // SAFETY: none: trusts the length the device reported
        if used_len > 0 && unsafe { core::ptr::read_volatile(resp.as_ptr().add(used_len as usize - 1)) } == 0xff {
            warn!("virtio-9p response ends in 0xff");
        }
        let size = u32::from_le_bytes([resp[0], resp[1], resp[2], resp[3]]);"""),
 ('M5 console: read copies pending_len - cursor bytes without the slice bound', CONIO,
  """            buf[..read_length]
                .copy_from_slice(&self.queue_buf_rx[self.cursor..self.cursor + read_length]);""",
  """            // SAFETY: none: trusts the length the device reported
            unsafe {
                core::ptr::copy_nonoverlapping(
                    self.queue_buf_rx.as_ptr().add(self.cursor),
                    buf.as_mut_ptr(),
                    read_length,
                );
            }"""),
 ('M6 console: fill_buf builds the slice from the device-reported length', CONIO,
  "        Ok(&self.queue_buf_rx[self.cursor..self.pending_len])",
  """        // SAFETY: none: trusts the length the device reported
        Ok(unsafe {
            core::slice::from_raw_parts(
                self.queue_buf_rx.as_ptr().add(self.cursor),
                self.pending_len - self.cursor,
            )
        })"""),
 ('M7 vsock: body slice built from header.len without looking at the bytes received', VSOCK,
  """    let data = buffer
        .get(size_of::<VirtioVsockHdr>()..data_end)
        .ok_or(SocketError::BufferTooShort)?;""",
  """    let _ = data_end;
    // SAFETY: none: trusts the length in the header the device wrote
    let data = unsafe {
        core::slice::from_raw_parts(buffer.as_ptr().add(size_of::<VirtioVsockHdr>()), body_length)
    };"""),
 ('M8 vsock: short packets accepted, the event still announces header.len bytes', VSOCK,
  """    let data = buffer
        .get(size_of::<VirtioVsockHdr>()..data_end)
        .ok_or(SocketError::BufferTooShort)?;""",
  """    let data = buffer
        .get(size_of::<VirtioVsockHdr>()..data_end)
        .unwrap_or(&buffer[size_of::<VirtioVsockHdr>()..]);"""),
 ('M9 OwningQueue::poll hands the handler a slice of the device-reported length', OWNING,
  """        let result = if len > BUFFER_SIZE {
            Err(Error::IoError)
        } else {
            // SAFETY: The buffer was just popped from the queue so the device is no longer using it,
            // and `pop` has checked that `token` is a valid index.
            let buffer = unsafe { self.buffers[usize::from(token)].as_ref() };
            handler(&buffer[0..len])
        };""",
  """        let result = {
            // SAFETY: none: trusts the length the device reported
            let buffer = unsafe { self.buffers[usize::from(token)].as_ref() };
            handler(unsafe { core::slice::from_raw_parts(buffer.as_ptr(), len) })
        };"""),
 ('M10 blk: complete_read_blocks ignores the refusal of pop_used', BLK,
  """        unsafe {
            self.queue
                .pop_used(token, &[req.as_bytes()], &mut [buf, resp.as_mut_bytes()])?;
        }
        resp.status.into()
    }

    /// Writes the contents""",
  """        unsafe {
            let _ = self
                .queue
                .pop_used(token, &[req.as_bytes()], &mut [buf, resp.as_mut_bytes()]);
        }
        resp.status.into()
    }

    /// Writes the contents"""),
 ('M11 net: VirtIONet::receive indexes rx_buffers with the device id unchecked', NET,
  """            let mut rx_buf = self.rx_buffers[token as usize]
                .take()
                .ok_or(Error::WrongToken)?;""",
  """            // SAFETY: none: trusts the id the device wrote
            let mut rx_buf = unsafe { self.rx_buffers.get_unchecked_mut(token as usize) }
                .take()
                .ok_or(Error::WrongToken)?;"""),
 ('M12 sound: pcm_xfer_ok takes the buffers out of the maps before pop_used (freed on a refused poll)', SOUND,
  """        assert!(self.token_buf.contains_key(&token));
        assert!(self.token_rsp.contains_key(&token));

        // SAFETY: The buffers passed into `pop_used` are the same buffers from a previous call
        // to `add` that returned `token`.
        unsafe {
            self.tx_queue.pop_used(
                token,
                &[&self.token_buf[&token]],
                &mut [self.token_rsp.get_mut(&token).unwrap().as_mut_bytes()],
            )?;
        }

        self.token_buf.remove(&token);
        let rsp = self.token_rsp.remove(&token).unwrap();""",
  """        let buf = self.token_buf.remove(&token).expect("unknown token");
        let mut rsp = self.token_rsp.remove(&token).expect("unknown token");

        // SAFETY: The buffers passed into `pop_used` are the same buffers from a previous call
        // to `add` that returned `token`.
        unsafe {
            self.tx_queue
                .pop_used(token, &[&buf], &mut [rsp.as_mut_bytes()])?;
        }
"""),
 ('M13 sound: stream infos read past the response buffer when the device announces many streams', SOUND,
  """            let pcm_info = VirtIOSndPcmInfo::read_from_bytes(
                &self.queue_buf_recv[start_byte_idx..end_byte_idx],
            )
            .unwrap();""",
  """            // SAFETY: none: trusts the stream count from the configuration space
            let pcm_info = VirtIOSndPcmInfo::read_from_bytes(unsafe {
                core::slice::from_raw_parts(
                    self.queue_buf_recv.as_ptr().add(start_byte_idx),
                    end_byte_idx - start_byte_idx,
                )
            })
            .unwrap();"""),
 ('M14 net: VirtIONet::send forgets the packet on every error (the repair proposed for observation O1 over-applied): harmless', NET,
  "        self.inner.send(tx_buf.packet())\n",
  "        let r = self.inner.send(tx_buf.packet());\n        if r.is_err() {\n            core::mem::forget(tx_buf);\n        }\n        r\n"),
 ('H1 net: checked_sub written as a comparison (same behaviour)', NETRAW,
  "        let packet_len = len.checked_sub(hdr_size).ok_or(Error::IoError)?;",
  "        if len < hdr_size {\n            return Err(Error::IoError);\n        }\n        let packet_len = len - hdr_size;"),
 ('H2 OwningQueue::poll: the length test negated and swapped (same behaviour)', OWNING,
  "        let result = if len > BUFFER_SIZE {\n            Err(Error::IoError)\n        } else {",
  "        let result = if !(len <= BUFFER_SIZE) {\n            Err(Error::IoError)\n        } else {"),
 ('H3 9p: the size comparison written the other way round (same behaviour)', P9,
  "        if size != used_len {",
  "        if !(used_len == size) {"),
]

def sh(cmd, cwd, timeout=2400, env=None):
    p = subprocess.run(cmd, shell=True, cwd=cwd, stdout=subprocess.PIPE, stderr=subprocess.STDOUT, text=True, timeout=timeout, env=env)
    return p.returncode, p.stdout

rows = []
only = sys.argv[1:]
env = dict(os.environ, VERIF_REPO=R, VERIF_SKIP_PROOFS='1')
for name, rel, a, b in MUTS:
    if only and name.split()[0] not in only: continue
    F = os.path.join(R, rel)
    orig = open(F).read()
    try:
        assert a in orig, name
        open(F, 'w').write(orig.replace(a, b, 1))
        rc, tout = sh('CARGO_TARGET_DIR=%s/target timeout 900 cargo test --offline 2>&1 | grep -E "^test result|^error|FAILED|^test .* FAILED" | head -8' % R, R)
        tests_ok = 'test result: ok. 57 passed' in tout
        if not tests_ok and 'read_exact' in tout:
            # device::console::embedded_io::tests::read_exact depends on thread timing (fails now and then on the unchanged tree too): once more
            rc, tout = sh('CARGO_TARGET_DIR=%s/target timeout 900 cargo test --offline 2>&1 | grep -E "^test result|^error|FAILED" | head -8' % R, R)
            tests_ok = 'test result: ok. 57 passed' in tout
        shutil.rmtree(os.path.join(V, 'replays', 'C07'), ignore_errors=True)
        rc, out = sh('timeout 2000 ./check C07', V, env=env)
        lines = [l for l in out.splitlines() if l.startswith(('VIOLATION', 'OK', 'NOTE', 'BROKEN', 'KNOWN'))]
        verdict = 'not flagged'; detail = ''
        vio = [l for l in lines if l.startswith('VIOLATION')]
        if any(l.startswith('BROKEN') for l in lines): verdict = 'BROKEN'
        if vio:
            if any('no-failing-input-found' in l for l in vio): verdict = 'no-failing-input-found'
            else:
                verdict = 'VIOLATION with replay'
                kinds = set(); first = ''; what = ''
                for l in vio:
                    m2 = re.search(r'replay=(\S+)', l)
                    body = open(os.path.join(V, m2.group(1))).read().splitlines()
                    meta = body[0]
                    k = re.search(r'"kind": "(\d+)"', meta); sc = re.search(r'"scenario": "([^"]+)"', meta)
                    if k: kinds.add(k.group(1))
                    if not first:
                        first = '%s (%s)' % (m2.group(1), sc.group(1) if sc else '')
                        last = [x for x in body if x[:1].isdigit()][-1].split()
                        if last[0] == '165': what = 'drv %s op %s class %s detail %s ret %s cap %s viol %s frees %s' % tuple(last[1:9])
                        elif last[0] == '166': what = 'differential drv %s equal %s' % (last[1], last[2])
                detail = 'monitor kinds %s; first: %s; %s' % (sorted(kinds), first, what)
        notes = [l for l in lines if l.startswith('NOTE')]
        okl = [l for l in lines if l.startswith('OK')]
        rows.append((name, 'pass' if tests_ok else 'FAIL: ' + tout[-300:], verdict, detail or (okl[0] if okl else ''), notes[0][:200] if notes else ''))
        print(rows[-1], flush=True)
    finally:
        open(F, 'w').write(orig)
        shutil.rmtree(os.path.join(V, 'replays', 'C07'), ignore_errors=True)
json.dump(rows, open(os.path.join(V, 'tools', 'c07_drv_mutation_results%s.json' % ('_'.join(only))), 'w'), indent=1)
