#!/usr/bin/env python3
"""usage: seedtest.py <patch.diff> <property> [<property> ...]  -- apply a seeded change to /repo, run the checks, undo it."""
import subprocess, sys, os
V = os.path.dirname(os.path.dirname(os.path.abspath(__file__)))
patch = os.path.abspath(sys.argv[1]); props = sys.argv[2:]
assert subprocess.run(['git', '-C', '/repo', 'status', '--porcelain', '--untracked-files=no'], capture_output=True, text=True).stdout.strip() == '', '/repo not clean'
r = subprocess.run(['git', '-C', '/repo', 'apply', patch])
if r.returncode != 0: sys.exit('patch does not apply')
try:
    for p in props:
        out = subprocess.run([os.path.join(V, 'check'), p] + (['--tier', os.environ['SEED_TIER']] if os.environ.get('SEED_TIER') else []), capture_output=True, text=True, cwd=V)
        lines = [l for l in out.stdout.splitlines() if l.startswith(('VIOLATION', 'OK', 'KNOWN', 'BROKEN'))]
        print('%s %s exit=%d :: %s' % (os.path.basename(os.path.dirname(patch)) + '/' + os.path.basename(patch), p, out.returncode, ' | '.join(lines[:3])))
finally:
    subprocess.run(['git', '-C', '/repo', 'checkout', '--', '.'])
    subprocess.run(['git', '-C', '/repo', 'clean', '-fdq', '-e', 'target', '-e', 'Cargo.lock'])
