#!/bin/sh
# Extract the Coq model to OCaml (ExtrOcamlBasic only) and build the correspondence runner.
set -e
V=$(cd "$(dirname "$0")/.." && pwd)
mkdir -p $V/build/runner
cd $V/build/runner
coqc -Q $V/coq/theories VD -o $V/build/runner/Extract.vo $V/coq/theories/Extract/Extract.v
cp $V/runner/driver.ml .
ocamlfind ocamlopt -w -a model.mli model.ml driver.ml -o runner
