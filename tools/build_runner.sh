#!/bin/sh
# Extract the Coq model to OCaml (ExtrOcamlBasic only) and build the correspondence runner.
set -e
mkdir -p /verif/build/runner
cd /verif/build/runner
coqc -Q /verif/coq/theories VD -o /verif/build/runner/Extract.vo /verif/coq/theories/Extract/Extract.v
cp /verif/runner/driver.ml .
ocamlfind ocamlopt -O3 -w -a -package str model.mli model.ml driver.ml -o runner 2>/dev/null \
  || ocamlfind ocamlopt -w -a model.mli model.ml driver.ml -o runner
