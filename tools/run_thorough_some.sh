#!/bin/sh
# usage: run_thorough_some.sh Cxx ...  -- the thorough tier of the named checks, one line each
V=$(cd "$(dirname "$0")/.." && pwd); cd $V
for p in "$@"; do
  out=$(./check $p --tier thorough 2>&1 | grep -E "^(OK|VIOLATION|KNOWN|BROKEN|NOTE)" | head -6 | cut -c1-300 | tr '\n' ' ')
  echo "$p: $out"
done
