#!/usr/bin/env python3
"""In-Coq cross-check of the extracted runner (DESIGN 2.4 "Running the model", secondary path).

usage: coqcross.py <trace> <max_lines> [<out_dir>]

Takes whole scenarios of a harness trace (spread evenly over the file, until `max_lines` trace lines are
collected; over-long lines and their scenario are left out), writes them as a Gallina term and lets the
assistant itself replay them: `Eval vm_compute` folds Dispatch.step (the very definition the theorems are
about, NOT its OCaml extraction) over each scenario and returns the positions whose predicted observation
differs from the observation recorded in the trace, honouring the same skip rule as runner/driver.ml
(after a non-monitor mismatch the rest of the scenario is only evaluated for monitors).
The result must be the empty list whenever the OCaml runner reported no mismatch on these lines: a
difference means extraction, the OCaml compiler or the hand-written driver (parsing, big-number
conversion, comparison) is wrong, not the code under test.

Prints one line:  COQCROSS lines=<n> scenarios=<m> disagree=<k> secs=<t>   and exits 0 iff k == 0.
"""
import sys, os, subprocess, time, re

V = os.path.dirname(os.path.dirname(os.path.abspath(__file__)))
MAX_NUMS_PER_LINE = 600


def scenarios(path):
    cur = None
    with open(path, errors='replace') as f:
        for raw in f:
            l = raw.rstrip('\n')
            if not l or l[0] == '#': continue
            if l[0] == '@':
                if cur: yield cur
                cur = [l[1:].strip(), [], True]
                continue
            if cur is None: cur = ['', [], True]
            if '|' in l: lhs, rhs = l.split('|', 1)
            else: lhs, rhs = l, ''
            a = lhs.split(); b = rhs.split()
            if not a: continue
            cur[1].append((a[0], a[1:], b))
    if cur: yield cur


def pick(path, max_lines):
    """up to 16 scenarios at evenly spaced positions of the trace, each cut to a prefix (a prefix of a scenario is
    itself a valid replay: the model state is threaded from the scenario start) so that about max_lines lines are taken"""
    scs = [s for s in scenarios(path) if s[1]]
    if not scs: return []
    t = min(len(scs), 16)
    cap = max(1, max_lines // t)
    out = []
    for j in range(t):
        s = scs[(j * len(scs)) // t]
        lines = s[1][:cap]
        # an over-long line ends the prefix
        good = []
        for (k, a, b) in lines:
            if len(a) + len(b) > MAX_NUMS_PER_LINE or not all(x.isdigit() for x in [k] + a + b): break
            good.append((k, a, b))
        if good: out.append([s[0], good, True])
    return out


def nlist(xs): return '[' + ';'.join(xs) + ']'


def main():
    trace = sys.argv[1]; max_lines = int(sys.argv[2])
    out_dir = sys.argv[3] if len(sys.argv) > 3 else os.path.join(V, 'build', 'coqcross')
    os.makedirs(out_dir, exist_ok=True)
    scs = pick(trace, max_lines)
    nlines = sum(len(s[1]) for s in scs)
    base = 'cross_' + re.sub(r'\W', '_', os.path.basename(trace))
    vfile = os.path.join(out_dir, base + '.v')
    with open(vfile, 'w') as f:
        f.write('From Coq Require Import NArith List Bool.\nFrom VD Require Import Extract.Dispatch.\nImport ListNotations.\nOpen Scope N_scope.\n')
        f.write('Fixpoint leq (a b : list N) : bool := match a, b with [] , [] => true | x :: a\', y :: b\' => (x =? y) && leq a\' b\' | _, _ => false end.\n')
        f.write('(* the loop of runner/driver.ml: state, in-sync flag, position; returns the positions that disagree *)\n')
        f.write('Fixpoint replay (st : mstate) (insync : bool) (i : N) (l : list (N * list N * list N)) : list N :=\n'
                '  match l with\n  | [] => []\n  | (k, ins, obs) :: t =>\n'
                '      if negb insync && negb (is_monitor k) then replay st insync (i + 1) t\n'
                '      else let \'(st\', exp) := step st k ins in\n'
                '           if leq exp obs then replay st\' insync (i + 1) t\n'
                '           else i :: replay st\' (insync && (is_monitor k || is_diag k)) (i + 1) t\n  end.\n')
        for j, s in enumerate(scs):
            f.write('Definition sc%d : list (N * list N * list N) := [\n' % j)
            f.write(';\n'.join(' (%s, %s, %s)' % (k, nlist(a), nlist(b)) for k, a, b in s[1]))
            f.write('].\n')
        f.write('Definition all_bad : list (N * list N) := filter (fun p => negb (match snd p with [] => true | _ => false end)) [\n')
        f.write(';\n'.join(' (%d, replay MNone true 0 sc%d)' % (j, j) for j in range(len(scs))))
        f.write('].\nEval vm_compute in all_bad.\n')
    t0 = time.time()
    try:
        p = subprocess.run(['coqc', '-noglob', '-Q', os.path.join(V, 'coq', 'theories'), 'VD', vfile], capture_output=True, text=True, timeout=900)
        out = p.stdout + p.stderr; rc = p.returncode
    except subprocess.TimeoutExpired:
        out = 'timeout'; rc = 124
    secs = time.time() - t0
    flat = ' '.join(out.split())
    m = re.search(r'=\s*(\[.*\])\s*:\s*list \(N \* list N\)', flat)
    if rc != 0 or not m:
        print('COQCROSS lines=%d scenarios=%d disagree=-1 secs=%.1f error=%s' % (nlines, len(scs), secs, flat[-300:]))
        return 2
    bad = m.group(1).replace(' ', '')
    k = 0 if bad == '[]' else bad.count('(')
    if k:
        names = [scs[int(j)][0] for j in re.findall(r'\((\d+),', bad)][:5]
        print('COQCROSS lines=%d scenarios=%d disagree=%d secs=%.1f first=%s detail=%s' % (nlines, len(scs), k, secs, ','.join(names), bad[:200]))
        return 1
    for ext in ('.vo', '.vok', '.vos', '.glob'):
        try: os.remove(os.path.join(out_dir, base + ext))
        except OSError: pass
    print('COQCROSS lines=%d scenarios=%d disagree=0 secs=%.1f' % (nlines, len(scs), secs))
    return 0


if __name__ == '__main__':
    sys.exit(main())
