#!/usr/bin/env python3
"""Runs every seeded change under seeded/ against the checks of its property WITHOUT touching /repo: the change
is applied in a scratch worktree (/tmp/seedrepo) and ./check is pointed at it with VERIF_REPO. Writes
seeded/<id>/meta.json (what the change breaks, what it needs to manifest, what was run, how it was caught)."""
import subprocess, sys, os, json, re, glob
V = os.path.dirname(os.path.dirname(os.path.abspath(__file__)))
WT = '/tmp/seedrepo'
def sh(*a, **k): return subprocess.run(list(a), capture_output=True, text=True, **k)
args = sys.argv[1:]
shard = None
if args and args[0] == '--shard':   # --shard k/n: the properties with index % n == k, in their own scratch checkout and build directory
    k, n = args[1].split('/'); shard = (int(k), int(n)); args = args[2:]
only = args
if shard: WT = WT + str(shard[0])
# two invocations at the same time (one of them in a `vp run` snapshot) must not share a scratch checkout
WT = WT + '_' + str(os.getpid())
sh('git', '-C', '/repo', 'worktree', 'remove', '--force', WT); sh('rm', '-rf', WT)
assert sh('git', '-C', '/repo', 'worktree', 'add', WT, 'HEAD').returncode == 0
sh('cp', '/repo/Cargo.lock', WT + '/Cargo.lock')
env = dict(os.environ, VERIF_REPO=WT, VERIF_SKIP_PROOFS='1', VERIF_ALT=(str(shard[0]) if shard else ''))
for d in sorted(glob.glob(os.path.join(V, 'seeded', '*-m*'))):
    name = os.path.basename(d)
    if only and name not in only: continue
    prop = name.split('-')[0]
    if shard and int(prop[1:]) % shard[1] != shard[0]: continue
    sh('git', '-C', WT, 'checkout', '--', '.'); sh('git', '-C', WT, 'clean', '-fdq', '-e', 'target', '-e', 'Cargo.lock')
    if sh('git', '-C', WT, 'apply', os.path.join(d, 'patch.diff')).returncode != 0:
        print(name, 'PATCH DOES NOT APPLY to current /repo HEAD'); continue
    sh('rm', '-rf', os.path.join(V, 'replays', prop))
    out = sh(os.path.join(V, 'check'), prop, cwd=V, env=env)
    lines = [l for l in out.stdout.splitlines() if l.startswith(('VIOLATION', 'OK', 'KNOWN'))]
    kinds = set(); scen = set()
    for l in lines:
        m = re.search(r'replay=(\S+)', l)
        if m and os.path.exists(os.path.join(V, m.group(1))):
            first = open(os.path.join(V, m.group(1))).readline()
            if first.startswith('# REPLAY '):
                meta = json.loads(first[9:]); kinds.add(str(meta.get('kind'))); scen.add(str(meta.get('scenario')))
    verdict = 'missed' if out.returncode == 0 else ('no-failing-input-found' if any('no-failing-input-found' in l for l in lines) else 'violation-with-replay')
    am = {}
    if os.path.exists(os.path.join(d, 'agent_meta.json')):
        try: am = json.load(open(os.path.join(d, 'agent_meta.json')))
        except Exception: am = {}
    conf = open(os.path.join(d, 'confirm.txt')).read().strip() if os.path.exists(os.path.join(d, 'confirm.txt')) else ''
    meta = dict(id=name, property=prop, summary=am.get('summary'), needs_to_manifest=am.get('needs_to_manifest'),
                files=am.get('files'), how_demo_fails=am.get('how_demo_fails'),
                confirmed=dict(how='tools/confirm_seed.sh in a scratch worktree: unchanged+demo passes, change alone passes the 57 pinned tests, change+demo fails only the demo', result=conf),
                detection=dict(command='VERIF_REPO=<scratch worktree with patch.diff applied> ./check %s' % prop, exit=out.returncode, verdict=verdict,
                               monitor_kinds=sorted(kinds), scenarios=sorted(scen)[:4], lines=lines[:4]))
    json.dump(meta, open(os.path.join(d, 'meta.json'), 'w'), indent=1)
    print(name, verdict, sorted(kinds))
sh('git', '-C', '/repo', 'worktree', 'remove', '--force', WT)
# the scratch build output of this invocation (cargo target, traces, evidence copies) is several GiB: remove it
_alt = (str(shard[0]) if shard else '')
for _d in ('target_alt', 'target_noalloc_alt', 'harness_alt', 'traces_alt', 'evidence_alt'):
    sh('rm', '-rf', os.path.join(V, 'build', _d + _alt))
