#!/usr/bin/env python3
"""Mutation self-test of ./check C18 against a scratch copy of the repo (harness/Cargo.toml must point at it).
Each mutation compiles, passes the crate's 57 pinned unit tests, and breaks property C18 only on something specific
(several connections, a particular order, a packet for a foreign guest, a multi-step history)."""
import subprocess, sys, os, re, json, shutil
R = os.environ.get('C18_REPO', '/tmp/wb_c18/repo')
V = os.path.dirname(os.path.dirname(os.path.abspath(__file__)))
CM = 'src/device/socket/connectionmanager.rs'
VS = 'src/device/socket/vsock.rs'
OW = 'src/queue/owning.rs'

MUTS = [
 ('M1 recv after a peer shutdown removes slot 0 instead of the drained connection', CM,
  "            self.driver.force_close(&connection.info)?;\n            self.connections.swap_remove(connection_index);\n        }\n\n        Ok(bytes_read)",
  "            self.driver.force_close(&connection.info)?;\n            self.connections.swap_remove(0);\n        }\n\n        Ok(bytes_read)"),
 ('M2 matches_connection no longer checks that the packet is addressed to this guest', VS,
  "            && self.destination.cid == guest_cid\n", "\n"),
 ('M3 matches_connection compares the peer port only (peers with different cids are confused)', VS,
  "        self.source == connection_info.dst\n", "        self.source.port == connection_info.dst.port\n"),
 ('M4 peer shutdown removes the connection even when data is still buffered', CM,
  "                if connection.buffer.is_empty() {\n                    if reason == DisconnectReason::Shutdown {",
  "                if connection.buffer.is_empty() || connection.buffer.used() == 3 {\n                    if reason == DisconnectReason::Shutdown {"),
 ('M5 a rejected connection request leaves its entry in the table', CM,
  "                    self.driver.force_close(&connection.info)?;\n                    self.connections.swap_remove(connection_index);\n\n                    // No need to pass",
  "                    self.driver.force_close(&connection.info)?;\n\n                    // No need to pass"),
 ('M6 connect checks for duplicates among established connections only (keys no longer unique)', CM,
  "            connection.info.dst == destination && connection.info.src_port == src_port\n        }) {\n            return Err(SocketError::ConnectionExists.into());",
  "            connection.info.dst == destination && connection.info.src_port == src_port && connection.established\n        }) {\n            return Err(SocketError::ConnectionExists.into());"),
 ('M7 OwningQueue::poll re-posts the buffer only when the handler succeeded', OW,
  "        unsafe {\n            self.add_buffer_to_queue(token, transport)?;\n        }\n\n        result",
  "        if result.is_ok() {\n        unsafe {\n            self.add_buffer_to_queue(token, transport)?;\n        }\n        }\n\n        result"),
 ('M8 recv closes a peer-shut connection at the first read, drained or not', CM,
  "        if connection.peer_requested_shutdown && connection.buffer.is_empty() {",
  "        if connection.peer_requested_shutdown && (connection.buffer.is_empty() || bytes_read == 2) {"),
 ('M9 get_connection ignores the upper half of the peer cid', CM,
  "            connection.info.dst == peer && connection.info.src_port == local_port\n        })\n        .ok_or(SocketError::NotConnected)",
  "            connection.info.dst.cid as u32 == peer.cid as u32 && connection.info.dst.port == peer.port && connection.info.src_port == local_port\n        })\n        .ok_or(SocketError::NotConnected)"),
 ('M10 force_close uses remove() + re-insert of the last element at the front (table order changes, nothing else)', CM,
  "        self.driver.force_close(&connection.info)?;\n\n        self.connections.swap_remove(index);\n        Ok(())",
  "        self.driver.force_close(&connection.info)?;\n\n        self.connections.remove(index);\n        if let Some(l) = self.connections.pop() { self.connections.insert(0, l); }\n        Ok(())"),
 ('M11 data for a connection is also copied into the next connection of the table when that one has the same local port', CM,
  "            if let VsockEventType::Received { length } = event.event_type {\n                // Copy to buffer\n                if !connection.buffer.add(body) {\n                    return Err(SocketError::OutputBufferTooShort(length).into());\n                }\n            }",
  "            if let VsockEventType::Received { length } = event.event_type {\n                // Copy to buffer\n                if !connection.buffer.add(body) {\n                    return Err(SocketError::OutputBufferTooShort(length).into());\n                }\n                let lp = connection.info.src_port; let pc = connection.info.dst;\n                if let Some(other) = connections.iter_mut().find(|c| c.info.src_port == lp && c.info.dst != pc) { let _ = other.buffer.add(body); }\n            }"),
 ('M12 a credit update is applied to every connection of the same peer', CM,
  "            VsockEventType::CreditUpdate => {}\n        }\n\n        Ok(Some(event))",
  "            VsockEventType::CreditUpdate => {\n                let pc = connection.info.dst;\n                for c in self.connections.iter_mut() { if c.info.dst == pc { c.info.update_for_event(&event); } }\n            }\n        }\n\n        Ok(Some(event))"),
 ('M13 a peer RST on an idle connection is answered with a RST too', CM,
  "                    if reason == DisconnectReason::Shutdown {\n                        self.driver.force_close(&connection.info)?;\n                    }",
  "                    if reason == DisconnectReason::Shutdown || connection.established {\n                        self.driver.force_close(&connection.info)?;\n                    }"),
 ('M14 connection requests addressed to another guest are accepted', CM,
  "                if connection.is_some() || event.destination.cid != guest_cid {", "                if connection.is_some() {"),
 ('M15 only the first listening port accepts connections', CM,
  "                if self.listening_ports.contains(&event.destination.port) {", "                if self.listening_ports.first() == Some(&event.destination.port) {"),
 ('M16 unlistening the second listening port also drops the ports after it', CM,
  "        self.listening_ports.retain(|p| *p != port);",
  "        if let Some(i) = self.listening_ports.iter().position(|p| *p == port) { self.listening_ports.remove(i); if i == 1 { self.listening_ports.truncate(1); } }"),
 ('M17 data arriving after the peer shut down is dropped silently', CM,
  "                if !connection.buffer.add(body) {", "                if !connection.peer_requested_shutdown && !connection.buffer.add(body) {"),
]

def sh(cmd, cwd, timeout=1500):
    p = subprocess.run(cmd, shell=True, cwd=cwd, stdout=subprocess.PIPE, stderr=subprocess.STDOUT, text=True, timeout=timeout)
    return p.returncode, p.stdout

rows = []
only = sys.argv[1:]
for name, rel, a, b in MUTS:
    if only and name.split()[0] not in only: continue
    F = os.path.join(R, rel)
    orig = open(F).read()
    try:
        assert a in orig, name
        open(F, 'w').write(orig.replace(a, b, 1))
        rc, out = sh('CARGO_TARGET_DIR=%s/target timeout 1400 cargo test --offline 2>&1 | grep -E "^test result|error(\\[|:)" | head -5' % R, R)
        tests_ok = 'test result: ok. 57 passed' in out
        shutil.rmtree(os.path.join(V, 'replays', 'C18'), ignore_errors=True)
        rc, out = sh('./check C18', V)
        lines = [l for l in out.splitlines() if l.startswith(('VIOLATION', 'OK', 'NOTE', 'BROKEN', 'KNOWN'))]
        verdict, detail = 'missed', ''
        vio = [l for l in lines if l.startswith('VIOLATION')]
        if vio:
            if any('no-failing-input-found' in l for l in vio): verdict = 'no-failing-input-found'
            else:
                verdict = 'monitor VIOLATION with replay'
                kinds, first = set(), ''
                for l in vio:
                    m2 = re.search(r'replay=(\S+)', l)
                    meta = open(os.path.join(V, m2.group(1))).readline()
                    k = re.search(r'"kind": "(\d+)", "scenario": "([^"]+)"', meta)
                    if k:
                        kinds.add(k.group(1))
                        if not first: first = '%s in %s' % (k.group(1), k.group(2))
                    elif 'did not terminate' in meta: kinds.add('hang')
                detail = 'monitor kinds %s; first: %s' % (sorted(kinds), first)
        notes = [l for l in lines if l.startswith('NOTE')]
        rows.append((name, 'pass' if tests_ok else 'FAIL: ' + out.strip()[-120:], verdict, detail, notes[0][:200] if notes else ''))
        print(rows[-1], flush=True)
    finally:
        open(F, 'w').write(orig)
        sh('git checkout -q -- %s' % rel, R)
shutil.rmtree(os.path.join(V, 'replays', 'C18'), ignore_errors=True)
json.dump(rows, open(os.path.join(V, 'build', 'c18_mutation_results%s.json' % ('_'.join(only))), 'w'), indent=1)
