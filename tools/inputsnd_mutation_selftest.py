#!/usr/bin/env python3
"""Mutation self-test of the VirtIOInput configuration queries (./check C13 / C07: Model/InputCfg.v, line 1320, monitors
1321 / 1322; ./check C19: line 1962) and of the VirtIOSound notification / configuration / query part (./check C19: lines
1980 / 1981, monitor 1982, older 2056; ./check C20: lines 2034 / 2035 / 2039, monitors 2055 / 2058 / 2061 / 2062) against a
scratch worktree of the repo (INPUTSND_REPO, default /tmp/bld/inputsnd/repo = the tree plus corpus/proposals/input_cfg_fix.diff).
Each mutation changes one source file, is compiled and run through the pinned `cargo test --offline` (57 unit tests; the
result is recorded, mutations that fail a unit test are kept in the table but marked). For speed the script does what
./check does after the proofs: build the harness (debug profile) against the scratch worktree, run the quick scenarios,
replay the traces through the extracted model. A false monitor is what ./check reports as VIOLATION with a replay, a
mismatch alone is what it reports as no-failing-input-found. H* are harmless rewrites that must not make a monitor false.
usage: tools/inputsnd_mutation_selftest.py [A2 B1 ...]"""
import subprocess, sys, os, re, json
R = os.environ.get('INPUTSND_REPO', '/tmp/bld/inputsnd/repo')
V = os.path.dirname(os.path.dirname(os.path.abspath(__file__)))
ALT = os.path.join(V, 'build', 'harness_alt')
TGT = os.path.join(V, 'build', 'target_alt')
TMP = os.environ.get('INPUTSND_TMP', '/tmp/bld/inputsnd/mut')
INP, SND, OWN = 'src/device/input.rs', 'src/device/sound.rs', 'src/queue/owning.rs'

# (name, file, old, new, properties whose scenarios are run)
MUTS = [
 # ---------------- Part A: src/device/input.rs
 ('A0 (the finding) query_config_select without the bound on the device-announced size', INP,
  "        if usize::from(size) > CONFIG_DATA_MAX_LENGTH {\n            return Err(Error::IoError);\n        }\n        let size_to_copy",
  "        let size_to_copy", ['C13', 'C19']),
 ('A2 query_config_select_alloc refuses size 128 (>= instead of >)', INP,
  "        if size > CONFIG_DATA_MAX_LENGTH {", "        if size >= CONFIG_DATA_MAX_LENGTH {", ['C13']),
 ('A4 query_config_select writes subsel before select', INP,
  "        write_config!(self.transport, Config, select, select as u8)?;\n        write_config!(self.transport, Config, subsel, subsel)?;\n        let size: u8 =",
  "        write_config!(self.transport, Config, subsel, subsel)?;\n        write_config!(self.transport, Config, select, select as u8)?;\n        let size: u8 =", ['C13', 'C19']),
 ('A5 ids() accepts any size of at least 8 bytes', INP,
  "        if usize::from(size) == size_of::<DevIDs>() {", "        if usize::from(size) >= size_of::<DevIDs>() {", ['C13']),
 ('A6 query_config_select_alloc reads size before writing select / subsel', INP,
  "        write_config!(self.transport, Config, select, select as u8)?;\n        write_config!(self.transport, Config, subsel, subsel)?;\n        let size = usize::from(read_config!(self.transport, Config, size)?);",
  "        let size = usize::from(read_config!(self.transport, Config, size)?);\n        write_config!(self.transport, Config, select, select as u8)?;\n        write_config!(self.transport, Config, subsel, subsel)?;", ['C13']),
 ('A11 abs_info() accepts a short structure (size <= 20)', INP,
  "        if usize::from(size) == size_of::<AbsInfo>() {", "        if usize::from(size) <= size_of::<AbsInfo>() {", ['C13']),
 ('A12 query_config_select returns the number of bytes copied instead of size', INP,
  "        Ok(size)\n    }\n\n    /// Queries a specific piece of information by `select` and `subsel`, allocates",
  "        Ok(size_to_copy as u8)\n    }\n\n    /// Queries a specific piece of information by `select` and `subsel`, allocates", ['C13', 'C19']),
 ('A13 query_config_select_alloc reads at most 64 data bytes (the rest of the buffer stays zero)', INP,
  "        for i in 0..size {\n            buf[i] = self", "        for i in 0..min(size, 64) {\n            buf[i] = self", ['C13']),
 ('A14 query_config_select_alloc starts reading at data[1]', INP,
  "            buf[i] = self\n                .transport\n                .read_config_space(offset_of!(Config, data) + i * size_of::<u8>())?;\n        }\n        Ok(buf)",
  "            buf[i] = self\n                .transport\n                .read_config_space(offset_of!(Config, data) + 1 + i * size_of::<u8>())?;\n        }\n        Ok(buf)", ['C13']),
 ('A15 name() queries with subsel 1', INP,
  "        self.query_config_string(InputConfigSelect::IdName, 0)", "        self.query_config_string(InputConfigSelect::IdName, 1)", ['C13']),
 ('H1 query_config_select_alloc: data offset hoisted into a local, loop over the buffer (same accesses)', INP,
  "        for i in 0..size {\n            buf[i] = self\n                .transport\n                .read_config_space(offset_of!(Config, data) + i * size_of::<u8>())?;\n        }\n        Ok(buf)",
  "        let base = offset_of!(Config, data);\n        for (i, b) in buf.iter_mut().enumerate() {\n            *b = self.transport.read_config_space(base + i)?;\n        }\n        Ok(buf)", ['C13']),
 # ---------------- Part B: src/device/sound.rs, src/queue/owning.rs
 ('B1 NotificationType::n maps JACK_DISCONNECTED to JackConnected', SND,
  "            0x1001 => Some(Self::JackDisconnected),", "            0x1001 => Some(Self::JackConnected),", ['C19']),
 ('B2 latest_notification drops an event with an unknown type code (Ok(None) instead of IoError)', SND,
  "                Ok(Some(Notification {\n                    notification_type: NotificationType::n(event.hdr.command_code)\n                        .ok_or(Error::IoError)?,\n                    data: event.data,\n                }))",
  "                Ok(NotificationType::n(event.hdr.command_code).map(|notification_type| Notification {\n                    notification_type,\n                    data: event.data,\n                }))", ['C19']),
 ('B3 latest_notification reports the type code as data', SND,
  "                    data: event.data,\n                }))\n            } else {", "                    data: event.hdr.command_code,\n                }))\n            } else {", ['C19']),
 ('B4 jacks() returns the stream count', SND,
  "    pub fn jacks(&self) -> u32 {\n        self.jacks\n    }", "    pub fn jacks(&self) -> u32 {\n        self.streams\n    }", ['C20']),
 ('B5 new reads chmaps from the streams field of the configuration space', SND,
  "        let chmaps = read_config!(transport, VirtIOSoundConfig, chmaps)?;", "        let chmaps = read_config!(transport, VirtIOSoundConfig, streams)?;", ['C20']),
 ('B6 rates_supported returns the formats bitmap', SND,
  "            self.pcm_infos.as_ref().unwrap()[stream_id as usize].rates,", "            self.pcm_infos.as_ref().unwrap()[stream_id as usize].formats as u64,", ['C20']),
 ('B7 channel_range_supported returns channels_min..=channels_min', SND,
  "        Ok(pcm_info.channels_min..=pcm_info.channels_max)", "        Ok(pcm_info.channels_min..=pcm_info.channels_min)", ['C20']),
 ('B8 features_supported: bound off by one (stream_id == len is indexed)', SND,
  "        if stream_id >= self.pcm_infos.as_ref().unwrap().len() as u32 {\n            return Err(Error::InvalidParam);\n        }\n        let pcm_info = &self.pcm_infos.as_ref().unwrap()[stream_id as usize];\n        Ok(PcmFeatures::from_bits_retain(pcm_info.features))",
  "        if stream_id > self.pcm_infos.as_ref().unwrap().len() as u32 {\n            return Err(Error::InvalidParam);\n        }\n        let pcm_info = &self.pcm_infos.as_ref().unwrap()[stream_id as usize];\n        Ok(PcmFeatures::from_bits_retain(pcm_info.features))", ['C20']),
 ('B9 output_streams lists every stream that is not an input stream', SND,
  "            .filter(|(_, info)| info.direction == VIRTIO_SND_D_OUTPUT)", "            .filter(|(_, info)| info.direction != VIRTIO_SND_D_INPUT)", ['C20']),
 ('B10 OwningQueue::poll does not post the buffer again when the handler fails', OWN,
  "            handler(&buffer[0..len])\n        };\n", "            handler(&buffer[0..len])\n        };\n        if result.is_err() {\n            return result;\n        }\n", ['C19']),
 ('B11 latest_notification accepts any buffer of at least 8 bytes... (read_from_prefix) - here: a 4-byte record is decoded from the stale tail', SND,
  "            if let Ok(event) = VirtIOSndEvent::read_from_bytes(buffer) {", "            let mut whole = [0u8; 8];\n            whole[..buffer.len()].copy_from_slice(buffer);\n            if let Ok(event) = VirtIOSndEvent::read_from_bytes(&whole[..]) {", ['C19']),
 ('H2 latest_notification: the event is taken apart into locals first (same behaviour)', SND,
  "                Ok(Some(Notification {\n                    notification_type: NotificationType::n(event.hdr.command_code)\n                        .ok_or(Error::IoError)?,\n                    data: event.data,\n                }))",
  "                let code = event.hdr.command_code;\n                let data = event.data;\n                let notification_type = NotificationType::n(code).ok_or(Error::IoError)?;\n                Ok(Some(Notification {\n                    notification_type,\n                    data,\n                }))", ['C19']),
]

def sh(cmd, cwd, timeout=2400):
    p = subprocess.run(cmd, shell=True, cwd=cwd, stdout=subprocess.PIPE, stderr=subprocess.STDOUT, text=True, timeout=timeout)
    return p.returncode, p.stdout

def run_traces(props):
    """returns (monitor kinds that failed, kinds that mismatched, first failing scenario, harness trouble)"""
    mon, mis, scen, trouble = set(), set(), None, []
    env = 'CARGO_TARGET_DIR=%s RUSTFLAGS="--cfg virtio_drivers_verif" CARGO_NET_OFFLINE=true' % TGT
    rc, out = sh('%s timeout 1500 cargo build --offline -j6 2>&1 | grep -E "^error" -A 6 | head -12' % env, ALT)
    if out.strip(): return [], [], None, ['harness does not build: %s' % out.strip()[:300]]
    for pid in props:
        tr = os.path.join(TMP, 'mut.%s.trace' % pid)
        rc, out = sh('ulimit -v 8000000; timeout 600 %s/debug/vharness %s quick 1 %s' % (TGT, pid, tr), V)
        if rc != 0: trouble.append('harness %s exit %s' % (pid, rc))
        rc, out = sh('timeout 600 %s/build/runner/runner %s 50' % (V, tr), V)
        for l in out.splitlines():
            m = re.match(r'(MONITOR_FAIL|MISMATCH) line=(\d+) kind=(\d+) scenario=(\S+)', l)
            if m:
                (mon if m.group(1) == 'MONITOR_FAIL' else mis).add('%s:%s' % (pid, m.group(3)))
                if m.group(1) == 'MONITOR_FAIL' and scen is None: scen = '%s debug %s' % (pid, m.group(4))
    return sorted(mon), sorted(mis), scen, trouble

os.makedirs(TMP, exist_ok=True)
rows = []
only = sys.argv[1:]
origs = {f: open(os.path.join(R, f)).read() for f in (INP, SND, OWN)}
try:
    for name, f, a, b, props in MUTS:
        if only and name.split()[0] not in only: continue
        assert a in origs[f], name
        open(os.path.join(R, f), 'w').write(origs[f].replace(a, b, 1))
        try:
            rc, tout = sh('CARGO_TARGET_DIR=%s/unit_target timeout 1200 cargo test --offline -j6 2>&1 | grep -E "^test result|^error|FAILED|panicked" | head -8' % TMP, R)
            tests_ok = 'test result: ok. 57 passed' in tout
            mon, mis, scen, trouble = run_traces(props)
        finally:
            open(os.path.join(R, f), 'w').write(origs[f])
        verdict = ('monitor false (VIOLATION with replay)' if mon else 'correspondence broken only (no-failing-input-found)' if mis or trouble else 'not flagged')
        row = dict(mutation=name, file=f, unit_tests_pass=tests_ok, unit_test_output=('' if tests_ok else tout.strip()[:300]), verdict=verdict,
                   monitors=mon, mismatches=mis, first=scen, trouble=trouble)
        rows.append(row)
        print(json.dumps(row), flush=True)
finally:
    for f, t in origs.items(): open(os.path.join(R, f), 'w').write(t)
if not only: json.dump(rows, open(os.path.join(V, 'tools', 'inputsnd_mutation_results.json'), 'w'), indent=1)
