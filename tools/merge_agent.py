#!/usr/bin/env python3
"""usage: merge_agent.py <agent V dir> -- copy new files and merge the shared-file snippets of a builder agent into this tree."""
import subprocess, sys, os, re, shutil
A = os.path.abspath(sys.argv[1]); V = os.path.dirname(os.path.dirname(os.path.abspath(__file__)))
def git(*a): return subprocess.run(['git', '-C', A] + list(a), capture_output=True, text=True).stdout
new = [l[3:] for l in git('status', '--short').splitlines() if l.startswith('??')]
def walk(p):
    full = os.path.join(A, p)
    if os.path.isdir(full):
        for r, _, fs in os.walk(full):
            for f in fs: yield os.path.relpath(os.path.join(r, f), A)
    else: yield p
for p in new:
    for f in walk(p):
        if f.startswith(('evidence/', 'build/', 'replays/', 'coq/theories/Properties/')) or f.endswith(('.vo', '.glob', '.aux', '.vok', '.vos')): continue
        os.makedirs(os.path.dirname(os.path.join(V, f)) or V, exist_ok=True)
        shutil.copy2(os.path.join(A, f), os.path.join(V, f)); print('copied', f)
def added(path): return [l[1:] for l in git('diff', path).splitlines() if l.startswith('+') and not l.startswith('+++')]
# _CoqProject
cp = os.path.join(V, 'coq/_CoqProject'); lines = open(cp).read().splitlines()
for l in added('coq/_CoqProject'):
    if l in lines or not l.strip(): continue
    if '/Model/' in l: idx = max(i for i, x in enumerate(lines) if '/Model/' in x) + 1
    elif '/Proofs/' in l: idx = max(i for i, x in enumerate(lines) if '/Proofs/' in x) + 1
    elif '/Extract/' in l: idx = lines.index('theories/Extract/Dispatch.v')
    else: idx = len(lines)
    lines.insert(idx, l); print('_CoqProject +', l)
open(cp, 'w').write('\n'.join(lines) + '\n')
# mod.rs
mp = os.path.join(V, 'harness/src/scen/mod.rs'); s = open(mp).read()
for l in added('harness/src/scen/mod.rs'):
    if l.strip() in s: continue
    if l.startswith('pub mod'):
        i = s.rindex('pub mod'); j = s.index('\n', i) + 1; s = s[:j] + l + '\n' + s[j:]
    elif '=>' in l:
        i = s.index('        _ => return false'); s = s[:i] + l + '\n' + s[i:]
    print('mod.rs +', l)
open(mp, 'w').write(s)
# Dispatch.v: imports, constructors, is_monitor automatically; print the rest
dp = os.path.join(V, 'coq/theories/Extract/Dispatch.v'); s = open(dp).read()
ad = added('coq/theories/Extract/Dispatch.v')
base_imp = re.search(r'From VD Require Import ([^.]*(?:\.[A-Za-z][^.]*)*)\.\n', s)
mine = s[s.index('From VD Require Import'):s.index('.\n', s.index('From VD Require Import')) ]
mods_mine = mine.replace('From VD Require Import', '').split()
rest = []
for l in ad:
    if l.startswith('From VD Require Import'):
        for m in l.replace('From VD Require Import', '').rstrip('.').split():
            if m not in mods_mine: mods_mine.append(m); print('Dispatch import +', m)
    elif re.match(r'\s*\| M\w+ \(', l):
        ctor = l.strip().rstrip('.')
        if ctor not in s:
            i = s.index('Inductive mstate'); j = s.index('.\n', i)
            s = s[:j] + '\n' + ctor + s[j:]; print('Dispatch ctor +', ctor)
    elif 'is_monitor k' in l and '||' in l:
        for t in re.findall(r'\|\| (\w+_is_monitor k)', l):
            if t not in s:
                i = s.index('Definition is_monitor'); j = s.index('.\n', i)
                s = s[:j] + ' || ' + t + s[j:]; print('Dispatch is_monitor +', t)
    else: rest.append(l)
s = s.replace(mine, 'From VD Require Import ' + ' '.join(mods_mine))
open(dp, 'w').write(s)
print('--- remaining Dispatch.v lines to place by hand (inside step) ---')
for l in rest: print(l)
