#!/bin/sh
# run every registered check (quick tier) and print one line per property
V=$(cd "$(dirname "$0")/.." && pwd); cd $V
for p in $(python3 -c "import json;print(' '.join(c['property_id'] for c in json.load(open('MANIFEST.json'))['checks']))"); do
  out=$(./check $p 2>&1 | grep -E "^(OK|VIOLATION|KNOWN|BROKEN)" | head -3 | tr '\n' ' ')
  echo "$p: $out"
done
