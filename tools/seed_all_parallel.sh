#!/bin/sh
# usage: seed_all_parallel.sh [ids...]  -- tools/seed_all.py in 4 shards side by side (own scratch checkout and build directory each);
# prints the verdict lines of all shards when they are done
V=$(cd "$(dirname "$0")/.." && pwd); cd $V
for k in 0 1 2 3; do python3 tools/seed_all.py --shard $k/4 "$@" > $V/build/seedrun_$k.log 2>&1 & done
wait
cat $V/build/seedrun_*.log | sort
