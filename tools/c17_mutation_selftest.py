#!/usr/bin/env python3
"""Mutation self-test of ./check C17 against the FIXED scratch copy of the repo (hooks + F7 + F9 repairs applied;
harness/Cargo.toml must point at it). Every mutation compiles, passes the crate's 57 unit tests, and needs something
specific to show (a boundary, an order of events, a counter beyond 2^31 / 2^32, a full buffer)."""
import subprocess, sys, os, re, json, shutil
R = os.environ.get('C17_REPO', '/tmp/wb_c17/repo')
V = os.path.dirname(os.path.dirname(os.path.abspath(__file__)))
VS = 'src/device/socket/vsock.rs'
CM = 'src/device/socket/connectionmanager.rs'

MUTS = [
 ('M1 peer_free: bytes in flight with saturating instead of wrapping subtraction (wrong once tx_cnt has wrapped)', VS,
  ".saturating_sub(self.tx_cnt.wrapping_sub(self.peer_fwd_cnt))",
  ".saturating_sub(self.tx_cnt.saturating_sub(self.peer_fwd_cnt))"),
 ('M2 peer_free: outer subtraction wrapping (peer buffer shrunk below the bytes in flight => huge credit)', VS,
  "        self.peer_buf_alloc\n            .saturating_sub(self.tx_cnt.wrapping_sub(self.peer_fwd_cnt))",
  "        self.peer_buf_alloc\n            .wrapping_sub(self.tx_cnt.wrapping_sub(self.peer_fwd_cnt))"),
 ('M3 send: tx_cnt kept to 31 bits', VS,
  "        connection_info.tx_cnt = connection_info.tx_cnt.wrapping_add(len);",
  "        connection_info.tx_cnt = connection_info.tx_cnt.wrapping_add(len) & 0x7fff_ffff;"),
 ('M4 credit check: exact fit refused (> instead of >=)', VS,
  "        if connection_info.peer_free() as usize >= buffer_len {",
  "        if connection_info.peer_free() as usize > buffer_len || buffer_len == 0 {"),
 ('M5 refused send does not remember its credit request (a request per refused send)', VS,
  "                connection_info.has_pending_credit_request = true;",
  "                connection_info.has_pending_credit_request = buffer_len == usize::MAX;"),
 ('M6 any packet of the peer re-arms the credit request, not only a credit update', VS,
  "        if let VsockEventType::CreditUpdate = event.event_type {\n            self.has_pending_credit_request = false;\n        }",
  "        if let VsockEventType::ConnectionRequest = event.event_type {\n        } else {\n            self.has_pending_credit_request = false;\n        }"),
 ('M7 done_forwarding: length truncated to 16 bits', VS,
  "        self.fwd_cnt = self.fwd_cnt.wrapping_add(length as u32);",
  "        self.fwd_cnt = self.fwd_cnt.wrapping_add(length as u16 as u32);"),
 ('M8 RingBuffer::add refuses to fill the last byte (>= instead of >)', CM,
  "        if bytes.len() > self.free() {",
  "        if bytes.len() >= self.free() && !bytes.is_empty() {"),
 ('M9 RingBuffer::drain: cursor reset to 0 whenever it passes the end (wrong when it wraps past index 0)', CM,
  "        self.start = (self.start + bytes_read) % self.buffer.len();",
  "        self.start = if self.start + bytes_read < self.buffer.len() { self.start + bytes_read } else { 0 };"),
 ('M10 a recv that finds the buffer empty still credits one byte', CM,
  "        connection.info.done_forwarding(bytes_read);",
  "        connection.info.done_forwarding(if bytes_read == 0 { buffer.len().min(1) } else { bytes_read });"),
 ('M11 ring buffer one byte smaller than the advertised buf_alloc', CM,
  "            buffer: RingBuffer::new(buffer_capacity.try_into().unwrap()),",
  "            buffer: RingBuffer::new((buffer_capacity as usize).saturating_sub(1).max(1)),"),
 ('M12 RingBuffer::add: second part of a split copy starts at index 1 when the first part is a single byte', CM,
  "            self.buffer[0..bytes_after_wraparound.len()].copy_from_slice(bytes_after_wraparound);",
  "            let o = (copy_length_before_wraparound == 1 && bytes_after_wraparound.len() + 1 < first_available) as usize;\n            self.buffer[o..o + bytes_after_wraparound.len()].copy_from_slice(bytes_after_wraparound);"),
 ('M13 credit request carries a stale (zero) fwd_cnt', VS,
  "            op: VirtioVsockOp::CreditRequest.into(),\n            ..connection_info.new_header(self.guest_cid)",
  "            op: VirtioVsockOp::CreditRequest.into(),\n            fwd_cnt: 0.into(),\n            ..connection_info.new_header(self.guest_cid)"),
 ('M14 credit piggy-backed on a data packet is ignored', CM,
  "            connection.info.update_for_event(&event);",
  "            if !matches!(event.event_type, VsockEventType::Received { .. }) {\n                connection.info.update_for_event(&event);\n            }"),
 ('M15 credit check in 16 bits', VS,
  "        if connection_info.peer_free() as usize >= buffer_len {",
  "        if connection_info.peer_free() as u16 as usize >= buffer_len {"),
]

def sh(cmd, cwd, timeout=1500, env=None):
    p = subprocess.run(cmd, shell=True, cwd=cwd, stdout=subprocess.PIPE, stderr=subprocess.STDOUT, text=True, timeout=timeout, env=env)
    return p.returncode, p.stdout

rows = []
only = sys.argv[1:]
for name, rel, a, b in MUTS:
    if only and name.split()[0] not in only: continue
    F = os.path.join(R, rel)
    orig = open(F).read()
    try:
        assert a in orig, 'pattern not found: ' + name
        open(F, 'w').write(orig.replace(a, b, 1))
        env = dict(os.environ, CARGO_TARGET_DIR=os.path.join(R, 'target'))
        env.pop('RUSTFLAGS', None)
        rc, out = sh('cargo test --offline 2>&1 | grep -E "^test result|error(\\[|:)" | head -5', R, env=env)
        tests_ok = 'test result: ok. 57 passed' in out
        tests_out = out
        shutil.rmtree(os.path.join(V, 'replays', 'C17'), ignore_errors=True)
        rc, out = sh('./check C17', V)
        lines = [l for l in out.splitlines() if l.startswith(('VIOLATION', 'OK', 'NOTE', 'BROKEN', 'KNOWN'))]
        verdict, detail = 'missed', ''
        vio = [l for l in lines if l.startswith('VIOLATION')]
        if vio:
            if all('no-failing-input-found' in l for l in vio): verdict = 'no-failing-input-found'
            else:
                verdict = 'monitor VIOLATION with replay'
                kinds, first = set(), None
                for l in vio:
                    m2 = re.search(r'replay=(\S+)', l)
                    meta = open(os.path.join(V, m2.group(1))).readline()
                    k = re.search(r'"kind": "(\d+)", "scenario": "([^"]+)"', meta)
                    if k:
                        kinds.add(k.group(1))
                        if first is None: first = '%s (%s, %s)' % (m2.group(1), k.group(2), re.search(r'"profile": "(\w+)"', meta).group(1))
                detail = 'monitor kinds %s; first: %s' % (sorted(kinds), first)
        elif not any(l.startswith('OK') for l in lines): verdict = 'BROKEN: ' + ' '.join(lines)[:200]
        notes = [l for l in lines if l.startswith('NOTE')]
        rows.append((name, 'pass' if tests_ok else 'FAIL: ' + tests_out[:200], verdict, detail, notes[0][:200] if notes else ''))
        print(rows[-1], flush=True)
    finally:
        open(F, 'w').write(orig)
shutil.rmtree(os.path.join(V, 'replays', 'C17'), ignore_errors=True)
json.dump(rows, open('/tmp/c17_mutation_results%s.json' % ('_'.join(only)), 'w'), indent=1)
