#!/usr/bin/env python3
"""Mutation self-test of ./check C11 / ./check C13 for the x86-64 pKVM hypercall PCI transport, against a scratch checkout
of the repo that has the hypercall hook (corpus/proposals/hyp_hook.diff) and the four repairs hyp_fix_F19..F22 applied.
Each mutation of NON-hook code in src/transport/x86_64.rs, x86_64/cam.rs or x86_64/hypercalls.rs is applied alone, the
crate's own tests are run (they must still pass: nothing in the suite executes the hypercall transport), then
`VERIF_REPO=<checkout> ./check <property>` (proofs skipped: the Coq side does not depend on the repo); the file is restored
with `git checkout` afterwards.
usage: HYP_REPO=/tmp/bld/hyp/repo tools/c11_hyp_mutation_selftest.py [H1 H2 ...]   ->  tools/c11_hyp_mutation_results.json"""
import subprocess, sys, os, re, json, shutil
R = os.environ.get('HYP_REPO', '/tmp/bld/hyp/repo')
V = os.path.dirname(os.path.dirname(os.path.abspath(__file__)))
X = 'src/transport/x86_64.rs'
H = 'src/transport/x86_64/hypercalls.rs'
C = 'src/transport/x86_64/cam.rs'

MUTS = [
 ('H1 notify offset without the multiplier', 'C11', X,
  "        let offset_bytes = usize::from(queue_notify_off) * self.notify_off_multiplier as usize;",
  "        let offset_bytes = usize::from(queue_notify_off);"),
 ('H2 queue_set enables the queue before writing the three addresses', 'C11', X,
  """        configwrite!(self.common_cfg, queue_desc, descriptors);
        configwrite!(self.common_cfg, queue_driver, driver_area);
        configwrite!(self.common_cfg, queue_device, device_area);
        configwrite!(self.common_cfg, queue_enable, 1u16);""",
  """        configwrite!(self.common_cfg, queue_enable, 1u16);
        configwrite!(self.common_cfg, queue_desc, descriptors);
        configwrite!(self.common_cfg, queue_driver, driver_area);
        configwrite!(self.common_cfg, queue_device, device_area);"""),
 ('H3 read_config_space: bound `<=` instead of `<` (an access ending exactly at the end refused)', 'C13', X,
  """            .is_none_or(|end| config_space.size < end)
        {
            Err(Error::ConfigSpaceTooSmall)
        } else {
            Ok(config_space.read(offset))""",
  """            .is_none_or(|end| config_space.size <= end)
        {
            Err(Error::ConfigSpaceTooSmall)
        } else {
            Ok(config_space.read(offset))"""),
 ('H4 max_queue_size reads queue_msix_vector instead of queue_size', 'C11', X,
  "        let queue_size: u16 = configread!(self.common_cfg, queue_size);",
  "        let queue_size: u16 = configread!(self.common_cfg, queue_msix_vector);"),
 ('H5 get_bar_region: alignment check of the physical address dropped', 'C11', X,
  "    if !paddr.is_multiple_of(align_of::<T>() as u64) {",
  "    if false && !paddr.is_multiple_of(align_of::<T>() as u64) {"),
 ('H6 get_bar_region: size_of::<T>() > length check dropped', 'C11', X,
  """    if u64::from(struct_info.offset) + u64::from(struct_info.length) > bar_size
        || size_of::<T>() > struct_info.length as usize
    {""",
  """    if u64::from(struct_info.offset) + u64::from(struct_info.length) > bar_size {"""),
 ('H7 the LAST common capability wins instead of the first', 'C11', X,
  "                VIRTIO_PCI_CAP_COMMON_CFG if common_cfg.is_none() => {",
  "                VIRTIO_PCI_CAP_COMMON_CFG => {"),
 ('H8 the region is one byte longer than the structure', 'C11', X,
  "        size: struct_info.length as usize,",
  "        size: struct_info.length as usize + 1,"),
 ('H9 bounds check forgets the length (offset alone compared with the BAR size)', 'C11', X,
  "    if u64::from(struct_info.offset) + u64::from(struct_info.length) > bar_size",
  "    if u64::from(struct_info.offset) > bar_size"),
 ('H10 queue_used does not select the queue', 'C11', X,
  """        configwrite!(self.common_cfg, queue_select, queue);
        let queue_enable: u16 = configread!(self.common_cfg, queue_enable);""",
  """        let _ = queue;
        let queue_enable: u16 = configread!(self.common_cfg, queue_enable);"""),
 ('H11 reserved bar value 6 is let through', 'C11', X,
  "            if struct_info.bar > 5 {",
  "            if struct_info.bar > 6 {"),
 ('H12 ack_interrupt reads the ISR status as a u16', 'C11', X,
  "        let isr_status: u8 = self.isr_status.read(0);",
  "        let isr_status: u16 = self.isr_status.read(0);"),
 ('H13 write_config_space: offset alignment assertion dropped', 'C13', X,
  """        assert_eq!(offset % align_of::<T>(), 0);

        let config_space = self.config_space.ok_or(Error::ConfigSpaceMissing)?;
        // `offset` comes from the caller: the end of the access must be computed without overflow.
        if offset
            .checked_add(size_of::<T>())
            .is_none_or(|end| config_space.size < end)
        {
            Err(Error::ConfigSpaceTooSmall)
        } else {
            config_space.write(offset, value);""",
  """        let config_space = self.config_space.ok_or(Error::ConfigSpaceMissing)?;
        // `offset` comes from the caller: the end of the access must be computed without overflow.
        if offset
            .checked_add(size_of::<T>())
            .is_none_or(|end| config_space.size < end)
        {
            Err(Error::ConfigSpaceTooSmall)
        } else {
            config_space.write(offset, value);"""),
 ('H14 an odd notify_off_multiplier is accepted when it is 1', 'C11', X,
  "        if notify_off_multiplier % 2 != 0 {",
  "        if notify_off_multiplier % 2 != 0 && notify_off_multiplier != 1 {"),
 ('H15 a memory BAR that was never given an address is accepted', 'C11', X,
  """    if bar_address == 0 {
        return Err(VirtioPciError::BarNotAllocated(struct_info.bar));
    }""",
  """    if bar_address == 0 && false {
        return Err(VirtioPciError::BarNotAllocated(struct_info.bar));
    }"""),
 ('H16 HypIoRegion::write: the bounds assertion allows one byte beyond the region', 'C11', H,
  """    pub fn write<T: IntoBytes + Immutable>(self, offset: usize, value: T) {
        assert!(offset + size_of::<T>() <= self.size);""",
  """    pub fn write<T: IntoBytes + Immutable>(self, offset: usize, value: T) {
        assert!(offset + size_of::<T>() <= self.size + 1);"""),
 ('H17 HypIoRegion::read: the size_of::<T>() <= 8 assertion dropped', 'C13', H,
  """    pub fn read<T: FromBytes>(self, offset: usize) -> T {
        assert!(offset + size_of::<T>() <= self.size);
        assert!(size_of::<T>() <= HYP_IO_MAX);
""",
  """    pub fn read<T: FromBytes>(self, offset: usize) -> T {
        assert!(offset + size_of::<T>() <= self.size);
"""),
 ('H18 read_config_space: ConfigSpaceMissing reported as ConfigSpaceTooSmall', 'C13', X,
  """    fn read_config_space<T: FromBytes>(&self, offset: usize) -> Result<T, Error> {
        assert!(
            align_of::<T>() <= 4,
            "Driver expected config space alignment of {} bytes, but VirtIO only guarantees 4 byte alignment.",
            align_of::<T>()
        );
        assert_eq!(offset % align_of::<T>(), 0);

        let config_space = self.config_space.ok_or(Error::ConfigSpaceMissing)?;""",
  """    fn read_config_space<T: FromBytes>(&self, offset: usize) -> Result<T, Error> {
        assert!(
            align_of::<T>() <= 4,
            "Driver expected config space alignment of {} bytes, but VirtIO only guarantees 4 byte alignment.",
            align_of::<T>()
        );
        assert_eq!(offset % align_of::<T>(), 0);

        let config_space = self.config_space.ok_or(Error::ConfigSpaceTooSmall)?;"""),
 ('H19 HypCam::read_word: phys_base OR-ed with the offset instead of added', 'C11', C,
  "        hyp_io_read(self.phys_base + u64::from(address), 4) as u32",
  "        hyp_io_read(self.phys_base | u64::from(address), 4) as u32"),
 ('H20 HypCam::write_word issues a two-byte hypercall', 'C11', C,
  "        hyp_io_write(self.phys_base + u64::from(address), 4, data.into());",
  "        hyp_io_write(self.phys_base + u64::from(address), 2, data.into());"),
 ('H21 HypCam::read_word ignores the register offset', 'C11', C,
  """    fn read_word(&self, device_function: DeviceFunction, register_offset: u8) -> u32 {
        let address = self.cam.cam_offset(device_function, register_offset);""",
  """    fn read_word(&self, device_function: DeviceFunction, register_offset: u8) -> u32 {
        let address = self.cam.cam_offset(device_function, register_offset & 0);"""),
 ('H22 set_status writes the status as a u32 (four bytes at device_status)', 'C11', X,
  "        configwrite!(self.common_cfg, device_status, status.bits() as u8);",
  "        configwrite!(self.common_cfg, device_status, status.bits());"),
 ('H23 SomeTransport::HypPci::notify forwards to queue 0', 'C11', 'src/transport/some.rs',
  "            Self::HypPci(pci) => pci.notify(queue),",
  "            Self::HypPci(pci) => pci.notify(queue & 0),"),
]

def sh(cmd, cwd, timeout=3000, env=None):
    p = subprocess.run(cmd, shell=True, cwd=cwd, stdout=subprocess.PIPE, stderr=subprocess.STDOUT, text=True, timeout=timeout, env=env)
    return p.returncode, p.stdout

rows = []
only = sys.argv[1:]
env = dict(os.environ, VERIF_REPO=R, VERIF_SKIP_PROOFS='1')
for name, prop, rel, a, b in MUTS:
    if only and name.split()[0] not in only: continue
    F = os.path.join(R, rel)
    orig = open(F).read()
    try:
        assert orig.count(a) == 1, name
        open(F, 'w').write(orig.replace(a, b, 1))
        rc, out = sh('CARGO_TARGET_DIR=%s/target cargo test --offline 2>&1 | grep -E "^test result|error(\\[|:)" | head -5' % R, R)
        tests_ok = 'test result: ok. 57 passed' in out
        shutil.rmtree(os.path.join(V, 'replays', prop), ignore_errors=True)
        rc, out = sh('./check %s' % prop, V, env=env)
        lines = [l for l in out.splitlines() if l.startswith(('VIOLATION', 'OK', 'NOTE', 'BROKEN', 'KNOWN'))]
        verdict, detail = 'missed', ''
        vio = [l for l in lines if l.startswith('VIOLATION')]
        if vio:
            if any('no-failing-input-found' in l for l in vio): verdict = 'no-failing-input-found'
            else:
                verdict = 'monitor VIOLATION with replay'
                kinds, first = set(), ''
                for l in vio:
                    m2 = re.search(r'replay=(\S+)', l)
                    meta = open(os.path.join(V, m2.group(1))).readline()
                    k = re.search(r'"kind": "(\d+)", "scenario": "([^"]+)"', meta)
                    if k:
                        kinds.add(k.group(1))
                        if not first: first = '%s (%s)' % (m2.group(1), k.group(2))
                detail = 'monitor kinds %s; first: %s' % (sorted(kinds), first)
        notes = [l for l in lines if l.startswith('NOTE')]
        rows.append(dict(mutation=name, property=prop, file=rel, tests='pass' if tests_ok else 'FAIL: ' + out[-200:], verdict=verdict, detail=detail,
                         note=notes[0][:200] if notes else ''))
        print(rows[-1], flush=True)
    finally:
        open(F, 'w').write(orig)
        sh('git checkout %s' % rel, R)
        shutil.rmtree(os.path.join(V, 'replays', prop), ignore_errors=True)
json.dump(rows, open(os.path.join(V, 'tools', 'c11_hyp_mutation_results%s.json' % ('_'.join(only))), 'w'), indent=1)
