//! splitmix64: the single source of every random choice (seeded from VERIF_SEED).
#[derive(Clone)]
pub struct Rng(pub u64);
impl Rng {
    pub fn new(seed: u64) -> Self { Rng(seed.wrapping_mul(0x9E3779B97F4A7C15) ^ 0xD1B54A32D192ED03) }
    pub fn next(&mut self) -> u64 {
        self.0 = self.0.wrapping_add(0x9E3779B97F4A7C15);
        let mut z = self.0;
        z = (z ^ (z >> 30)).wrapping_mul(0xBF58476D1CE4E5B9);
        z = (z ^ (z >> 27)).wrapping_mul(0x94D049BB133111EB);
        z ^ (z >> 31)
    }
    pub fn below(&mut self, n: u64) -> u64 { if n == 0 { 0 } else { self.next() % n } }
    pub fn range(&mut self, lo: u64, hi: u64) -> u64 { lo + self.below(hi - lo + 1) }
    pub fn chance(&mut self, num: u64, den: u64) -> bool { self.below(den) < num }
    pub fn pick<'a, T>(&mut self, v: &'a [T]) -> &'a T { &v[self.below(v.len() as u64) as usize] }
    pub fn shuffle<T>(&mut self, v: &mut [T]) {
        for i in (1..v.len()).rev() { let j = self.below(i as u64 + 1) as usize; v.swap(i, j); }
    }
    pub fn bytes(&mut self, n: usize) -> Vec<u8> { (0..n).map(|_| self.next() as u8).collect() }
    /// boundary-directed value below 2^bits
    pub fn boundary(&mut self, bits: u32) -> u64 {
        let max = if bits >= 64 { u64::MAX } else { (1u64 << bits) - 1 };
        let ks = [0u32, 1, 8, 12, 15, 16, 31, 32, 63];
        match self.below(4) {
            0 => self.next() & max,
            1 => { let k = *self.pick(&ks); let b = if k >= 64 {0} else {1u64 << k};
                   (b.wrapping_add(self.below(5)).wrapping_sub(2)) & max }
            2 => max - self.below(4).min(max),
            _ => self.below(16) & max,
        }
    }
}
