//! Trace file: `@ scenario` separators and `kind in.. | out..` lines (decimal numbers).
use std::fmt::Write as _;
use std::collections::BTreeMap;
pub struct Trace { pub out: Option<std::fs::File>, pub buf: String, pub lines: usize, pub kinds: BTreeMap<u64, u64>, pub scenarios: usize,
    pub notes: BTreeMap<String, u64>, pub written: u64 }
/// quick-tier traces are tens of MB, thorough ones a few hundred MB
pub const TRACE_LIMIT: u64 = 3 << 30;
impl Trace {
    pub fn new() -> Self { Trace { out: None, buf: String::new(), lines: 0, kinds: BTreeMap::new(), scenarios: 0, notes: BTreeMap::new(), written: 0 } }
    /// start a new scenario; everything written so far is flushed to the file, so that a run that does not
    /// terminate still leaves the trace of what it did
    pub fn scenario(&mut self, name: &str) {
        self.flush(); let _ = writeln!(self.buf, "@ {}", name); self.scenarios += 1;
        // the alloc-less build of the crate: every scenario tells the runner to replay it through Model/QueueNoAlloc.v (kind 3)
        #[cfg(not(feature = "alloc"))]
        self.line(3, &[], &[]);
        self.flush();
    }
    pub fn flush(&mut self) {
        use std::io::Write as _;
        if let Some(f) = self.out.as_mut() {
            let _ = f.write_all(self.buf.as_bytes()); let _ = f.flush();
            self.written += self.buf.len() as u64; self.buf.clear();
            // a scenario that produces output without end on the tree under test (a driver that stops making progress):
            // stop with a marker instead of filling the disk; ./check reports the scenario as a run that did not finish
            if self.written > TRACE_LIMIT {
                let _ = f.write_all(b"# TRACE LIMIT exceeded: the scenario above does not finish on this tree\n"); let _ = f.flush();
                eprintln!("trace limit exceeded"); std::process::exit(5);
            }
        }
    }
    pub fn comment(&mut self, s: &str) { let _ = writeln!(self.buf, "# {}", s); }
    pub fn line(&mut self, kind: u64, ins: &[u128], outs: &[u128]) {
        let _ = write!(self.buf, "{}", kind);
        for i in ins { let _ = write!(self.buf, " {}", i); }
        self.buf.push_str(" |");
        for o in outs { let _ = write!(self.buf, " {}", o); }
        self.buf.push('\n');
        self.lines += 1; *self.kinds.entry(kind).or_insert(0) += 1;
        if self.buf.len() > (1 << 16) { self.flush(); }
    }
    /// histogram entry for the evidence file
    pub fn note(&mut self, key: &str) { *self.notes.entry(key.to_string()).or_insert(0) += 1; }
    pub fn note_n(&mut self, key: &str, n: u64) { *self.notes.entry(key.to_string()).or_insert(0) += n; }
    pub fn finish(&mut self) {
        let mut s = String::from("# STATS");
        for (k, v) in &self.notes { let _ = write!(s, " {}={}", k.replace(' ', "_"), v); }
        let _ = writeln!(self.buf, "{}", s);
        self.flush();
    }
}

impl Drop for Trace {
    /// a panic of the harness itself (outside catch_unwind) unwinds through the context: what was recorded is kept
    fn drop(&mut self) { self.flush(); }
}
