//! Fault injection on the heap: the harness's global allocator (scen/c09.rs HookAlloc) forwards to the system allocator, except that the
//! calling thread can arm it to refuse the next `count` allocations of exactly `size` bytes (a fault at a particular
//! point: e.g. the indirect descriptor table of one `VirtQueue::add`). Thread-local plain cells only: nothing here
//! allocates or needs a destructor.
use std::cell::Cell;

thread_local! {
    static ARM_SIZE: Cell<usize> = const { Cell::new(0) };
    static ARM_COUNT: Cell<u32> = const { Cell::new(0) };
    static HITS: Cell<u32> = const { Cell::new(0) };
}

#[inline]
pub fn refuse(size: usize) -> bool {
    let armed = ARM_COUNT.try_with(|c| c.get()).unwrap_or(0);
    if armed == 0 { return false; }
    if ARM_SIZE.try_with(|s| s.get()).unwrap_or(0) != size { return false; }
    let _ = ARM_COUNT.try_with(|c| c.set(armed - 1));
    let _ = HITS.try_with(|h| h.set(h.get() + 1));
    true
}

/// refuse the next `count` allocations of exactly `size` bytes made by this thread
pub fn arm(size: usize, count: u32) { ARM_SIZE.with(|s| s.set(size)); HITS.with(|h| h.set(0)); ARM_COUNT.with(|c| c.set(count)); }
/// stop refusing; returns how many allocations were refused since `arm`
pub fn disarm() -> u32 { ARM_COUNT.with(|c| c.set(0)); HITS.with(|h| h.get()) }
