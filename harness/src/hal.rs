//! LedgerHal: an instrumented platform layer.
//!  * DMA regions live at device addresses disjoint from their virtual addresses,
//!  * every shared buffer is bounced to a fresh device address (copy-in at share for
//!    device-readable buffers, copy-back at unshare for device-writable ones),
//!  * a ledger of live regions / shares reports contract violations immediately,
//!  * the k-th dma_alloc can be made to fail,
//!  * every call is appended to one global ordered event log (shared with the transport).
use std::cell::RefCell;
use std::ptr::NonNull;
use virtio_drivers::{BufferDirection, Hal, PhysAddr};

pub const PAGE: usize = 4096;

#[derive(Clone, Debug, PartialEq)]
pub enum Ev {
    Alloc { pages: usize, dir: u8, paddr: u64 },
    Dealloc { paddr: u64, pages: usize, ok: bool },
    Share { vaddr: usize, len: usize, dir: u8, paddr: u64 },
    Unshare { paddr: u64, vaddr: usize, len: usize, dir: u8, ok: bool },
    MmioMap { paddr: u64, size: usize },
    // transport-level events (ModelTransport)
    SetStatus(u32),
    ReadFeatures,
    WriteFeatures(u64),
    MaxQueueSize(u16),
    Notify(u16),
    GuestPageSize(u32),
    QueueSet { q: u16, size: u32, desc: u64, drv: u64, dev: u64, nonzero: u64 },
    QueueUnset(u16),
    QueueUsed(u16),
    AckInterrupt,
    ReadGen,
    ReadConfig { off: usize, len: usize },
    WriteConfig { off: usize, len: usize },
    TransportDrop,
    // register level (emulated MMIO): dir 0 = read, 1 = write
    Mmio { region: u32, write: bool, off: u64, width: u8, val: u64 },
    // verif hooks in /repo
    Store { what: u8, index: u32, val: u64 },
    StoreDesc { index: u32, addr: u64, len: u32, flags: u16, next: u16 },
    Fence,
    Spin(u8),
}

pub fn dir_code(d: BufferDirection) -> u8 {
    match d { BufferDirection::DriverToDevice => 0, BufferDirection::DeviceToDriver => 1, BufferDirection::Both => 2 }
}

pub struct Region { pub paddr: u64, pub vaddr: usize, pub pages: usize, pub dir: u8, pub live: bool, pub ap: bool }
/// `orig`: the driver-side bytes as they were when the buffer was handed over (after poisoning): the driver must not touch a
/// buffer while the device owns it, so they must be the same when it is taken back
pub struct Share { pub paddr: u64, pub vaddr: usize, pub len: usize, pub dir: u8, pub bounce: Vec<u8>, pub live: bool, pub ap: bool, pub orig: Vec<u8> }
pub struct MmioWin { pub paddr: u64, pub size: u64, pub vbase: usize }

pub struct Ledger {
    pub regions: Vec<Region>,
    pub shares: Vec<Share>,
    pub log: Vec<Ev>,
    pub violations: Vec<String>,
    pub next_dma: u64,
    pub next_share: u64,
    pub alloc_count: usize,
    pub fail_alloc_at: Option<usize>,
    /// physical MMIO windows the platform is willing to map (PCI BARs): paddr -> fake vaddr
    pub mmio: Vec<MmioWin>,
    pub quarantine: Vec<(usize, usize)>,
    /// device addresses for shares are handed out from 0 upwards whenever the bottom of the space is free (an IOMMU-style
    /// platform: 0 is a legal device address for a shared buffer)
    pub share_zero: bool,
}

impl Ledger {
    fn new() -> Self {
        Ledger { regions: vec![], shares: vec![], log: vec![], violations: vec![],
            next_dma: 0x4000_0000_0000, next_share: 0x5000_0000_0010, alloc_count: 0,
            fail_alloc_at: None, mmio: vec![], quarantine: vec![], share_zero: false }
    }
}

thread_local! {
    /// poison the driver-side copy of device-writable buffers while they are shared (default on)
    pub static POISON_ON_SHARE: std::cell::Cell<bool> = std::cell::Cell::new(true);
}
thread_local! { pub static LEDGER: RefCell<Ledger> = RefCell::new(Ledger::new()); }

pub fn reset() {
    LEDGER.with(|l| {
        let mut l = l.borrow_mut();
        // free memory of regions still live (leaks of the driver are reported by the scenario first)
        let regs: Vec<(usize, usize, bool)> = l.regions.iter().map(|r| (r.vaddr, r.pages, r.live)).collect();
        for (v, p, live) in regs { if live { unsafe { free_pages(v, p) } } }
        let q = std::mem::take(&mut l.quarantine);
        for (v, p) in q { unsafe { free_pages(v, p) } }
        *l = Ledger::new();
    });
}
pub fn push(e: Ev) { LEDGER.with(|l| l.borrow_mut().log.push(e)); }
pub fn take_log() -> Vec<Ev> { LEDGER.with(|l| std::mem::take(&mut l.borrow_mut().log)) }
pub fn log_len() -> usize { LEDGER.with(|l| l.borrow().log.len()) }
pub fn log_since(n: usize) -> Vec<Ev> { LEDGER.with(|l| l.borrow().log[n..].to_vec()) }
pub fn violations() -> Vec<String> { LEDGER.with(|l| l.borrow().violations.clone()) }
pub fn violate(s: String) { LEDGER.with(|l| l.borrow_mut().violations.push(s)); }
pub fn fail_alloc_at(k: Option<usize>) { LEDGER.with(|l| { let mut l = l.borrow_mut(); l.fail_alloc_at = k; l.alloc_count = 0; }); }
pub fn share_from_zero(on: bool) { LEDGER.with(|l| l.borrow_mut().share_zero = on); }
pub fn live_regions() -> usize { LEDGER.with(|l| l.borrow().regions.iter().filter(|r| r.live).count()) }
pub fn live_shares() -> usize { LEDGER.with(|l| l.borrow().shares.iter().filter(|r| r.live).count()) }
pub fn live_share_list() -> Vec<(u64, usize, usize, u8)> {
    LEDGER.with(|l| l.borrow().shares.iter().filter(|s| s.live).map(|s| (s.paddr, s.vaddr, s.len, s.dir)).collect())
}

unsafe fn alloc_pages(pages: usize) -> usize {
    let layout = std::alloc::Layout::from_size_align(pages.max(1) * PAGE, PAGE).unwrap();
    std::alloc::alloc_zeroed(layout) as usize
}
unsafe fn free_pages(v: usize, pages: usize) {
    let layout = std::alloc::Layout::from_size_align(pages.max(1) * PAGE, PAGE).unwrap();
    std::alloc::dealloc(v as *mut u8, layout)
}

/// Device-side access to memory by device address. Only live DMA regions and live shares resolve.
pub fn dev_read(paddr: u64, len: usize) -> Result<Vec<u8>, String> {
    LEDGER.with(|l| {
        let l = l.borrow();
        for r in l.regions.iter().filter(|r| r.live) {
            if paddr >= r.paddr && paddr + len as u64 <= r.paddr + (r.pages * PAGE) as u64 {
                let off = (paddr - r.paddr) as usize;
                let mut v = vec![0u8; len];
                unsafe { std::ptr::copy_nonoverlapping((r.vaddr + off) as *const u8, v.as_mut_ptr(), len) };
                return Ok(v);
            }
        }
        for s in l.shares.iter().filter(|s| s.live) {
            if paddr >= s.paddr && paddr + len as u64 <= s.paddr + s.len as u64 {
                let off = (paddr - s.paddr) as usize;
                return Ok(s.bounce[off..off + len].to_vec());
            }
        }
        Err(format!("device address {:#x}+{} is neither live DMA nor a live share", paddr, len))
    })
}
pub fn dev_write(paddr: u64, data: &[u8]) -> Result<(), String> {
    LEDGER.with(|l| {
        let mut l = l.borrow_mut();
        let len = data.len();
        for r in l.regions.iter().filter(|r| r.live) {
            if paddr >= r.paddr && paddr + len as u64 <= r.paddr + (r.pages * PAGE) as u64 {
                let off = (paddr - r.paddr) as usize;
                unsafe { std::ptr::copy_nonoverlapping(data.as_ptr(), (r.vaddr + off) as *mut u8, len) };
                return Ok(());
            }
        }
        for s in l.shares.iter_mut().filter(|s| s.live) {
            if paddr >= s.paddr && paddr + len as u64 <= s.paddr + s.len as u64 {
                let off = (paddr - s.paddr) as usize;
                s.bounce[off..off + len].copy_from_slice(data);
                return Ok(());
            }
        }
        Err(format!("device write to {:#x}+{}: neither live DMA nor a live share", paddr, len))
    })
}
pub fn dev_read_u16(p: u64) -> Result<u16, String> { dev_read(p, 2).map(|b| u16::from_le_bytes([b[0], b[1]])) }
pub fn dev_read_u32(p: u64) -> Result<u32, String> { dev_read(p, 4).map(|b| u32::from_le_bytes([b[0], b[1], b[2], b[3]])) }
pub fn dev_read_u64(p: u64) -> Result<u64, String> { dev_read(p, 8).map(|b| u64::from_le_bytes(b.try_into().unwrap())) }
pub fn dev_write_u16(p: u64, v: u16) -> Result<(), String> { dev_write(p, &v.to_le_bytes()) }
pub fn dev_write_u32(p: u64, v: u32) -> Result<(), String> { dev_write(p, &v.to_le_bytes()) }

/// Which share (if any) starts exactly at this device address: (vaddr, len, dir)
pub fn share_at(paddr: u64) -> Option<(usize, usize, u8)> {
    LEDGER.with(|l| l.borrow().shares.iter().find(|s| s.live && s.paddr == paddr).map(|s| (s.vaddr, s.len, s.dir)))
}
pub fn region_of(paddr: u64, len: u64) -> Option<(u64, usize, u8)> {
    LEDGER.with(|l| l.borrow().regions.iter().find(|r| r.live && paddr >= r.paddr && paddr + len <= r.paddr + (r.pages * PAGE) as u64)
        .map(|r| (r.paddr, r.pages, r.dir)))
}
pub fn add_mmio_window(paddr: u64, size: u64, vbase: usize) {
    LEDGER.with(|l| l.borrow_mut().mmio.push(MmioWin { paddr, size, vbase }));
}

pub struct LedgerHal;

unsafe impl Hal for LedgerHal {
    fn dma_alloc(pages: usize, direction: BufferDirection, ap: bool) -> (PhysAddr, NonNull<u8>) {
        LEDGER.with(|l| {
            let mut l = l.borrow_mut();
            let k = l.alloc_count;
            l.alloc_count += 1;
            if l.fail_alloc_at == Some(k) {
                l.log.push(Ev::Alloc { pages, dir: dir_code(direction), paddr: 0 });
                return (0, NonNull::dangling());
            }
            let vaddr = unsafe { alloc_pages(pages) };
            let paddr = l.next_dma;
            // leave an unmapped guard page between regions
            l.next_dma += ((pages.max(1) + 1) * PAGE) as u64;
            l.regions.push(Region { paddr, vaddr, pages, dir: dir_code(direction), live: true, ap });
            l.log.push(Ev::Alloc { pages, dir: dir_code(direction), paddr });
            (paddr, NonNull::new(vaddr as *mut u8).unwrap())
        })
    }

    unsafe fn dma_dealloc(paddr: PhysAddr, vaddr: NonNull<u8>, pages: usize, ap: bool) -> i32 {
        LEDGER.with(|l| {
            let mut l = l.borrow_mut();
            let mut ok = false;
            let mut to_free = None;
            if let Some(r) = l.regions.iter_mut().find(|r| r.live && r.paddr == paddr) {
                // a platform that maps through an IOMMU only when VIRTIO_F_ACCESS_PLATFORM was negotiated must be told the
                // same thing when the region is returned as when it was obtained
                if r.vaddr == vaddr.as_ptr() as usize && r.pages == pages && r.ap == ap {
                    ok = true;
                    r.live = false;
                    to_free = Some((r.vaddr, r.pages));
                }
            }
            if !ok {
                l.violations.push(format!("dma_dealloc({:#x}, {:#x}, {}) does not match a live allocation", paddr, vaddr.as_ptr() as usize, pages));
            }
            if let Some((v, p)) = to_free {
                // poison, then keep small regions in quarantine so that a late driver access does not fault
                unsafe { std::ptr::write_bytes(v as *mut u8, 0xDD, p * PAGE) };
                if p <= 8 && l.quarantine.len() < 4096 { l.quarantine.push((v, p)); } else { unsafe { free_pages(v, p) } }
            }
            l.log.push(Ev::Dealloc { paddr, pages, ok });
            0
        })
    }

    unsafe fn mmio_phys_to_virt(paddr: PhysAddr, size: usize) -> NonNull<u8> {
        LEDGER.with(|l| {
            let mut l = l.borrow_mut();
            l.log.push(Ev::MmioMap { paddr, size });
            let hit = l.mmio.iter().find(|w| paddr >= w.paddr && (paddr as u128) + (size as u128) <= (w.paddr as u128) + (w.size as u128))
                .map(|w| w.vbase + (paddr - w.paddr) as usize);
            match hit {
                Some(v) => NonNull::new(v as *mut u8).unwrap(),
                None => {
                    l.violations.push(format!("mmio_phys_to_virt({:#x}, {:#x}) outside every BAR window", paddr, size));
                    // a fake, never dereferenced address (the MMIO backend reports accesses through it)
                    NonNull::new((0x7F00_0000_0000usize + (paddr as usize & 0xFFFF_FFF0)) as *mut u8).unwrap()
                }
            }
        })
    }

    unsafe fn share(buffer: NonNull<[u8]>, direction: BufferDirection, ap: bool) -> PhysAddr {
        LEDGER.with(|l| {
            let mut l = l.borrow_mut();
            let len = buffer.len();
            let vaddr = buffer.as_ptr() as *mut u8 as usize;
            let dir = dir_code(direction);
            let mut bounce = vec![0u8; len];
            if dir == 0 || dir == 2 {
                unsafe { std::ptr::copy_nonoverlapping(vaddr as *const u8, bounce.as_mut_ptr(), len) };
            }
            if dir == 1 && POISON_ON_SHARE.with(|p| p.get()) {
                // A device-writable buffer belongs to the device until it is unshared: what the driver side holds in
                // the meantime is unspecified (a bounce-buffer platform copies back at unshare). Poisoning it makes a
                // driver that delivers data from a buffer it has already re-posted observable (C19, C15, C16, C18).
                unsafe { std::ptr::write_bytes(vaddr as *mut u8, 0xa5, len) };
            }
            let span = ((len as u64 + 15) & !15) + 16;
            let paddr = if l.share_zero && !l.shares.iter().any(|s| s.live && s.paddr < span) { 0 } else { let p = l.next_share; l.next_share += span; p };
            let orig = unsafe { std::slice::from_raw_parts(vaddr as *const u8, len) }.to_vec();
            l.shares.push(Share { paddr, vaddr, len, dir, bounce, live: true, ap, orig });
            l.log.push(Ev::Share { vaddr, len, dir, paddr });
            paddr
        })
    }

    unsafe fn unshare(paddr: PhysAddr, buffer: NonNull<[u8]>, direction: BufferDirection, ap: bool) {
        LEDGER.with(|l| {
            let mut l = l.borrow_mut();
            let len = buffer.len();
            let vaddr = buffer.as_ptr() as *mut u8 as usize;
            let dir = dir_code(direction);
            let mut ok = false;
            let mut touched = false;
            if let Some(s) = l.shares.iter_mut().find(|s| s.live && s.paddr == paddr) {
                if s.vaddr == vaddr && s.len == len && s.dir == dir && s.ap == ap {
                    ok = true;
                    s.live = false;
                    // the device owned the buffer from share to unshare: the driver must not have written to its side of it
                    // (on a platform that shares in place such a write lands in what the device is reading or has written)
                    if dir != 2 && unsafe { std::slice::from_raw_parts(vaddr as *const u8, len) } != &s.orig[..] { touched = true; }
                    if dir == 1 || dir == 2 {
                        unsafe { std::ptr::copy_nonoverlapping(s.bounce.as_ptr(), vaddr as *mut u8, len) };
                    }
                }
            }
            if !ok {
                l.violations.push(format!("unshare({:#x}, {:#x}+{}, dir {}, access_platform {}) does not match a live share", paddr, vaddr, len, dir, ap));
            }
            if touched {
                l.violations.push(format!("the driver wrote to its side of a buffer while it was shared with the device ({:#x}+{}, dir {})", vaddr, len, dir));
            }
            l.log.push(Ev::Unshare { paddr, vaddr, len, dir, ok });
        })
    }
}
