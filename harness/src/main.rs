//! vharness: runs the REAL virtio-drivers code (built from /repo's working tree, hooks on) on
//! generated scenarios and writes a trace of inputs, environment answers and observations.
//! usage: vharness <property> <tier> <seed> <out-file>
#![allow(dead_code)]
mod hal;
mod rng;
mod scen;
mod tport;
mod trace;
mod mmio;
mod falloc;


pub struct Ctx { pub tier_thorough: bool, pub seed: u64, pub rng: rng::Rng, pub tr: trace::Trace, pub release: bool }
impl Ctx {
    /// number of cases: quick n, thorough n * mult
    pub fn budget(&self, quick: u64, mult: u64) -> u64 { if self.tier_thorough { quick * mult } else { quick } }
}

fn main() {
    let a: Vec<String> = std::env::args().collect();
    if a.len() < 5 { eprintln!("usage: vharness <property> <quick|thorough> <seed> <out>"); std::process::exit(2); }
    let seed: u64 = a[3].parse().unwrap_or(1);
    let prop = a[1].clone();
    let thorough = a[2] == "thorough";
    let out = a[4].clone();
    // quiet panics: scenarios use catch_unwind to classify outcomes
    std::panic::set_hook(Box::new(|_| {}));
    let child = std::thread::Builder::new().stack_size(256 << 20).spawn(move || {
        let mut ctx = Ctx { tier_thorough: thorough, seed, rng: rng::Rng::new(seed), tr: trace::Trace::new(),
            release: !cfg!(debug_assertions) };
        ctx.tr.out = Some(std::fs::File::create(&out).expect("create trace"));
        ctx.tr.comment(&format!("property={} tier={} seed={} profile={}", prop, if thorough {"thorough"} else {"quick"}, seed,
            if ctx.release {"release"} else {"debug"}));
        let ok = scen::run(&prop, &mut ctx);
        if !ok { eprintln!("unknown property {}", prop); std::process::exit(2); }
        ctx.tr.finish();
    }).unwrap();
    if child.join().is_err() { eprintln!("harness thread panicked"); std::process::exit(3); }
}
