//! C11: the real `PciTransport` (and `SomeTransport::Pci`) over an emulated PCI function.
//!  * configuration space: the twin of the reference PCI function of Model/PciBus.v (scen/c12.rs `RefFn`
//!    behind `ConfigurationAccess`, ordered access log), filled with generated capability lists (any
//!    order, duplicates, short / foreign / overrunning capabilities, reserved bar values) and BAR sets;
//!  * BAR memory: every allocated memory BAR is a physical window of `LedgerHal::mmio_phys_to_virt`
//!    (a request outside every BAR is a ledger violation) mapped to a fake virtual window of the custom
//!    MMIO backend, so that every later register access of the transport is observed with its address;
//!  * trace lines: 1101 new (result, mmio_phys_to_virt requests, final function, configuration accesses:
//!    all predicted by the model), 1102 MONITOR new_conform_b, 1110 one operation (predicted from the
//!    transport the MODEL built), 1111 MONITOR pci_conform_b, 1121 MONITOR over the whole life of a
//!    transport, 1251/1252 (C12 monitors: command and BAR registers as before), 1 ledger.
use super::c12::{aligned_addr, enc_log, RefFn, Slot, Spec, Twin, DSLOT};
use crate::hal::{self, Ev, LedgerHal};
use crate::mmio::{self, MmioDev};
use crate::Ctx;
use std::cell::RefCell;
use std::collections::VecDeque;
use std::panic::{catch_unwind, AssertUnwindSafe};
use std::rc::Rc;
use virtio_drivers::transport::pci::bus::{Cam, ConfigurationAccess, DeviceFunction, DeviceFunctionInfo, HeaderType, MmioCam, PciError, PciRoot};
use virtio_drivers::transport::pci::{virtio_device_type, PciTransport, VirtioPciError};
use virtio_drivers::transport::{DeviceStatus, SomeTransport, Transport};

const VB0: usize = 0x2000_0000_0000;
const VSTEP: usize = 0x0100_0000_0000;
const MMIO_EXTENT: u64 = 1 << 34;
const CAM_VBASE: usize = 0x1800_0000_0000;

// the same generated PCI functions are also given to the x86-64 hypercall transport (scen/c11_hyp.rs): `run_hyp`
thread_local! { static HYP: std::cell::Cell<bool> = const { std::cell::Cell::new(false) }; }
fn hyp() -> bool { HYP.with(|h| h.get()) }
fn scen(ctx: &mut Ctx, name: &str) { if hyp() { ctx.tr.scenario(&name.replace("c11-", "c11-hyp-")); } else { ctx.tr.scenario(name); } }

/// configuration space reached through the real `MmioCam` over the custom MMIO backend: the CAM window decodes
/// the offset back to (bus, device, function, register) and serves it from the twin
struct CamWin { twin: Twin, cam: Cam }
impl CamWin {
    fn decode(&self, off: u64) -> Option<(DeviceFunction, u8)> {
        let (bdf, reg) = match self.cam { Cam::MmioCam => (off >> 8, off & 0xff), Cam::Ecam => (off >> 12, off & 0xfff) };
        if reg > 0xff { return None; }
        Some((DeviceFunction { bus: (bdf >> 8) as u8, device: ((bdf >> 3) & 31) as u8, function: (bdf & 7) as u8 }, reg as u8))
    }
}
impl MmioDev for CamWin {
    fn read(&mut self, off: u64, _w: u8) -> u64 { match self.decode(off) { Some((df, reg)) => self.twin.read_word(df, reg) as u64, None => 0xffff_ffff } }
    fn write(&mut self, off: u64, _w: u8, v: u64) { if let Some((df, reg)) = self.decode(off) { self.twin.write_word(df, reg, v as u32); } }
}

// ---------------------------------------------------------------- emulated BAR memory
struct BarDev(Rc<RefCell<VecDeque<u64>>>);
impl MmioDev for BarDev {
    fn read(&mut self, _off: u64, width: u8) -> u64 {
        let v = self.0.borrow_mut().pop_front().unwrap_or(0);
        if width >= 8 { v } else { v & ((1u64 << (8 * width as u32)) - 1) }
    }
    fn write(&mut self, _off: u64, _width: u8, _val: u64) {}
}
#[derive(Clone, Copy, Debug)]
pub struct BarMap { pub idx: usize, pub paddr: u64, pub size: u64, pub vbase: usize }

/// one capability structure as it is laid into configuration space
#[derive(Clone, Copy, Debug)]
pub struct Cap { pub at: u8, pub id: u8, pub cap_len: u8, pub cfg_type: u8, pub bar: u8, pub offset: u32, pub length: u32, pub mult: u32 }

/// a whole PCI function plus the platform's view of its BARs
#[derive(Clone)]
pub struct Dev { pub f: RefFn, pub maps: Vec<BarMap> }

fn spec_truth(sp: &Spec) -> Option<(u64, u64)> {
    match *sp {
        Spec::Mem { k, addr, .. } => Some((addr as u64, 1u64 << k)),
        Spec::Mem64 { k, addr, .. } => Some((addr, 1u64 << k)),
        _ => None,
    }
}
/// lay `specs` into the six registers in order; returns the registers and (slot, spec) of each BAR start
pub fn layout(specs: &[Spec]) -> ([Slot; 6], Vec<(usize, Spec)>) {
    let mut bars = [DSLOT; 6];
    let mut starts = vec![];
    let mut i = 0;
    for sp in specs {
        let ss = sp.slots();
        if i + ss.len() > 6 { break; }
        starts.push((i, *sp));
        for (j, s) in ss.iter().enumerate() { bars[i + j] = *s; }
        i += ss.len();
    }
    (bars, starts)
}
/// `mis[i]`: misalignment of the virtual mapping of the BAR starting in slot i
pub fn build_dev(vendor_device: u32, cmd: u16, status: u16, bars: [Slot; 6], starts: &[(usize, Spec)], mis: &[usize; 6], caps: &[Cap], ptr_noise: u32, term: u8) -> Dev {
    let mut f = RefFn::new(cmd, status | if caps.is_empty() { 0 } else { 0x0010 }, bars);
    f.regs[0] = vendor_device;
    for (i, c) in caps.iter().enumerate() {
        let nx = if i + 1 < caps.len() { caps[i + 1].at } else { term };
        let put = |f: &mut RefFn, off: usize, v: u32| { if off + 4 <= 256 && off >= 0x40 { f.regs[off / 4] = v; } };
        let at = c.at as usize;
        put(&mut f, at, c.id as u32 | (nx as u32) << 8 | (c.cap_len as u32) << 16 | (c.cfg_type as u32) << 24);
        put(&mut f, at + 4, c.bar as u32 | (ptr_noise & 0xffff_ff00));
        put(&mut f, at + 8, c.offset);
        put(&mut f, at + 12, c.length);
        if c.cfg_type == 2 || c.cap_len >= 20 { put(&mut f, at + 16, c.mult); }
    }
    if let Some(c) = caps.first() { f.regs[0x34 / 4] = c.at as u32 | (ptr_noise & 0xffff_ff03); }
    let mut maps = vec![];
    for (slot, sp) in starts {
        if let Some((a, sz)) = spec_truth(sp) {
            if a != 0 { maps.push(BarMap { idx: *slot, paddr: a, size: sz, vbase: VB0 + *slot * VSTEP + mis[*slot] }); }
        }
    }
    Dev { f, maps }
}

fn answer_for(maps: &[BarMap], paddr: u64, size: usize) -> usize {
    for w in maps {
        if paddr >= w.paddr && (paddr as u128) + (size as u128) <= (w.paddr as u128) + (w.size as u128) {
            return w.vbase + (paddr - w.paddr) as usize;
        }
    }
    0x7F00_0000_0000usize + (paddr as usize & 0xFFFF_FFF0)
}

// ---------------------------------------------------------------- the specification's selection, on raw bytes
fn byte(regs: &RefFn, a: usize) -> u32 { if a >= 256 { 0 } else { (regs.read((a & !3) as u8) >> (8 * (a & 3))) & 0xff } }
pub fn le32(regs: &RefFn, a: usize) -> u32 { byte(regs, a) | byte(regs, a + 1) << 8 | byte(regs, a + 2) << 16 | byte(regs, a + 3) << 24 }
/// capability offsets in list order; None when the list is cyclic (never given to the real code)
pub fn walk(f: &RefFn) -> Option<Vec<usize>> {
    if f.status & 0x0010 == 0 { return Some(vec![]); }
    let mut cur = (f.read(0x34) & 0xfc) as usize;
    let mut out = vec![];
    loop {
        if out.len() > 64 { return None; }
        out.push(cur);
        let nx = byte(f, cur + 1) as usize;
        if nx == 0 || nx < 64 || nx & 3 != 0 { return Some(out); }
        cur = nx;
    }
}
pub fn spec_select(f: &RefFn, offs: &[usize], ty: u32) -> Option<usize> {
    offs.iter().copied().find(|o| byte(f, *o) == 9 && byte(f, o + 3) == ty && byte(f, o + 2) >= if ty == 2 { 20 } else { 16 }
        && o + byte(f, o + 2) as usize <= 256 && byte(f, o + 4) <= 5)
}

// ---------------------------------------------------------------- operations
#[derive(Clone, Copy, Debug)]
pub enum Op {
    DeviceType, ReadFeatures, WriteFeatures(u64), MaxQueueSize(u16), Notify(u16), GetStatus, SetStatus(u32),
    SetGuestPageSize(u32), RequiresLegacy, QueueSet(u16, u32, u64, u64, u64), QueueUnset(u16), QueueUsed(u16), AckInterrupt, Drop,
}
impl Op {
    pub fn code(&self) -> u128 {
        match self { Op::DeviceType => 0, Op::ReadFeatures => 1, Op::WriteFeatures(_) => 2, Op::MaxQueueSize(_) => 3, Op::Notify(_) => 4,
            Op::GetStatus => 5, Op::SetStatus(_) => 6, Op::SetGuestPageSize(_) => 7, Op::RequiresLegacy => 8, Op::QueueSet(..) => 9,
            Op::QueueUnset(_) => 10, Op::QueueUsed(_) => 11, Op::AckInterrupt => 12, Op::Drop => 14 }
    }
    pub fn args(&self) -> [u128; 5] {
        match *self {
            Op::WriteFeatures(f) => [f as u128, 0, 0, 0, 0],
            Op::MaxQueueSize(q) | Op::Notify(q) | Op::QueueUnset(q) | Op::QueueUsed(q) => [q as u128, 0, 0, 0, 0],
            Op::SetStatus(s) | Op::SetGuestPageSize(s) => [s as u128, 0, 0, 0, 0],
            Op::QueueSet(q, n, a, b, c) => [q as u128, n as u128, a as u128, b as u128, c as u128],
            _ => [0; 5],
        }
    }
    pub fn name(&self) -> &'static str {
        match self { Op::DeviceType => "device_type", Op::ReadFeatures => "read_device_features", Op::WriteFeatures(_) => "write_driver_features",
            Op::MaxQueueSize(_) => "max_queue_size", Op::Notify(_) => "notify", Op::GetStatus => "get_status", Op::SetStatus(_) => "set_status",
            Op::SetGuestPageSize(_) => "set_guest_page_size", Op::RequiresLegacy => "requires_legacy_layout", Op::QueueSet(..) => "queue_set",
            Op::QueueUnset(_) => "queue_unset", Op::QueueUsed(_) => "queue_used", Op::AckInterrupt => "ack_interrupt", Op::Drop => "drop" }
    }
}
pub fn apply<T: Transport>(t: &mut T, op: Op) -> u128 {
    match op {
        Op::DeviceType => t.device_type() as u8 as u128,
        Op::ReadFeatures => t.read_device_features() as u128,
        Op::WriteFeatures(f) => { t.write_driver_features(f); 0 }
        Op::MaxQueueSize(q) => t.max_queue_size(q) as u128,
        Op::Notify(q) => { t.notify(q); 0 }
        Op::GetStatus => t.get_status().bits() as u128,
        Op::SetStatus(s) => { t.set_status(DeviceStatus::from_bits_retain(s)); 0 }
        Op::SetGuestPageSize(p) => { t.set_guest_page_size(p); 0 }
        Op::RequiresLegacy => t.requires_legacy_layout() as u128,
        Op::QueueSet(q, n, a, b, c) => { t.queue_set(q, n, a, b, c); 0 }
        Op::QueueUnset(q) => { t.queue_unset(q); 0 }
        Op::QueueUsed(q) => t.queue_used(q) as u128,
        Op::AckInterrupt => t.ack_interrupt().bits() as u128,
        Op::Drop => unreachable!(),
    }
}
enum Tp { P(PciTransport), S(SomeTransport<'static>) }

pub fn enc_err(e: &VirtioPciError) -> [u128; 4] {
    match e {
        VirtioPciError::InvalidDeviceId(id) => [1, 1, *id as u128, 0],
        VirtioPciError::InvalidVendorId(id) => [1, 2, *id as u128, 0],
        VirtioPciError::MissingCommonConfig => [1, 3, 0, 0],
        VirtioPciError::MissingNotifyConfig => [1, 4, 0, 0],
        VirtioPciError::InvalidNotifyOffMultiplier(m) => [1, 5, *m as u128, 0],
        VirtioPciError::MissingIsrConfig => [1, 6, 0, 0],
        VirtioPciError::UnexpectedIoBar => [1, 7, 0, 0],
        VirtioPciError::BarNotAllocated(b) => [1, 8, *b as u128, 0],
        VirtioPciError::BarOffsetOutOfRange => [1, 9, 0, 0],
        VirtioPciError::Misaligned { address, alignment } => [1, 10, *address as u128, *alignment as u128],
        VirtioPciError::Pci(PciError::InvalidBarType) => [1, 11, 100, 0],
    }
}
pub fn err_name(c: u128) -> &'static str {
    match c { 1 => "new_err_device_id", 2 => "new_err_vendor_id", 3 => "new_err_missing_common", 4 => "new_err_missing_notify", 5 => "new_err_multiplier",
        6 => "new_err_missing_isr", 7 => "new_err_io_bar", 8 => "new_err_bar_not_allocated", 9 => "new_err_out_of_range", 10 => "new_err_misaligned", _ => "new_err_pci" }
}

/// a transport under test with what the harness observed about its windows
pub struct Rig { t: Option<Tp>, wrapped: bool, wins: [u128; 7], vbases: Vec<(u32, usize)>, answers: Rc<RefCell<VecDeque<u64>>>, session: Vec<u128> }

fn enc_mmio(vbases: &[(u32, usize)], evs: &[Ev]) -> Vec<u128> {
    let mut o = vec![];
    for e in evs {
        if let Ev::Mmio { region, write, off, width, val } = e {
            let addr = match vbases.iter().find(|(r, _)| r == region) { Some((_, vb)) => *vb as u128 + *off as u128, None => *off as u128 };
            o.extend([*write as u128, addr, *width as u128, *val as u128]);
        }
    }
    o
}

/// PciTransport::new on `dev`; writes lines 1101, 1102, 1251, 1252; returns the rig when a transport came back
pub fn new_case(ctx: &mut Ctx, dev: &Dev, wrapped: bool, claimed: bool) -> Option<Rig> {
    let Some(offs) = walk(&dev.f) else { ctx.tr.note("new_cyclic_skipped"); return None };
    hal::reset();
    mmio::clear();
    let answers = Rc::new(RefCell::new(VecDeque::new()));
    let mut vbases = vec![];
    for w in &dev.maps {
        hal::add_mmio_window(w.paddr, w.size, w.vbase);
        mmio::register(100 + w.idx as u32, w.vbase, w.size.min(MMIO_EXTENT) as usize, Box::new(BarDev(answers.clone())));
        vbases.push((100 + w.idx as u32, w.vbase));
    }
    let df = DeviceFunction { bus: ctx.rng.next() as u8, device: ctx.rng.below(32) as u8, function: ctx.rng.below(8) as u8 };
    let twin = Twin::single(df, dev.f.clone());
    // one run in four goes through the real MmioCam (alternating the two mechanisms) instead of the twin directly
    let via_cam = ctx.rng.below(4) == 0;
    let r = if via_cam {
        let cam = if ctx.rng.chance(1, 2) { Cam::Ecam } else { Cam::MmioCam };
        mmio::register(12, CAM_VBASE, cam.size() as usize, Box::new(CamWin { twin: twin.clone(), cam }));
        // SAFETY (of the real contract): the address is fake and only ever reaches the logging backend
        let mut root = PciRoot::new(unsafe { MmioCam::new(CAM_VBASE as *mut u8, cam) });
        ctx.tr.note("new_via_mmiocam");
        catch_unwind(AssertUnwindSafe(|| PciTransport::new::<LedgerHal, _>(&mut root, df)))
    } else {
        let mut root = PciRoot::new(twin.clone());
        catch_unwind(AssertUnwindSafe(|| PciTransport::new::<LedgerHal, _>(&mut root, df)))
    };
    let cfg_log = twin.take_log();
    let f1 = twin.func(df);
    let reqs: Vec<(u64, usize)> = hal::take_log().iter().filter_map(|e| if let Ev::MmioMap { paddr, size } = e { Some((*paddr, *size)) } else { None }).collect();
    let res: [u128; 4] = match &r { Ok(Ok(t)) => [0, t.device_type() as u8 as u128, 0, 0], Ok(Err(e)) => enc_err(e), Err(_) => [2, 0, 0, 0] };
    // what the platform answered to each request (a call that is not reached consumes no answer)
    let mut vans = [0u128; 4];
    for (i, (p, s)) in reqs.iter().enumerate().take(4) { vans[i] = answer_for(&dev.maps, *p, *s) as u128; }
    let mut ins = vec![ctx.release as u128];
    ins.extend(dev.f.enc());
    ins.extend(dev.f.regs.iter().map(|x| *x as u128));
    ins.extend(vans);
    let mut outs = res.to_vec();
    outs.push(99);
    for (p, s) in &reqs { outs.extend([*p as u128, *s as u128]); }
    outs.extend([99, f1.cmd as u128, f1.status as u128]); outs.extend(f1.vals()); outs.push(99);
    outs.extend(enc_log(&cfg_log));
    ctx.tr.line(1101, &ins, &outs);
    // the property on the observed behaviour
    let mut mi = dev.f.enc();
    mi.extend(dev.f.regs.iter().map(|x| *x as u128));
    mi.extend([res[0], reqs.len() as u128]);
    for (i, (p, s)) in reqs.iter().enumerate() { mi.extend([*p as u128, *s as u128, if i < 4 { vans[i] } else { 0 }]); }
    ctx.tr.line(1102, &mi, &[1]);
    ctx.tr.line(1251, &[dev.f.cmd as u128, f1.cmd as u128], &[1]);
    let mut bi = dev.f.vals(); bi.extend(f1.vals());
    ctx.tr.line(1252, &bi, &[1]);
    match res[0] { 0 => ctx.tr.note("new_ok"), 1 => ctx.tr.note(err_name(res[1])), _ => ctx.tr.note("new_panic") }
    match r {
        Ok(Ok(t)) => {
            let mult = spec_select(&dev.f, &offs, 2).map(|o| le32(&dev.f, o + 16)).unwrap_or(0);
            let g = |i: usize| -> (u128, u128) { if i < reqs.len() { (vans[i], reqs[i].1 as u128) } else { (0, 0) } };
            let wins = [g(0).0, g(0).1, g(1).0, g(1).1, mult as u128, g(2).0, g(2).1];
            let t = if wrapped { Tp::S(t.into()) } else { Tp::P(t) };
            Some(Rig { t: Some(t), wrapped, wins, vbases, answers, session: vec![] })
        }
        _ => {
            if claimed {
                for s in hal::violations() { ctx.tr.comment(&format!("LEDGER: {}", s)); }
                ctx.tr.line(1, &[], &[hal::violations().len() as u128]);
            }
            None
        }
    }
}

impl Rig {
    pub fn op(&mut self, ctx: &mut Ctx, op: Op, answers: &[u64]) {
        *self.answers.borrow_mut() = answers.iter().copied().collect();
        let res: [u128; 2] = match op {
            Op::Drop => { let t = self.t.take(); match catch_unwind(AssertUnwindSafe(move || drop(t))) { Ok(()) => [0, 0], Err(_) => [2, 0] } }
            _ => {
                let t = self.t.as_mut().unwrap();
                match catch_unwind(AssertUnwindSafe(|| match t { Tp::P(p) => apply(p, op), Tp::S(s) => apply(s, op) })) { Ok(v) => [0, v], Err(_) => [2, 0] }
            }
        };
        let tr = enc_mmio(&self.vbases, &hal::take_log());
        let mut ins = vec![self.wrapped as u128, ctx.release as u128, op.code()];
        ins.extend(op.args()); ins.extend(answers.iter().map(|a| *a as u128));
        let mut outs = res.to_vec(); outs.extend(&tr);
        ctx.tr.line(1110, &ins, &outs);
        let mut mi = self.wins.to_vec(); mi.push(op.code()); mi.extend(op.args()); mi.extend(res); mi.extend(&tr);
        ctx.tr.line(1111, &mi, &[1]);
        ctx.tr.note(op.name());
        if res[0] == 2 { ctx.tr.note("op_panicked"); }
        self.session.extend(tr);
    }
    /// drop the transport (the device takes `spin` reads to report the reset done), session monitor, ledger
    pub fn finish(mut self, ctx: &mut Ctx, spin: &[u64]) {
        if self.t.is_some() { self.op(ctx, Op::Drop, spin); }
        let mut mi = self.wins.to_vec(); mi.extend(&self.session);
        ctx.tr.line(1121, &mi, &[1]);
        for s in hal::violations() { ctx.tr.comment(&format!("LEDGER: {}", s)); }
        ctx.tr.line(1, &[], &[hal::violations().len() as u128]);
    }
}

// ---------------------------------------------------------------- generators
const CAP_SLOTS: [u8; 8] = [0x40, 0x58, 0x70, 0x88, 0xa0, 0xb8, 0xd0, 0xe8];
pub fn cap(at: u8, ty: u8, bar: u8, offset: u32, length: u32) -> Cap { Cap { at, id: 9, cap_len: if ty == 2 { 20 } else { 16 }, cfg_type: ty, bar, offset, length, mult: 4 } }

/// a plain, valid device: BAR0 = 16 KiB of 32-bit memory at 0xfe000000 holding the four structures
pub fn base_dev() -> (Vec<Spec>, Vec<Cap>) {
    (vec![Spec::Mem { ty: 0, pf: false, k: 14, m: 32, addr: 0xfe00_0000 }],
     vec![cap(0x40, 1, 0, 0x0000, 0x38), cap(0x58, 3, 0, 0x1000, 1), cap(0x70, 4, 0, 0x2000, 0x100), cap(0x88, 2, 0, 0x3000, 0x100)])
}
pub fn mk(specs: &[Spec], caps: &[Cap]) -> Dev {
    let (bars, starts) = layout(specs);
    build_dev(0x1042_1af4, 0x0006, 0x0000, bars, &starts, &[0; 6], caps, 0, 0)
}

/// one operation with boundary arguments and the answers of the device; `nlen`, `mult`: the notification window
pub fn gen_op(ctx: &mut Ctx, nlen: u64, mult: u64) -> (Op, Vec<u64>) {
    let q = ctx.rng.boundary(16) as u16;
    match ctx.rng.below(14) {
        0 => (Op::DeviceType, vec![]),
        1 => (Op::ReadFeatures, vec![ctx.rng.boundary(32), ctx.rng.boundary(32)]),
        2 => (Op::WriteFeatures(ctx.rng.boundary(64)), vec![]),
        3 => (Op::MaxQueueSize(q), vec![ctx.rng.boundary(16)]),
        4 | 5 => {
            // queue_notify_off around the end of the notification window
            let edge = if mult > 0 { nlen.saturating_sub(2) / mult } else { 0 };
            let off = match ctx.rng.below(5) { 0 => 0, 1 => edge, 2 => edge + 1, 3 => edge.saturating_sub(1), _ => ctx.rng.boundary(16) } & 0xffff;
            (Op::Notify(q), vec![off])
        }
        6 => (Op::GetStatus, vec![ctx.rng.boundary(8)]),
        7 => (Op::SetStatus(ctx.rng.boundary(32) as u32), vec![]),
        8 => (if ctx.rng.chance(1, 2) { Op::SetGuestPageSize(ctx.rng.boundary(32) as u32) } else { Op::RequiresLegacy }, vec![]),
        9 | 10 => (Op::QueueSet(q, ctx.rng.boundary(32) as u32, ctx.rng.boundary(64), ctx.rng.boundary(64), ctx.rng.boundary(64)), vec![]),
        11 => (Op::QueueUnset(q), vec![]),
        12 => (Op::QueueUsed(q), vec![*ctx.rng.pick(&[0u64, 1, 2, 0xffff, 0x101])]),
        _ => (Op::AckInterrupt, vec![ctx.rng.boundary(8)]),
    }
}
fn ops_session(ctx: &mut Ctx, rig: &mut Rig, n: u64) {
    let nlen = rig.wins[3] as u64; let mult = rig.wins[4] as u64;
    for _ in 0..n {
        let (op, ans) = gen_op(ctx, nlen, mult);
        rig.op(ctx, op, &ans);
    }
}
pub fn spin_answers(ctx: &mut Ctx) -> Vec<u64> {
    let k = ctx.rng.below(4);
    let mut v: Vec<u64> = (0..k).map(|_| *ctx.rng.pick(&[0x0fu64, 0x4f, 0x80, 0x01, 0xff, 0xcf])).collect();
    v.push(*ctx.rng.pick(&[0u64, 0, 0, 0x10, 0x30]));
    v.push(0x0f);
    v
}
/// `new` alone: the result must agree with the model, nothing is claimed of it (a structure that names the upper
/// half of a 64-bit BAR as a BAR of its own)
fn run_unclaimed(ctx: &mut Ctx, dev: &Dev) {
    if hyp() { return super::c11_hyp::run_unclaimed(ctx, dev); }
    if let Some(mut rig) = new_case(ctx, dev, false, false) { *rig.answers.borrow_mut() = VecDeque::new(); drop(rig.t.take()); hal::take_log(); }
    ctx.tr.note("new_unclaimed");
}
/// new, a few operations, drop
fn run_dev(ctx: &mut Ctx, dev: &Dev, nops: u64) {
    if hyp() { return super::c11_hyp::run_dev(ctx, dev, nops); }
    let wrapped = ctx.rng.chance(1, 3);
    if let Some(mut rig) = new_case(ctx, dev, wrapped, true) {
        ops_session(ctx, &mut rig, nops);
        let spin = spin_answers(ctx);
        rig.finish(ctx, &spin);
    }
}

fn ids(ctx: &mut Ctx) {
    scen(ctx, "c11-device-ids");
    // the complete id space through the public function, in one line per vendor id
    if !hyp() { id_tables(ctx); }
    // through `new`: vendor and device id tests come before anything else
    let (specs, caps) = base_dev();
    let (bars, starts) = layout(&specs);
    for vd in [0x1042_1af4u32, 0x1000_1af4, 0x1001_1af4, 0x1002_1af4, 0x1003_1af4, 0x1004_1af4, 0x1005_1af4, 0x1006_1af4, 0x1009_1af4, 0x100a_1af4,
               0x103f_1af4, 0x1040_1af4, 0x1041_1af4, 0x1045_1af4, 0x104d_1af4, 0x104e_1af4, 0x1050_1af4, 0x1059_1af4, 0x105a_1af4, 0xffff_1af4, 0x0000_1af4,
               0x1042_1af5, 0x1042_1af3, 0x1042_0000, 0x1042_ffff, 0xffff_ffff, 0x1af4_1042] {
        let dev = build_dev(vd, 0x0006, 0, bars, &starts, &[0; 6], &caps, 0, 0);
        run_dev(ctx, &dev, 2);
    }
}
fn id_tables(ctx: &mut Ctx) {
    for vendor in [0x1af4u16, 0x1af5, 0, 0xffff, 0x1000] {
        let (mut cnt, mut sum) = (0u128, 0u128);
        for id in 0..=0xffffu32 {
            let info = DeviceFunctionInfo { vendor_id: vendor, device_id: id as u16, class: 0, subclass: 0, prog_if: 0, revision: 0, header_type: HeaderType::Standard };
            if let Some(dt) = virtio_device_type(&info) { cnt += 1; sum += (id as u128 + 1) * (dt as u8 as u128 + 1); }
        }
        ctx.tr.line(1104, &[vendor as u128], &[cnt, sum]);
    }
    for id in (0x0ff0..0x1070u32).chain([0, 1, 0x7fff, 0x8000, 0xffff]) {
        let info = DeviceFunctionInfo { vendor_id: 0x1af4, device_id: id as u16, class: 0, subclass: 0, prog_if: 0, revision: 0, header_type: HeaderType::Standard };
        let outs = match virtio_device_type(&info) { Some(dt) => [1, dt as u8 as u128], None => [0, 0] };
        ctx.tr.line(1105, &[id as u128], &outs);
    }
}

fn findings(ctx: &mut Ctx) {
    scen(ctx, "c11-findings");
    // F4: offset + length wraps in u32: 0xfffffff0 + 0x48 = 0x38 (mod 2^32) "fits" a 16 KiB BAR
    let (specs, mut caps) = base_dev();
    caps[0].offset = 0xffff_fff0; caps[0].length = 0x48;
    run_dev(ctx, &mk(&specs, &caps), 3);
    // the same for the other three structures
    for i in 1..4 { let (specs, mut caps) = base_dev(); caps[i].offset = 0xffff_ff00; caps[i].length = 0x200; run_dev(ctx, &mk(&specs, &caps), 3); }
    // F13: reserved bar values (4.1.4: the driver MUST ignore such a structure)
    for b in [6u8, 7, 8, 9, 59, 60, 63, 64, 128, 255] {
        let (specs, mut caps) = base_dev(); caps[0].bar = b; run_dev(ctx, &mk(&specs, &caps), 1);
        let (specs, mut caps) = base_dev(); caps[2].bar = b; run_dev(ctx, &mk(&specs, &caps), 1);
    }
    // ... and the register a reserved value names holds something that looks like an allocated BAR (0x30 is the
    // expansion ROM base address register): the ISR byte / the notify window would be taken from it
    for b in [6u8, 7, 8, 9, 10, 59] {
        for which in [1usize, 3] {
            let (specs, mut caps) = base_dev(); caps[which].bar = b; caps[which].offset = 0; caps[which].length = if which == 1 { 1 } else { 8 };
            let mut d = mk(&specs, &caps);
            let off = 0x10 + 4 * b as usize;
            if off >= 0x28 && off < 0x40 { d.f.regs[off / 4] = 0xfebd_0000; }
            run_dev(ctx, &d, 1);
        }
    }
    // F14: a capability whose structure would extend beyond the 256-byte configuration space
    for (at, ty) in [(0xf4u8, 1u8), (0xf8, 1), (0xfc, 1), (0xf0, 2), (0xf4, 3), (0xfc, 4), (0xf0, 1), (0xec, 2)] {
        let (specs, mut caps) = base_dev();
        let mut c = cap(at, ty, 0, 0x800, 0x100); c.cap_len = if ty == 2 { 20 } else { 16 };
        caps.insert(0, c);
        run_dev(ctx, &mk(&specs, &caps), 1);
    }
    // cap_len around the end of configuration space: the last byte of the capability at 0xff / 0x100
    for (at, ty, len) in [(0xf0u8, 1u8, 15u8), (0xf0, 1, 16), (0xf0, 1, 17), (0xf0, 3, 18), (0xec, 2, 19), (0xec, 2, 20), (0xec, 2, 21), (0xe8, 4, 24), (0xe8, 4, 25), (0xe8, 2, 24), (0xe8, 2, 25)] {
        let (specs, mut caps) = base_dev();
        let mut c = cap(at, ty, 0, 0x800, 0x100); c.cap_len = len; c.mult = 6;
        caps.insert(0, c);
        run_dev(ctx, &mk(&specs, &caps), 2);
    }
}

/// directed (offset, length) pairs for a BAR of `size` bytes and a structure needing `need` bytes
fn window_pairs(size: u64, need: u64) -> Vec<(u32, u32)> {
    let mut v: Vec<(u64, u64)> = vec![(0, need), (0, need.saturating_sub(1)), (0, 0), (0, size), (0, size + 1), (size - need.min(size), need), (size + 1 - need.min(size), need),
        (size, 0), (size, need), (size.saturating_sub(1), 1), (size.saturating_sub(1), 2), (8, size.saturating_sub(8)), (8, size.saturating_sub(7)),
        (0xffff_ffff, 1), (0xffff_ffff, need), (0xffff_fff8, 8 + need), (0xffff_fff8, 8), (0xffff_fff8, 7), (1 << 31, 1 << 31), (1 << 31, (1 << 31) + need), ((1 << 31) + 8, (1 << 31) - 8),
        (0x100, 0xffff_ff00), (0x100, 0xffff_ff00 + need), (need, 0xffff_ffff), (0, 0xffff_ffff), (0xffff_ffff, 0xffff_ffff), (0x1000, 0xffff_f000 + need)];
    v.retain(|(o, l)| *o <= 0xffff_ffff && *l <= 0xffff_ffff);
    v.into_iter().map(|(o, l)| (o as u32, l as u32)).collect()
}

fn windows(ctx: &mut Ctx) {
    scen(ctx, "c11-windows");
    let needs = [56u64, 1, 4, 2];   // caps[] order of base_dev: common, isr, device, notify
    let bars: Vec<Spec> = vec![
        Spec::Mem { ty: 0, pf: false, k: 14, m: 32, addr: 0xfe00_0000 }, Spec::Mem { ty: 0, pf: true, k: 6, m: 32, addr: 0xffff_ffc0 }, Spec::Mem { ty: 1, pf: false, k: 12, m: 32, addr: 0x000f_f000 },
        Spec::Mem { ty: 0, pf: false, k: 31, m: 32, addr: 0x8000_0000 }, Spec::Mem64 { pf: true, k: 14, m: 64, addr: 0x0000_0038_0000_0000 }, Spec::Mem64 { pf: false, k: 32, m: 64, addr: 0x0000_0001_0000_0000 },
        Spec::Mem64 { pf: false, k: 33, m: 64, addr: 0xffff_fffe_0000_0000 }, Spec::Mem64 { pf: false, k: 63, m: 64, addr: 0x8000_0000_0000_0000 }, Spec::Mem64 { pf: false, k: 4, m: 64, addr: 0xffff_ffff_ffff_fff0 },
        Spec::Mem64 { pf: false, k: 12, m: 64, addr: 0xfe00_1000 },
        // narrow decoders: writable address bits [k, m) only; the size is still 2^k
        Spec::Mem { ty: 0, pf: false, k: 12, m: 24, addr: 0x00ab_c000 }, Spec::Mem { ty: 1, pf: true, k: 8, m: 9, addr: 0x100 },
        Spec::Mem64 { pf: false, k: 14, m: 40, addr: 0x0000_00f0_1234_c000 }, Spec::Mem64 { pf: true, k: 33, m: 34, addr: 0x0000_0002_0000_0000 },
        Spec::Mem64 { pf: false, k: 16, m: 20, addr: 0x000f_0000 }];
    for sp in &bars {
        let size = spec_truth(sp).unwrap().1;
        for which in 0..4usize {
            for (o, l) in window_pairs(size, needs[which]) {
                // the structure under test alone in BAR `sp` (slot 0 or 1), the other three in a second, roomy BAR
                let first = ctx.rng.chance(1, 2);
                let roomy = Spec::Mem { ty: 0, pf: false, k: 16, m: 32, addr: 0x7d00_0000 };
                let specs: Vec<Spec> = if first { vec![*sp, roomy] } else { vec![roomy, *sp] };
                let (slot_t, slot_r) = if first { (0u8, sp.slots().len() as u8) } else { (1u8, 0u8) };
                let (_, mut caps) = base_dev();
                for c in caps.iter_mut() { c.bar = slot_r; }
                caps[which].bar = slot_t; caps[which].offset = o; caps[which].length = l;
                let nops = if ctx.rng.chance(1, 4) { 2 } else { 0 };
                run_dev(ctx, &mk(&specs, &caps), nops);
            }
        }
    }
}

fn bar_kinds(ctx: &mut Ctx) {
    scen(ctx, "c11-bar-kinds");
    let roomy = Spec::Mem { ty: 0, pf: false, k: 16, m: 32, addr: 0xfd00_0000 };
    let odd: Vec<Spec> = vec![Spec::Unimpl, Spec::Io { k: 8, m: 32, addr: 0xc000 }, Spec::Io { k: 2, m: 32, addr: 0 }, Spec::Mem { ty: 0, pf: false, k: 14, m: 32, addr: 0 }, Spec::Mem64 { pf: false, k: 14, m: 64, addr: 0 },
        Spec::Mem { ty: 1, pf: true, k: 14, m: 32, addr: 0x000f_c000 }, Spec::Mem64 { pf: true, k: 40, m: 64, addr: 0x0000_ff00_0000_0000 }];
    for sp in &odd {
        for which in 0..4usize {
            let specs = vec![roomy, *sp];
            let (_, mut caps) = base_dev();
            caps[which].bar = 1;
            run_dev(ctx, &mk(&specs, &caps), 1);
            // the upper half of a 64-bit BAR named as a BAR of its own (nothing is claimed of the result; it must agree with the model)
            if matches!(sp, Spec::Mem64 { .. }) { let (_, mut caps) = base_dev(); caps[which].bar = 2; run_unclaimed(ctx, &mk(&specs, &caps)); }
        }
    }
    // type bits 64-bit in the last register; the reserved memory type
    for which in 0..4usize {
        let (mut bars, starts) = layout(&[roomy]);
        bars[5] = Slot { kind: 4, mask: 0x0000_ffff, val: 0xfe00_0004 };
        let (_, mut caps) = base_dev(); caps[which].bar = 5;
        run_dev(ctx, &build_dev(0x1042_1af4, 3, 0, bars, &starts, &[0; 6], &caps, 0, 0), 0);
        let (mut bars, starts) = layout(&[roomy]);
        bars[3] = Slot { kind: 6, mask: 0x0000_3fff, val: 0xfe00_0006 };
        let (_, mut caps) = base_dev(); caps[which].bar = 3;
        run_dev(ctx, &build_dev(0x1042_1af4, 3, 0, bars, &starts, &[0; 6], &caps, 0, 0), 0);
    }
    // misaligned mappings and misaligned offsets
    for which in 0..4usize {
        for mis in [1usize, 2, 4, 6, 8] {
            let (specs, caps) = base_dev();
            let (bars, starts) = layout(&specs);
            let mut m = [0usize; 6]; m[0] = mis;
            let _ = which;
            run_dev(ctx, &build_dev(0x1042_1af4, 6, 0, bars, &starts, &m, &caps, 0, 0), 1);
        }
        for o in [1u32, 2, 3, 4, 6, 8, 12, 0x101, 0x102, 0x104] {
            let (specs, mut caps) = base_dev(); caps[which].offset += o; caps[which].length = 0x100;
            run_dev(ctx, &mk(&specs, &caps), 1);
        }
    }
}

fn cap_lists(ctx: &mut Ctx) {
    scen(ctx, "c11-capabilities");
    // each mandatory structure missing, too short, foreign id, reserved type; duplicates: the first usable wins
    for which in 0..4usize {
        let (specs, caps) = base_dev();
        let mut c2 = caps.clone(); c2.remove(which); run_dev(ctx, &mk(&specs, &c2), 1);
        for len in [0u8, 1, 15, 16, 17, 19, 20, 21, 24, 255] { let mut c2 = caps.clone(); c2[which].cap_len = len; run_dev(ctx, &mk(&specs, &c2), 1); }
        for id in [0u8, 1, 5, 8, 0x0a, 0x10, 0x11, 0xff] { let mut c2 = caps.clone(); c2[which].id = id; run_dev(ctx, &mk(&specs, &c2), 0); }
        for ty in [0u8, 5, 6, 8, 9, 0x81, 0xff] { let mut c2 = caps.clone(); c2[which].cfg_type = ty; run_dev(ctx, &mk(&specs, &c2), 0); }
        // a second structure of the same type elsewhere: before or after; usable or not
        for before in [true, false] {
            for variant in 0..6 {
                let mut dup = cap(0xa0, caps[which].cfg_type, 0, 0x3800, 0x200); dup.mult = 8;
                match variant { 1 => dup.cap_len = 15, 2 => dup.id = 0x10, 3 => dup.bar = 7, 4 => dup.length = 0x10_0000, 5 => dup.cap_len = if dup.cfg_type == 2 { 19 } else { 16 }, _ => {} }
                let mut c2 = caps.clone();
                if before { c2.insert(0, dup); } else { c2.push(dup); }
                run_dev(ctx, &mk(&specs, &c2), 2);
            }
        }
    }
    // multipliers
    for m in [0u32, 1, 2, 3, 4, 5, 0x1000, 0x1001, 0x7fff_ffff, 0x8000_0000, 0xffff_fffe, 0xffff_ffff] {
        let (specs, mut caps) = base_dev(); caps[3].mult = m; run_dev(ctx, &mk(&specs, &caps), 4);
    }
    // list shapes: every order of the four, terminators, pointer noise, no list at all
    let (specs, caps) = base_dev();
    let (bars, starts) = layout(&specs);
    let mut idx = [0usize, 1, 2, 3];
    for _ in 0..ctx.budget(72, 4) {
        ctx.rng.shuffle(&mut idx);
        let mut slots = CAP_SLOTS.to_vec(); ctx.rng.shuffle(&mut slots);
        let c2: Vec<Cap> = idx.iter().enumerate().map(|(j, i)| { let mut c = caps[*i]; c.at = slots[j]; c }).collect();
        let term = *ctx.rng.pick(&[0u8, 0, 1, 0x3c, 0x41, 0x42, 0xff]);
        let (cmd, st, noise) = (ctx.rng.next() as u16, ctx.rng.next() as u16, ctx.rng.next() as u32);
        run_dev(ctx, &build_dev(0x1041_1af4, cmd, st, bars, &starts, &[0; 6], &c2, noise, term), 2);
    }
    let mut d = build_dev(0x1041_1af4, 0, 0, bars, &starts, &[0; 6], &caps, 0, 0);
    d.f.status &= !0x0010; run_dev(ctx, &d, 0);                 // list bit clear: nothing is read
    run_dev(ctx, &build_dev(0x1041_1af4, 0, 0, bars, &starts, &[0; 6], &[], 0, 0), 0);
    let mut d = build_dev(0x1041_1af4, 0, 0x0010, bars, &starts, &[0; 6], &[], 0, 0);
    d.f.regs[0x34 / 4] = 0; run_dev(ctx, &d, 0);                  // list bit set, null pointer: "capability" at offset 0
    d.f.regs[0x34 / 4] = 0x10; run_dev(ctx, &d, 0);               // pointer into the BAR registers
}

/// the top of the decoder: full (all address bits up to `bits` writable) two times in three, else narrow
fn narrow(ctx: &mut Ctx, k: u32, bits: u32) -> u32 {
    if ctx.rng.chance(2, 3) { bits } else { ctx.tr.note("random_narrow_decoder"); ctx.rng.range(k as u64 + 1, bits as u64) as u32 }
}
fn random_devs(ctx: &mut Ctx) {
    scen(ctx, "c11-random");
    let n = ctx.budget(3000, 10);
    for _ in 0..n {
        // BARs: two to four, mostly memory
        let mut specs = vec![];
        let mut used = 0;
        while used < 5 && specs.len() < 4 {
            let sp = match ctx.rng.below(10) {
                0 => Spec::Unimpl,
                1 => { let k = ctx.rng.range(2, 16) as u32; let m = narrow(ctx, k, 32); Spec::Io { k, m, addr: aligned_addr(ctx, k, m) as u32 } }
                2..=5 => { let k = ctx.rng.range(4, 31) as u32; let m = narrow(ctx, k, 32); Spec::Mem { ty: ctx.rng.below(2) as u8, pf: ctx.rng.chance(1, 2), k, m, addr: aligned_addr(ctx, k, m) as u32 } }
                _ => { let k = ctx.rng.range(4, 63) as u32; let m = narrow(ctx, k, 64); Spec::Mem64 { pf: ctx.rng.chance(1, 2), k, m, addr: aligned_addr(ctx, k, m) } }
            };
            used += sp.slots().len(); specs.push(sp);
        }
        // allocated memory BARs never overlap in the physical address space
        let ranges: Vec<(u128, u128)> = specs.iter().filter_map(spec_truth).filter(|(a, _)| *a != 0).map(|(a, sz)| (a as u128, a as u128 + sz as u128)).collect();
        if ranges.iter().enumerate().any(|(i, x)| ranges.iter().skip(i + 1).any(|y| x.0 < y.1 && y.0 < x.1)) { ctx.tr.note("random_overlapping_bars_skipped"); continue; }
        let (bars, starts) = layout(&specs);
        let upper: Vec<u8> = starts.iter().filter(|(_, sp)| matches!(sp, Spec::Mem64 { .. })).map(|(s, _)| *s as u8 + 1).collect();
        let mem: Vec<(usize, u64)> = starts.iter().filter_map(|(s, sp)| spec_truth(sp).filter(|(a, _)| *a != 0).map(|(_, sz)| (*s, sz))).collect();
        // capabilities: the four structures in random order, sometimes extras / damage
        let mut slots = CAP_SLOTS.to_vec(); ctx.rng.shuffle(&mut slots);
        let mut caps = vec![];
        let wild = ctx.rng.chance(1, 3);
        let mut order = vec![1u8, 2, 3, 4];
        if ctx.rng.chance(1, 6) { order.remove(ctx.rng.below(4) as usize); }
        if ctx.rng.chance(1, 3) { order.push(ctx.rng.range(0, 6) as u8); }
        if ctx.rng.chance(1, 3) { order.push(ctx.rng.range(1, 4) as u8); }
        ctx.rng.shuffle(&mut order);
        for (j, ty) in order.iter().enumerate() {
            let need = match ty { 1 => 56u64, 2 => 2, 3 => 1, _ => 4 };
            let (bar, size) = if !mem.is_empty() && ctx.rng.chance(9, 10) { let m = *ctx.rng.pick(&mem); (m.0 as u8, m.1) } else { let mut b = ctx.rng.boundary(8) as u8; while upper.contains(&b) { b = ctx.rng.boundary(8) as u8; } (b, 0x1000) };
            let (offset, length) = match if wild { ctx.rng.below(8) } else if ctx.rng.chance(1, 12) { ctx.rng.below(4) } else { 7 } {
                0 => (ctx.rng.boundary(32) as u32, ctx.rng.boundary(32) as u32),
                1 => { let l = need + ctx.rng.below(64); ((size.saturating_sub(l) & 0xffff_fff8) as u32, l as u32) }
                2 => { let l = need + ctx.rng.below(64); ((size.saturating_sub(l).wrapping_add(ctx.rng.below(9)) & 0xffff_ffff) as u32, l as u32) }
                3 => { let l = ctx.rng.boundary(12) as u32; (0u32.wrapping_sub(l).wrapping_add(ctx.rng.below(0x40) as u32), l.wrapping_add(ctx.rng.below(0x80) as u32)) }
                _ => { let l = (need + ctx.rng.below(0x400)).min(size); let room = size - l; let o = if room == 0 { 0 } else { ctx.rng.below(room.min(0xffff_0000)) & !7 }; (o as u32, l as u32) }
            };
            let mut c = cap(slots[j], *ty, bar, offset, length);
            c.mult = match ctx.rng.below(6) { 0 => ctx.rng.boundary(32) as u32, 1 => 0, _ => 2 * ctx.rng.below(64) as u32 };
            if ctx.rng.chance(1, 12) { c.cap_len = ctx.rng.boundary(8) as u8; }
            if ctx.rng.chance(1, 20) { c.id = ctx.rng.next() as u8; }
            if ctx.rng.chance(1, 25) { c.at = *ctx.rng.pick(&[0xecu8, 0xf0, 0xf4, 0xf8, 0xfc]); }
            caps.push(c);
        }
        // two capabilities at the same offset would make the list cyclic or merge entries: keep offsets distinct
        let mut seen = vec![]; caps.retain(|c| if seen.contains(&c.at) { false } else { seen.push(c.at); true });
        let vd = if ctx.rng.chance(19, 20) { (0x1040u32 + *ctx.rng.pick(&[1u32, 2, 3, 4, 5, 9, 16, 18, 19, 25])) << 16 | 0x1af4 } else { ctx.rng.next() as u32 };
        let mut mis = [0usize; 6];
        if ctx.rng.chance(1, 15) { mis[ctx.rng.below(6) as usize] = *ctx.rng.pick(&[1usize, 2, 4]); }
        let term = if ctx.rng.chance(3, 4) { 0 } else { ctx.rng.next() as u8 & 0x3f };
        let dev = build_dev(vd, ctx.rng.next() as u16, ctx.rng.next() as u16 & !0x0010, bars, &starts, &mis, &caps, ctx.rng.next() as u32, term);
        let nops = if ctx.rng.chance(1, 2) { ctx.rng.range(1, 8) } else { 0 };
        run_dev(ctx, &dev, nops);
    }
}

/// every operation on one good transport with boundary arguments and answers
fn directed_ops(ctx: &mut Ctx) {
    for wrapped in [false, true] {
        ctx.tr.scenario(if wrapped { "c11-ops-some" } else { "c11-ops" });
        for mult in [0u32, 2, 4, 0x100, 0xfffe, 0x10000, 0xffff_fffe] {
            let (specs, mut caps) = base_dev();
            caps[3].mult = mult; caps[3].length = *ctx.rng.pick(&[2u32, 3, 0x100, 0x101, 0x1000]);
            let dev = mk(&specs, &caps);
            let Some(mut rig) = new_case(ctx, &dev, wrapped, true) else { continue };
            let nlen = rig.wins[3] as u64;
            let b16: Vec<u64> = vec![0, 1, 2, 0x7f, 0x80, 0xff, 0x100, 0x7fff, 0x8000, 0xfffe, 0xffff];
            for q in [0u16, 1, 0x8000, 0xffff] {
                for off in &b16 { rig.op(ctx, Op::Notify(q), &[*off]); }
                if mult > 0 { let e = nlen.saturating_sub(2) / mult as u64; for off in [e.saturating_sub(1), e, e + 1] { rig.op(ctx, Op::Notify(q), &[off & 0xffff]); } }
                for a in &b16 { rig.op(ctx, Op::MaxQueueSize(q), &[*a]); rig.op(ctx, Op::QueueUsed(q), &[*a]); }
                rig.op(ctx, Op::QueueUnset(q), &[]);
            }
            for a in [0u64, 1, 0xffff_ffff, 0x8000_0000, 0x1_0000_0001] { for b in [0u64, 1, 0xffff_ffff] { rig.op(ctx, Op::ReadFeatures, &[a, b]); } }
            for f in [0u64, 1, 0xffff_ffff, 0x1_0000_0000, 0x8000_0000_0000_0000, u64::MAX, 0x0123_4567_89ab_cdef] { rig.op(ctx, Op::WriteFeatures(f), &[]); }
            for s in [0u64, 1, 3, 0x0b, 0x0f, 0x10, 0x20, 0x30, 0x40, 0x80, 0xcf, 0xff] { rig.op(ctx, Op::GetStatus, &[s]); rig.op(ctx, Op::AckInterrupt, &[s]); }
            for s in [0u32, 1, 3, 11, 15, 64, 128, 0xff, 0x100, 0x1ff, u32::MAX] { rig.op(ctx, Op::SetStatus(s), &[]); rig.op(ctx, Op::SetGuestPageSize(s), &[]); }
            for op in [Op::DeviceType, Op::RequiresLegacy] { rig.op(ctx, op, &[]); }
            for (n, a) in [(0u32, 0u64), (1, 1), (0xffff, 0xffff_ffff), (0x1_0000, 0x1_0000_0000), (0x1_0008, u64::MAX), (u32::MAX, 0x8000_0000_0000_0000)] {
                let q = ctx.rng.boundary(16) as u16;
                rig.op(ctx, Op::QueueSet(q, n, a, a ^ 0xffff_ffff, !a), &[]);
            }
            let spin: Vec<u64> = match mult { 0 => vec![], 2 => vec![0], 4 => vec![0x0f, 0x0f, 0x0f, 0], 0x100 => vec![0x4f, 0x10], 0xfffe => vec![0x80, 0x30, 0x0f], _ => spin_answers(ctx) };
            rig.finish(ctx, &spin);
        }
    }
}

pub fn run(ctx: &mut Ctx) {
    findings(ctx);
    ids(ctx);
    windows(ctx);
    bar_kinds(ctx);
    cap_lists(ctx);
    directed_ops(ctx);
    random_devs(ctx);
}

/// the same PCI functions through `HypPciTransport` (x86-64 pKVM hypercall transport), then its own directed scenarios
pub fn run_hyp(ctx: &mut Ctx) {
    HYP.with(|h| h.set(true));
    findings(ctx);
    ids(ctx);
    windows(ctx);
    bar_kinds(ctx);
    cap_lists(ctx);
    random_devs(ctx);
    HYP.with(|h| h.set(false));
    super::c11_hyp::run_own(ctx);
}
