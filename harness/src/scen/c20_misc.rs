//! C20 (part: the three small command/response drivers): `VirtIORng`, `VirtIORtc`, `VirtIO9p` over
//! `LedgerHal` / `ModelTransport`, in lock-step with Model/Misc.v (kinds 2067..2099).
//!  * reference devices find every request through device addresses only (hal::dev_read / dev_write),
//!    walk the chain themselves and decode it with their own decoders written from the VirtIO text
//!    (entropy: one device-writable buffer; rtc: virtio_rtc_req_* field tables; 9p: T-message readable,
//!    R-message area writable, size[4] first); they answer with success, every status code, short and
//!    oversized used lengths, short writes, and (as the last step of a history) a foreign used id;
//!  * every call goes through add_notify_wait_pop, co-simulated through the busy-wait hook (site 0)
//!    and Transport::notify with three device servicing policies;
//!  * the mount tag is read through `VirtIO9p::new` against config spaces with every tag length,
//!    boundary-directed UTF-8 (overlong forms, surrogates, > U+10FFFF, truncated sequences), short
//!    config spaces, failing reads and config changes under the read;
//!  * monitors 2090..2096 evaluate the property on what the implementation was seen to do.
use crate::hal::{self, Ev, LedgerHal};
use crate::scen::common::*;
use crate::scen::qrig::{self, QAddr, CURQ};
use crate::tport::{ModelTransport, TState};
use crate::Ctx;
use std::cell::RefCell;
use std::collections::HashMap;
use std::panic::{catch_unwind, AssertUnwindSafe};
use std::rc::Rc;
use virtio_drivers::device::rng::VirtIORng;
use virtio_drivers::device::rtc::VirtIORtc;
#[cfg(feature = "alloc")]
use virtio_drivers::device::virtio_9p::VirtIO9p;
use virtio_drivers::transport::DeviceType;
use virtio_drivers::verif::Event;
use virtio_drivers::Error;

const F_IND: u64 = 1 << 28;
const F_EV: u64 = 1 << 29;
const F_V1: u64 = 1 << 32;
const F_AP: u64 = 1 << 33;
const FEATURE_SETS: [u64; 6] = [0, F_IND, F_EV, F_IND | F_EV | F_V1, F_V1 | F_AP, F_IND | F_EV | F_V1 | F_AP];

// ------------------------------------------------------------------------------------------------
// Reference device (specification side)
#[derive(Clone, Copy, PartialEq, Debug)]
pub enum Kind { Rng, Rtc, P9 }

/// how the device answers the next request
#[derive(Clone, Debug, Default)]
pub struct Script {
    /// rtc: status byte to answer with
    pub status: u8,
    /// rtc: values to report (num_clocks / type, smearing, flags / reading)
    pub num_clocks: u16,
    pub cap: (u8, u8, u8),
    pub reading: u64,
    /// write only this many bytes of the answer (None: all of it)
    pub write_only: Option<usize>,
    /// record this used length instead of the number of bytes written
    pub used_override: Option<u32>,
    /// 9p: the reply (its first four bytes are the size field the device chose)
    pub reply: Vec<u8>,
    /// publish this used id instead of the head
    pub wrong_id: bool,
}

#[derive(Clone, Debug)]
pub struct Seen {
    pub head: u16,
    pub els: Vec<(u64, u32, bool)>,
    pub readable: Vec<u8>,    // device-readable bytes, in chain order, read through their addresses
    pub wlen: usize,          // device-writable bytes
    pub written: Vec<u8>,     // the device-writable area as it stands after the device's answer
    pub used_len: u32,
    pub used_id: u32,
    pub ok: bool,             // chain walked, every element resolved, readable before writable
    pub decoded: bool,        // rtc: the device's own decoder accepted the request
}

pub struct Dev {
    pub a: QAddr,
    pub kind: Kind,
    pub seen_idx: u16,
    pub used: u16,
    pub event_idx: bool,
    pub script: Script,
    pub done: Vec<Seen>,
    pub received: u64,
}

fn rd_desc(b: &[u8]) -> (u64, u32, u16, u16) {
    (u64::from_le_bytes(b[0..8].try_into().unwrap()), u32::from_le_bytes(b[8..12].try_into().unwrap()),
     u16::from_le_bytes([b[12], b[13]]), u16::from_le_bytes([b[14], b[15]]))
}

/// the rtc device's decoder: (msg_type, clock_id, hw_counter) if the request is well-formed per the field tables
fn rtc_decode(b: &[u8]) -> Option<(u16, u16, u8)> {
    if b.len() < 8 { return None; }
    let ty = u16::from_le_bytes([b[0], b[1]]);
    if b[2..8].iter().any(|x| *x != 0) { return None; }
    match ty {
        0x1000 => if b.len() == 8 { Some((ty, 0, 0)) } else { None },
        0x1001 | 0x0001 => if b.len() == 16 && b[10..16].iter().all(|x| *x == 0) { Some((ty, u16::from_le_bytes([b[8], b[9]]), 0)) } else { None },
        0x1002 | 0x0002 => if b.len() == 16 && b[11..16].iter().all(|x| *x == 0) { Some((ty, u16::from_le_bytes([b[8], b[9]]), b[10])) } else { None },
        _ => None,
    }
}

impl Dev {
    pub fn new(a: QAddr, kind: Kind, event_idx: bool) -> Self {
        Dev { a, kind, seen_idx: 0, used: 0, event_idx, script: Script::default(), done: vec![], received: 0 }
    }
    /// 2.7.5 / 2.7.5.3: follow the chain from `head` (direct or through an indirect table)
    fn walk(&self, head: u16) -> Option<Vec<(u64, u32, bool)>> {
        let n = self.a.size;
        let mut els = vec![];
        if head as usize >= n { return None; }
        let (addr, len, flags, _) = rd_desc(&hal::dev_read(self.a.desc + 16 * head as u64, 16).ok()?);
        if flags & 4 != 0 {
            if flags & 3 != 0 || len % 16 != 0 || len == 0 { return None; }
            let tbl = hal::dev_read(addr, len as usize).ok()?;
            let m = len as usize / 16;
            let mut i = 0usize; let mut steps = 0;
            loop {
                if i >= m || steps > m { return None; }
                let (a, l, f, nx) = rd_desc(&tbl[16 * i..16 * i + 16]);
                if f & 4 != 0 { return None; }
                els.push((a, l, f & 2 != 0));
                steps += 1;
                if f & 1 == 0 { break; }
                i = nx as usize;
            }
        } else {
            let mut cur = head as usize; let mut steps = 0;
            loop {
                if cur >= n || steps > n { return None; }
                let (a, l, f, nx) = rd_desc(&hal::dev_read(self.a.desc + 16 * cur as u64, 16).ok()?);
                if f & 4 != 0 { return None; }
                els.push((a, l, f & 2 != 0));
                steps += 1;
                if f & 1 == 0 { break; }
                cur = nx as usize;
            }
        }
        Some(els)
    }

    /// the answer bytes for this request, per device type and script
    fn answer(&self, s: &mut Seen, rng: &mut crate::rng::Rng) -> Vec<u8> {
        match self.kind {
            Kind::Rng => rng.bytes(s.wlen),
            Kind::P9 => self.script.reply.clone(),
            Kind::Rtc => {
                let mut r = vec![0u8; s.wlen];
                let sc = &self.script;
                match rtc_decode(&s.readable) {
                    None => { if !r.is_empty() { r[0] = 4; } }            // VIRTIO_RTC_S_EINVAL
                    Some((ty, _id, _hw)) => {
                        s.decoded = true;
                        if !r.is_empty() { r[0] = sc.status; }
                        let mut body: Vec<u8> = vec![];
                        match ty {
                            0x1000 => { body.extend(sc.num_clocks.to_le_bytes()); }
                            0x1001 => { body.extend([sc.cap.0, sc.cap.1, sc.cap.2]); }
                            0x0001 => { body.extend(sc.reading.to_le_bytes()); }
                            0x1002 => { body.push(sc.cap.2); }
                            _ => { body.extend(sc.reading.to_le_bytes()); body.extend((!sc.reading).to_le_bytes()); }
                        }
                        for (i, b) in body.iter().enumerate() { if 8 + i < r.len() { r[8 + i] = *b; } }
                    }
                }
                r
            }
        }
    }

    /// serve every new available entry: decode, answer, publish
    pub fn serve_all(&mut self, rng: &mut crate::rng::Rng) {
        let n = self.a.size;
        let aidx = hal::dev_read_u16(self.a.drv + 2).unwrap();
        while self.seen_idx != aidx {
            let slot = (self.seen_idx as usize) & (n - 1);
            let head = hal::dev_read_u16(self.a.drv + 4 + 2 * slot as u64).unwrap();
            self.seen_idx = self.seen_idx.wrapping_add(1);
            self.received += 1;
            let mut s = Seen { head, els: vec![], readable: vec![], wlen: 0, written: vec![], used_len: 0, used_id: head as u32, ok: false, decoded: false };
            if let Some(els) = self.walk(head) {
                s.els = els.clone();
                let first_w = els.iter().position(|e| e.2).unwrap_or(els.len());
                let mut ok = els[first_w..].iter().all(|e| e.2);        // 2.7.4: readable elements first
                for e in els.iter().filter(|e| !e.2) { match hal::dev_read(e.0, e.1 as usize) { Ok(b) => s.readable.extend(b), Err(_) => ok = false } }
                s.wlen = els.iter().filter(|e| e.2).map(|e| e.1 as usize).sum();
                s.ok = ok;
                let mut ans = self.answer(&mut s, rng);
                ans.truncate(s.wlen);
                if let Some(k) = self.script.write_only { ans.truncate(k); }
                // lay the answer over the writable elements in order
                let mut off = 0;
                for e in els.iter().filter(|e| e.2) {
                    let l = (e.1 as usize).min(ans.len() - off);
                    if l > 0 && hal::dev_write(e.0, &ans[off..off + l]).is_err() { s.ok = false; }
                    off += l;
                }
                s.used_len = self.script.used_override.unwrap_or(ans.len() as u32);
                for e in els.iter().filter(|e| e.2) { match hal::dev_read(e.0, e.1 as usize) { Ok(b) => s.written.extend(b), Err(_) => s.ok = false } }
            }
            if self.script.wrong_id { s.used_id = ((head as usize + 1) % n) as u32; }
            let uslot = (self.used as usize) & (n - 1);
            hal::dev_write_u32(self.a.dev + 4 + 8 * uslot as u64, s.used_id).unwrap();
            hal::dev_write_u32(self.a.dev + 8 + 8 * uslot as u64, s.used_len).unwrap();
            self.used = self.used.wrapping_add(1);
            hal::dev_write_u16(self.a.dev + 2, self.used).unwrap();
            self.done.push(s);
        }
        if self.event_idx { hal::dev_write_u16(self.a.dev + 4 + 8 * n as u64, self.seen_idx).unwrap(); }
    }
}

// ------------------------------------------------------------------------------------------------
// co-simulation
#[derive(Clone, Copy, PartialEq, Debug)]
pub enum Policy { OnNotify, Poll(u32), Late(u32) }
pub struct Sim { pub dev: Dev, pub policy: Policy, pub spins: u32, pub polls: Vec<u16>, pub notified: u32, pub rng: crate::rng::Rng, pub active: bool }
thread_local! { static SIM: RefCell<Option<Sim>> = RefCell::new(None); }

fn observer(e: Event) {
    match e {
        Event::Spin(_) => {
            let mut hopeless = false;
            SIM.with(|c| { if let Some(s) = c.borrow_mut().as_mut() {
                if !s.active { return; }
                s.polls.push(hal::dev_read_u16(s.dev.a.dev + 2).unwrap());
                s.spins += 1;
                match s.policy { Policy::Poll(k) | Policy::Late(k) => { if s.spins >= k { let mut r = s.rng.clone(); s.dev.serve_all(&mut r); s.rng = r; } } Policy::OnNotify => {} }
                if s.spins > 3000 { hopeless = true; }
            } });
            if hopeless { panic!("busy-wait can never end"); }
        }
        other => qrig::observer(other),
    }
}
fn sim_notify() {
    SIM.with(|c| { if let Some(s) = c.borrow_mut().as_mut() {
        s.notified += 1;
        if s.active && s.policy == Policy::OnNotify { let mut r = s.rng.clone(); s.dev.serve_all(&mut r); s.rng = r; }
    } });
}
fn with_sim<R>(f: impl FnOnce(&mut Sim) -> R) -> R { SIM.with(|c| f(c.borrow_mut().as_mut().unwrap())) }

// ------------------------------------------------------------------------------------------------
// event encoding: caller-owned buffers are known by address; the rtc driver's own request / response
// locals are recognised by direction (and the request by its length); anything else is an indirect table
pub struct Ids { pub known: HashMap<usize, u64>, pub req: Option<u64>, pub resp: Option<u64> }
fn buf_id(ids: &Ids, vaddr: usize, len: usize, dir: u8) -> Option<u64> {
    if let Some(id) = ids.known.get(&vaddr) { return Some(*id); }
    if dir == 1 { if let Some(r) = ids.resp { return Some(r); } }
    if dir == 0 && (len == 8 || len == 16) { if let Some(r) = ids.req { return Some(r); } }
    None
}
fn enc_events(evs: &[Ev], ids: &Ids, head: u128) -> Vec<u128> {
    let mut o = vec![];
    for e in evs {
        match e {
            Ev::Share { vaddr, len, dir, paddr } => match buf_id(ids, *vaddr, *len, *dir) {
                Some(id) => o.extend([1, id as u128, *len as u128, (*dir == 1) as u128, *paddr as u128]),
                None => o.extend([2, head, (*len / 16) as u128, *paddr as u128]) },
            Ev::Unshare { paddr, vaddr, len, dir, .. } => match buf_id(ids, *vaddr, *len, *dir) {
                Some(id) => o.extend([3, *paddr as u128, id as u128, *len as u128, (*dir == 1) as u128]),
                None => o.extend([4, *paddr as u128, head, (*len / 16) as u128]) },
            Ev::StoreDesc { index, addr, len, flags, next } => o.extend([5, *index as u128, *addr as u128, *len as u128, *flags as u128, *next as u128]),
            Ev::Store { what: 1, index, val } => o.extend([6, *index as u128, *val as u128]),
            Ev::Fence => o.push(7),
            Ev::Store { what: 2, val, .. } => o.extend([8, *val as u128]),
            Ev::Store { what: 3, val, .. } => o.extend([9, *val as u128]),
            Ev::Store { what: 4, val, .. } => o.extend([10, *val as u128]),
            Ev::Notify(_) => o.push(11),
            _ => {}
        }
    }
    o
}
/// (address of buffer `a`, address of buffer `b`, table address) from the share events of a submission
fn share_addrs(evs: &[Ev], ids: &Ids, a: u64, b: u64) -> (u64, u64, u64) {
    let (mut x, mut y, mut t) = (0, 0, 0);
    for e in evs { if let Ev::Share { vaddr, len, dir, paddr } = e {
        match buf_id(ids, *vaddr, *len, *dir) { Some(id) if id == a => x = *paddr, Some(id) if id == b => y = *paddr, Some(_) => {}, None => t = *paddr } } }
    (x, y, t)
}
fn ring_token(evs: &[Ev]) -> Option<u16> { evs.iter().find_map(|e| if let Ev::Store { what: 1, val, .. } = e { Some(*val as u16) } else { None }) }

// ------------------------------------------------------------------------------------------------
// the rig common to the three drivers
pub struct Rig { pub st: Rc<RefCell<TState>>, pub a: QAddr, pub n: usize, pub indirect: bool, pub event_idx: bool, pub last_used: u16, pub next_id: u64 }
pub struct Obs { pub evs: Vec<Ev>, pub spins: u32, pub polls: Vec<u16>, pub ae: u16, pub uf: u16, pub uid: u32, pub ulen: u32,
    pub token: Option<u16>, pub seen: Option<Seen>, pub received: u64, pub popped: bool }

impl Rig {
    fn fresh_id(&mut self) -> u64 { let i = self.next_id; self.next_id += 1; i }
    fn used_view(&self) -> (u16, u32, u32) {
        let ui = hal::dev_read_u16(self.a.dev + 2).unwrap();
        let slot = (self.last_used as usize) & (self.n - 1);
        (ui, hal::dev_read_u32(self.a.dev + 4 + 8 * slot as u64).unwrap(), hal::dev_read_u32(self.a.dev + 8 + 8 * slot as u64).unwrap())
    }
    /// run one blocking driver call under the given device policy and script and collect what happened
    fn around<R>(&mut self, ctx: &mut Ctx, policy: Policy, script: Script, f: impl FnOnce() -> R) -> (R, Obs) {
        let n = self.n;
        let suppress = matches!(policy, Policy::Poll(_));
        if self.event_idx { let seen = with_sim(|s| s.dev.seen_idx); hal::dev_write_u16(self.a.dev + 4 + 8 * n as u64, if suppress { seen.wrapping_add(0x4000) } else { seen }).unwrap(); }
        hal::dev_write_u16(self.a.dev, if self.event_idx { ctx.rng.below(2) as u16 } else { suppress as u16 }).unwrap();
        let ae = hal::dev_read_u16(self.a.dev + 4 + 8 * n as u64).unwrap();
        let uf = hal::dev_read_u16(self.a.dev).unwrap();
        let recv0 = with_sim(|s| { s.policy = policy; s.spins = 0; s.polls.clear(); s.notified = 0; s.active = true; s.dev.script = script; s.dev.done.clear(); s.dev.received });
        let mark = hal::log_len();
        let r = f();
        let evs = hal::log_since(mark);
        let (spins, mut polls, recv1, seen) = with_sim(|s| { s.active = false; (s.spins, s.polls.clone(), s.dev.received, s.dev.done.pop()) });
        let (ui, uid, ulen) = self.used_view();
        polls.push(ui);
        let popped = evs.iter().any(|e| matches!(e, Ev::Unshare { .. }));
        if popped { self.last_used = self.last_used.wrapping_add(1); }
        ctx.tr.note(match policy { Policy::OnNotify => "policy_on_notify", Policy::Poll(_) => "policy_poll", Policy::Late(_) => "policy_late" });
        (r, Obs { token: ring_token(&evs), evs, spins, polls, ae, uf, uid, ulen, seen, received: recv1 - recv0, popped })
    }
}

fn pick_policy(ctx: &mut Ctx) -> Policy {
    match ctx.rng.below(3) { 0 => Policy::OnNotify, 1 => Policy::Poll(1 + ctx.rng.below(4) as u32), _ => Policy::Late(1 + ctx.rng.below(30) as u32) }
}

/// after the driver has been constructed: queue addresses, reference device, notification callback, line 2067
fn attach(ctx: &mut Ctx, st: &Rc<RefCell<TState>>, kind: Kind, n: usize, evs: &[Ev]) -> Rig {
    let accepted = evs.iter().find_map(|e| if let Ev::WriteFeatures(v) = e { Some(*v) } else { None }).unwrap_or(0);
    let (indirect, event_idx) = (accepted & F_IND != 0, accepted & F_EV != 0);
    let qi = st.borrow().queues[0];
    let a = QAddr { desc: qi.desc, drv: qi.drv, dev: qi.dev, size: n };
    CURQ.with(|c| *c.borrow_mut() = a);
    let seed = ctx.rng.next();
    SIM.with(|c| *c.borrow_mut() = Some(Sim { dev: Dev::new(a, kind, event_idx), policy: Policy::OnNotify, spins: 0, polls: vec![], notified: 0,
        rng: crate::rng::Rng::new(seed), active: false }));
    st.borrow_mut().on_notify = Some(Box::new(|_q, _s| sim_notify()));
    ctx.tr.line(2067, &[n as u128, indirect as u128, event_idx as u128], &[]);
    Rig { st: st.clone(), a, n, indirect, event_idx, last_used: 0, next_id: 1 }
}
fn prepare() {
    hal::reset();
    qrig::BUFIDS.with(|b| b.borrow_mut().clear());
    CURQ.with(|c| *c.borrow_mut() = QAddr::default());
    SIM.with(|c| *c.borrow_mut() = None);
    virtio_drivers::verif::set_observer(Some(observer));
}
fn finish(rig: &Rig, ctx: &mut Ctx, idle: bool) {
    rig.st.borrow_mut().on_notify = None;
    virtio_drivers::verif::set_observer(None);
    SIM.with(|c| *c.borrow_mut() = None);
    if idle { ctx.tr.line(2, &[], &[(hal::live_regions() + hal::live_shares()) as u128]); }
    ledger_line(ctx);
}
fn class_of<T>(r: &std::thread::Result<Result<T, Error>>) -> u128 { match r { Ok(Ok(_)) => 0, Ok(Err(_)) => 1, Err(_) => 2 } }
fn parts(s: &Seen) -> Vec<u128> { let mut v = vec![s.els.len() as u128]; for e in &s.els { v.extend([e.1 as u128, e.2 as u128]); } v }

// ------------------------------------------------------------------------------------------------
// rng
fn rng_history(ctx: &mut Ctx, feats: u64, nops: usize) {
    prepare();
    let (t, st) = ModelTransport::new(TState::new(DeviceType::EntropySource, feats, 1, 8));
    let r = catch_unwind(AssertUnwindSafe(move || VirtIORng::<LedgerHal, ModelTransport>::new(t)));
    let evs = hal::take_log();
    let mut drv = match r { Ok(Ok(d)) => d, _ => { ledger_line(ctx); return; } };
    let mut rig = attach(ctx, &st, Kind::Rng, 8, &evs);
    let mut idle = true;
    for opno in 0..nops {
        let last = opno + 1 == nops;
        let len: usize = match ctx.rng.below(8) { 0 => 1, 1 => 2, 2 => 4096, 3 => 255 + ctx.rng.below(3) as usize, 4 => 4095 + ctx.rng.below(3) as usize,
            5 => 65535 + ctx.rng.below(3) as usize, _ => 1 + ctx.rng.below(600) as usize };
        let len = if last && ctx.rng.chance(1, 3) { 0 } else { len };
        let mut script = Script::default();
        // the length the device records: everything, a partial fill, nothing, more than the buffer, absurd
        match ctx.rng.below(8) {
            0 => { let k = ctx.rng.below(len as u64 + 1) as usize; script.write_only = Some(k); }
            1 => { script.write_only = Some(0); }
            2 => { script.used_override = Some(len as u32 + 1 + ctx.rng.below(3) as u32); }
            3 => { script.used_override = Some(*ctx.rng.pick(&[u32::MAX, u32::MAX - 1, 1 << 31, 1 << 16, 0x1_0000 + 1])); }
            4 => { let k = len.saturating_sub(1); script.write_only = Some(k); }
            _ => {}
        }
        if last && len != 0 && ctx.rng.chance(1, 2) { script.wrong_id = true; }
        let wrong = script.wrong_id;
        let did = rig.fresh_id();
        let mut dst: Box<[u8]> = vec![0xA5u8; len].into_boxed_slice();
        let mut ids = Ids { known: HashMap::new(), req: None, resp: None };
        ids.known.insert(dst.as_ptr() as usize, did);
        let policy = pick_policy(ctx);
        let (r, o) = { let d = &mut dst[..]; let drv = &mut drv; rig.around(ctx, policy, script, move || catch_unwind(AssertUnwindSafe(move || drv.request_entropy(d)))) };
        let (daddr, _, taddr) = share_addrs(&o.evs, &ids, did, u64::MAX);
        let mut ins = vec![taddr as u128, o.ae as u128, o.uf as u128, o.uid as u128, o.ulen as u128, did as u128, len as u128, daddr as u128, o.polls.len() as u128];
        ins.extend(o.polls.iter().map(|p| *p as u128));
        let res = enc_result(&r, |v| *v as u128);
        let mut outs = vec![res[0], res[1], o.spins as u128];
        outs.extend(enc_events(&o.evs, &ids, o.token.unwrap_or(0) as u128));
        ctx.tr.line(2068, &ins, &outs);
        ctx.tr.note(&format!("rng_class{}", res[0]));
        if let (Some(s), false) = (&o.seen, wrong) {
            if res[0] != 2 {
                let bytes_ok = s.ok && dst[..] == s.written[..];
                let mut m = vec![len as u128, s.used_len as u128, res[0], res[1], bytes_ok as u128];
                m.extend(parts(s));
                ctx.tr.line(2090, &m, &[1]);
                ctx.tr.note(if s.used_len as usize > len { "rng_used_above_buffer" } else if (s.used_len as usize) < len { "rng_used_below_buffer" } else { "rng_used_full" });
            }
        }
        if !o.popped && o.token.is_some() { idle = false; }
        if res[0] != 0 { break; }
        if ctx.rng.chance(1, 8) {
            let en = ctx.rng.chance(1, 2); let mark = hal::log_len();
            if en { drv.enable_interrupts() } else { drv.disable_interrupts() }
            let ids = Ids { known: HashMap::new(), req: None, resp: None };
            ctx.tr.line(2073, &[en as u128], &enc_events(&hal::log_since(mark), &ids, 0));
            ctx.tr.note("rng_set_interrupts");
        }
    }
    drop(drv);
    finish(&rig, ctx, idle);
}

// ------------------------------------------------------------------------------------------------
// rtc
fn rtc_script(ctx: &mut Ctx) -> Script {
    let mut s = Script::default();
    s.status = match ctx.rng.below(10) { 0 => 2, 1 => 3, 2 => 4, 3 => 5, 4 => *ctx.rng.pick(&[1u8, 6, 7, 127, 128, 254, 255]), 5 => ctx.rng.next() as u8, _ => 0 };
    s.num_clocks = ctx.rng.boundary(16) as u16;
    s.cap = (match ctx.rng.below(8) { 0 => 5, 1 => ctx.rng.next() as u8, 2 | 3 | 4 => 3, _ => ctx.rng.below(5) as u8 },
             match ctx.rng.below(6) { 0 => 3, 1 => ctx.rng.next() as u8, _ => ctx.rng.below(3) as u8 },
             match ctx.rng.below(4) { 0 => ctx.rng.next() as u8, 1 => 2, 2 => 0xFE, _ => ctx.rng.below(2) as u8 });
    s.reading = ctx.rng.boundary(64);
    match ctx.rng.below(12) {
        0 => { s.write_only = Some(8); }                         // head only
        1 => { s.write_only = Some(ctx.rng.below(16) as usize); }
        2 => { s.used_override = Some(*ctx.rng.pick(&[0u32, 1, 8, 15, 17, 24, u32::MAX])); }
        _ => {}
    }
    s
}

fn rtc_history(ctx: &mut Ctx, feats: u64, nops: usize) {
    prepare();
    let (t, st) = ModelTransport::new(TState::new(DeviceType::Timer, feats, 2, 8));
    let r = catch_unwind(AssertUnwindSafe(move || VirtIORtc::<LedgerHal, ModelTransport>::new(t)));
    let evs = hal::take_log();
    let mut drv = match r { Ok(Ok(d)) => d, _ => { ledger_line(ctx); return; } };
    let mut rig = attach(ctx, &st, Kind::Rtc, 8, &evs);
    let mut idle = true;
    {
        // the device may offer anything; the answer is whatever the rtc Feature type does not name
        let offered = match ctx.rng.below(4) { 0 => feats, 1 => u64::MAX, 2 => feats | (1 << ctx.rng.below(64)), _ => ctx.rng.next() };
        st.borrow_mut().features = offered;
        let v = drv.invalid_feature_bits().map(|x| x.get()).unwrap_or(0);
        st.borrow_mut().features = feats;
        hal::take_log();
        ctx.tr.line(2072, &[offered as u128], &[v as u128]);
        ctx.tr.note(if v == 0 { "rtc_invalid_bits_none" } else { "rtc_invalid_bits_some" });
    }
    for opno in 0..nops {
        let last = opno + 1 == nops;
        let op = ctx.rng.below(3) as u8;
        let clock_id = match ctx.rng.below(4) { 0 => ctx.rng.below(4) as u16, 1 => ctx.rng.boundary(16) as u16, 2 => *ctx.rng.pick(&[0x0100u16, 0x00FF, 0x1234, 0xFF00, 0x8001, 0xFFFF]), _ => ctx.rng.next() as u16 };
        let mut script = rtc_script(ctx);
        if last && ctx.rng.chance(1, 2) { script.wrong_id = true; }
        let wrong = script.wrong_id;
        let qid = rig.fresh_id(); let rid = rig.fresh_id();
        let ids = Ids { known: HashMap::new(), req: Some(qid), resp: Some(rid) };
        let policy = pick_policy(ctx);
        let (r, o) = { let drv = &mut drv; rig.around(ctx, policy, script, move || catch_unwind(AssertUnwindSafe(move || -> Result<[u128; 3], Error> {
            match op {
                0 => drv.num_clocks().map(|v| [v as u128, 0, 0]),
                1 => drv.clock_cap(clock_id).map(|c| [c.kind as u8 as u128, c.leap_second_smearing.map(|s| s as u8 as u128).unwrap_or(0), c.alarm_capability as u128]),
                _ => drv.read(clock_id).map(|v| [v as u128, 0, 0]),
            } }))) };
        let (qaddr, raddr, taddr) = share_addrs(&o.evs, &ids, qid, rid);
        let mut ins = vec![op as u128, clock_id as u128, taddr as u128, o.ae as u128, o.uf as u128, o.uid as u128, o.ulen as u128,
            qid as u128, qaddr as u128, rid as u128, raddr as u128, o.polls.len() as u128];
        ins.extend(o.polls.iter().map(|p| *p as u128));
        if let Some(s) = &o.seen { ins.extend(s.written.iter().map(|b| *b as u128)); }
        let (class, v): (u128, [u128; 3]) = match &r { Ok(Ok(v)) => (0, *v), Ok(Err(e)) => (1, [err_code(e), 0, 0]), Err(_) => (2, [0, 0, 0]) };
        let mut outs = vec![class, v[0], v[1], v[2], o.spins as u128];
        match &o.seen { Some(s) => { outs.push(s.readable.len() as u128); outs.extend(s.readable.iter().map(|b| *b as u128)); } None => outs.push(0) }
        outs.extend(enc_events(&o.evs, &ids, o.token.unwrap_or(0) as u128));
        ctx.tr.line(2069, &ins, &outs);
        if let Some(s) = &o.seen {
            let mut m = vec![op as u128, clock_id as u128]; m.extend(parts(s)); m.extend(s.readable.iter().map(|b| *b as u128));
            ctx.tr.line(2091, &m, &[1]);
            if !wrong && class != 2 {
                let mut m = vec![op as u128, class, v[0], v[1], v[2]]; m.extend(s.written.iter().map(|b| *b as u128));
                ctx.tr.line(2092, &m, &[1]);
                let st = s.written.first().copied().unwrap_or(0);
                ctx.tr.note(&format!("rtc_op{}_status{}", op, if st <= 5 { st.to_string() } else { "other".into() }));
                if op == 1 && st == 0 { ctx.tr.note(&format!("rtc_cap_type{}_class{}", s.written[8].min(5), class)); }
                if s.used_len != 16 { ctx.tr.note("rtc_used_len_not_16"); }
            }
        }
        if !o.popped && o.token.is_some() { idle = false; }
        if class == 2 || !o.popped { break; }
    }
    drop(drv);
    finish(&rig, ctx, idle);
}

// ------------------------------------------------------------------------------------------------
// 9p
fn tag_config(tag: &[u8]) -> Vec<u8> { let mut c = (tag.len() as u16).to_le_bytes().to_vec(); c.extend_from_slice(tag); c }

#[cfg(feature = "alloc")]
fn p9_history(ctx: &mut Ctx, feats: u64, nops: usize) {
    prepare();
    let mut ts = TState::new(DeviceType::_9P, feats, 1, 16);
    ts.config = tag_config(b"verif");
    let (t, st) = ModelTransport::new(ts);
    let r = catch_unwind(AssertUnwindSafe(move || VirtIO9p::<LedgerHal, ModelTransport>::new(t)));
    let evs = hal::take_log();
    let mut drv = match r { Ok(Ok(d)) => d, _ => { ledger_line(ctx); return; } };
    let mut rig = attach(ctx, &st, Kind::P9, 16, &evs);
    let mut idle = true;
    for opno in 0..nops {
        let last = opno + 1 == nops;
        let req_len: usize = match ctx.rng.below(10) { 0 => 0, 1 => 1, 2 => 7, 3 => 4096, _ => 1 + ctx.rng.below(300) as usize };
        let resp_len: usize = match ctx.rng.below(10) { 0 => ctx.rng.below(7) as usize, 1 => 6, 2 => 7, 3 => 8, 4 => 8192, _ => 7 + ctx.rng.below(400) as usize };
        let mut script = Script::default();
        // the reply: n bytes written, size field, recorded used length
        let n = match ctx.rng.below(6) { 0 => resp_len, 1 => 7.min(resp_len), 2 => ctx.rng.below(resp_len as u64 + 1) as usize, 3 => ctx.rng.below(8).min(resp_len as u64) as usize, _ => 7 + ctx.rng.below((resp_len.max(7) - 6) as u64) as usize }.min(resp_len);
        let mut reply = ctx.rng.bytes(n.max(4));
        let mut used = n as u32;
        let mut size = n as u32;
        match ctx.rng.below(12) {
            0 => { size = size.wrapping_add(1); }
            1 => { size = size.wrapping_sub(1); }
            2 => { size = 0; }
            3 => { size = *ctx.rng.pick(&[u32::MAX, 1 << 31, 1 << 16, 1 << 8, 1 << 24]); }
            4 => { used = used.wrapping_add(1 + ctx.rng.below(2) as u32); }
            5 => { used = resp_len as u32 + 1 + ctx.rng.below(5) as u32; size = used; }         // both beyond the buffer
            6 => { size = (size & 0xFFFF_FF00) | (!size & 0xFF); }                              // one byte differs
            7 => { size ^= 1 << (8 * (1 + ctx.rng.below(3))); }                                  // a higher byte differs
            8 => { used = *ctx.rng.pick(&[0u32, u32::MAX, 1 << 16]); if ctx.rng.chance(1, 2) { size = used; } }
            _ => {}
        }
        reply[0..4].copy_from_slice(&size.to_le_bytes());
        reply.truncate(resp_len.max(0));
        script.reply = reply; script.used_override = Some(used);
        let args_ok = req_len != 0 && resp_len >= 7;
        if last && args_ok && ctx.rng.chance(1, 2) { script.wrong_id = true; }
        let wrong = script.wrong_id;
        let qid = rig.fresh_id(); let rid = rig.fresh_id();
        let req: Box<[u8]> = ctx.rng.bytes(req_len).into_boxed_slice();
        let mut resp: Box<[u8]> = vec![0x5Au8; resp_len].into_boxed_slice();
        let mut ids = Ids { known: HashMap::new(), req: None, resp: None };
        ids.known.insert(req.as_ptr() as usize, qid); ids.known.insert(resp.as_ptr() as usize, rid);
        if req_len == 0 { ids.known.remove(&(req.as_ptr() as usize)); }
        let policy = pick_policy(ctx);
        let (r, o) = { let (q, p) = (&req[..], &mut resp[..]); let drv = &mut drv; rig.around(ctx, policy, script, move || catch_unwind(AssertUnwindSafe(move || drv.request(q, p)))) };
        let (qaddr, raddr, taddr) = share_addrs(&o.evs, &ids, qid, rid);
        let h: Vec<u128> = (0..4).map(|i| resp.get(i).copied().unwrap_or(0) as u128).collect();
        let mut ins = vec![req_len as u128, resp_len as u128, taddr as u128, o.ae as u128, o.uf as u128, o.uid as u128, o.ulen as u128,
            qid as u128, qaddr as u128, rid as u128, raddr as u128, h[0], h[1], h[2], h[3], o.polls.len() as u128];
        ins.extend(o.polls.iter().map(|p| *p as u128));
        let res = enc_result(&r, |v| *v as u128);
        let mut outs = vec![res[0], res[1], if o.token.is_some() { o.spins as u128 } else { 0 }];
        outs.extend(enc_events(&o.evs, &ids, o.token.unwrap_or(0) as u128));
        ctx.tr.line(2070, &ins, &outs);
        ctx.tr.line(2095, &[req_len as u128, resp_len as u128, res[0], res[1], o.received as u128], &[1]);
        ctx.tr.note(&format!("p9_class{}_code{}", res[0], if res[0] == 1 { res[1] } else { 0 }));
        if let Some(s) = &o.seen {
            let mut m = vec![req_len as u128, resp_len as u128, (s.ok && s.readable[..] == req[..]) as u128]; m.extend(parts(s));
            ctx.tr.line(2093, &m, &[1]);
            if !wrong && res[0] != 2 {
                let hb: Vec<u128> = (0..4).map(|i| s.written.get(i).copied().unwrap_or(0) as u128).collect();
                ctx.tr.line(2094, &[s.used_len as u128, res[0], res[1], (resp[..] == s.written[..]) as u128, hb[0], hb[1], hb[2], hb[3]], &[1]);
                if s.used_len as usize > resp_len { ctx.tr.note("p9_used_above_buffer"); }
            }
        }
        if !o.popped && o.token.is_some() { idle = false; }
        if res[0] == 2 || (o.token.is_some() && !o.popped) { break; }
    }
    drop(drv);
    finish(&rig, ctx, idle);
}

// ------------------------------------------------------------------------------------------------
// mount tag
fn enc_utf8(cp: u32) -> Vec<u8> {
    // raw encoder (also used for surrogates and values above U+10FFFF, which are NOT well-formed)
    if cp < 0x80 { vec![cp as u8] }
    else if cp < 0x800 { vec![0xC0 | (cp >> 6) as u8, 0x80 | (cp & 0x3F) as u8] }
    else if cp < 0x10000 { vec![0xE0 | (cp >> 12) as u8, 0x80 | ((cp >> 6) & 0x3F) as u8, 0x80 | (cp & 0x3F) as u8] }
    else { vec![0xF0 | ((cp >> 18) & 7) as u8, 0x80 | ((cp >> 12) & 0x3F) as u8, 0x80 | ((cp >> 6) & 0x3F) as u8, 0x80 | (cp & 0x3F) as u8] }
}
fn gen_tag(ctx: &mut Ctx) -> Vec<u8> {
    let len_target: usize = match ctx.rng.below(10) { 0 => 1, 1 => 2, 2 => 255, 3 => 256, 4 => 257, 5 => 300 + ctx.rng.below(300) as usize, _ => 1 + ctx.rng.below(40) as usize };
    let mut t: Vec<u8> = vec![];
    let valid_only = ctx.rng.chance(2, 3);
    let edge = [0u32, 0x7F, 0x80, 0x7FF, 0x800, 0xFFF, 0x1000, 0xCFFF, 0xD000, 0xD7FF, 0xE000, 0xFFFD, 0xFFFF, 0x10000, 0x3FFFF, 0x40000, 0xFFFFF, 0x100000, 0x10FFFF];
    while t.len() < len_target {
        let piece: Vec<u8> = match ctx.rng.below(if valid_only { 4 } else { 12 }) {
            0 => vec![0x20 + ctx.rng.below(0x5F) as u8],
            1 => enc_utf8(*ctx.rng.pick(&edge)),
            2 => { let cp = ctx.rng.below(0x110000) as u32; enc_utf8(if (0xD800..0xE000).contains(&cp) { 0x1F600 } else { cp }) }
            3 => enc_utf8(*ctx.rng.pick(&[0xE9u32, 0x20AC, 0x1F600, 0x4E2D])),
            4 => enc_utf8(0xD800 + ctx.rng.below(0x800) as u32),                                   // surrogate
            5 => ctx.rng.pick(&[vec![0xC0u8, 0x80], vec![0xC1, 0xBF], vec![0xE0, 0x80, 0x80], vec![0xE0, 0x9F, 0xBF], vec![0xF0, 0x80, 0x80, 0x80], vec![0xF0, 0x8F, 0xBF, 0xBF]]).clone(), // overlong
            6 => ctx.rng.pick(&[vec![0xF4u8, 0x90, 0x80, 0x80], vec![0xF5, 0x80, 0x80, 0x80], vec![0xF7, 0xBF, 0xBF, 0xBF], vec![0xF8, 0x88, 0x80, 0x80, 0x80], vec![0xFF], vec![0xFE]]).clone(),
            7 => vec![0x80 + ctx.rng.below(0x40) as u8],                                           // lone continuation
            8 => { let mut v = enc_utf8(*ctx.rng.pick(&[0x80u32, 0x800, 0x10000, 0x10FFFF, 0xFFFF])); v.pop(); v }   // truncated
            9 => { let mut v = enc_utf8(*ctx.rng.pick(&[0x800u32, 0x10000])); let l = v.len(); v[l - 1] = *ctx.rng.pick(&[0x7Fu8, 0xC0, 0x00]); v }   // bad trail
            10 => ctx.rng.pick(&[vec![0xEDu8, 0x9F, 0xBF], vec![0xED, 0xA0, 0x80], vec![0xEE, 0x80, 0x80], vec![0xEF, 0xBF, 0xBF], vec![0xF4, 0x8F, 0xBF, 0xBF], vec![0xF0, 0x90, 0x80, 0x80], vec![0xE0, 0xA0, 0x80], vec![0xC2, 0x80], vec![0xDF, 0xBF]]).clone(),
            _ => { let k = 1 + ctx.rng.below(3) as usize; ctx.rng.bytes(k) }
        };
        t.extend(piece);
    }
    // sometimes cut in the middle of a sequence
    if !valid_only && ctx.rng.chance(1, 3) { t.truncate(len_target); }
    if t.is_empty() { t.push(b'x'); }
    t
}

/// what ModelTransport will answer to the read_consistent loop of read_mount_tag (tport.rs: cfg_tick on every
/// generation or config read; scheduled changes applied when the access counter reaches their ordinal)
#[allow(clippy::type_complexity)]
fn simulate_tag(cfg0: &[u8], sched: &[(usize, Vec<u8>, bool)], fail_at: Option<usize>) -> Vec<(u32, Result<u16, u128>, Vec<Result<u8, u128>>, u32)> {
    let mut cfg = cfg0.to_vec(); let mut gen = 0u32; let mut acc = 0usize; let mut reads = 0usize; let mut out = vec![];
    let mut sched: Vec<(usize, Vec<u8>, bool)> = sched.to_vec();
    let mut tick = |cfg: &mut Vec<u8>, gen: &mut u32, acc: &mut usize| { *acc += 1; let mut i = 0; while i < sched.len() { if sched[i].0 == *acc { let (_, b, bump) = sched.remove(i); *cfg = b; if bump { *gen = gen.wrapping_add(1); } } else { i += 1; } } };
    for _ in 0..64 {
        tick(&mut cfg, &mut gen, &mut acc); let g1 = gen;
        tick(&mut cfg, &mut gen, &mut acc); let k = reads; reads += 1;
        let failing = |k: usize| fail_at.map(|f| k >= f).unwrap_or(false);
        let len: Result<u16, u128> = if failing(k) || cfg.len() < 2 { Err(9) } else { Ok(u16::from_le_bytes([cfg[0], cfg[1]])) };
        let mut bytes = vec![];
        if let Ok(l) = len { if l != 0 {
            for idx in 0..l as usize {
                tick(&mut cfg, &mut gen, &mut acc); let k = reads; reads += 1;
                if failing(k) || 2 + idx >= cfg.len() { bytes.push(Err(9)); break; }
                bytes.push(Ok(cfg[2 + idx]));
            } } }
        tick(&mut cfg, &mut gen, &mut acc); let g2 = gen;
        out.push((g1, len, bytes, g2));
        if g1 == g2 { break; }
    }
    out
}

#[cfg(feature = "alloc")]
fn tag_case(ctx: &mut Ctx, big: bool) {
    prepare();
    let feats = *ctx.rng.pick(&FEATURE_SETS);
    let tag = gen_tag(ctx);
    let mut cfg = tag_config(&tag);
    let mut monitor_ok = true;
    match ctx.rng.below(14) {
        0 => { cfg[0] = 0; cfg[1] = 0; }                                              // tag_len 0
        1 => { let cut = 1 + ctx.rng.below(3) as usize; let l = cfg.len(); cfg.truncate(l.saturating_sub(cut).max(2)); }   // config space shorter than the tag
        2 => { cfg.truncate(ctx.rng.below(3) as usize); }                              // not even the length
        3 => { let k = 1 + ctx.rng.below(8) as usize; cfg.extend(ctx.rng.bytes(k)); }             // bytes after the tag do not count
        4 => { let l = (tag.len() as u16).wrapping_add(*ctx.rng.pick(&[1u16, 2, 256, 0x8000])); cfg[0..2].copy_from_slice(&l.to_le_bytes()); }
        5 => { cfg[0..2].copy_from_slice(&0xFFFFu16.to_le_bytes()); }
        _ => {}
    }
    if big {
        // the longest tag a device can expose
        let n = *ctx.rng.pick(&[12000usize, 8191, 4096]);
        let mut t = vec![]; while t.len() + 4 <= n { t.extend(enc_utf8(*ctx.rng.pick(&[0x41u32, 0xE9, 0x20AC, 0x1F600]))); } while t.len() < n { t.push(b'z'); }
        cfg = tag_config(&t);
    }
    let mut sched: Vec<(usize, Vec<u8>, bool)> = vec![];
    if !big && ctx.rng.chance(1, 4) {
        // the device changes the tag while it is being read
        for _ in 0..1 + ctx.rng.below(2) {
            let at = 1 + ctx.rng.below(cfg.len() as u64 + 4) as usize;
            let bump = ctx.rng.chance(5, 6);
            if !bump { monitor_ok = false; }
            let t2 = gen_tag(ctx);
            if !sched.iter().any(|(a, _, _)| *a == at) { sched.push((at, tag_config(&t2), bump)); }
        }
    }
    let fail_at = if !big && ctx.rng.chance(1, 12) { monitor_ok = false; Some(ctx.rng.below(cfg.len() as u64 + 1) as usize) } else { None };
    let mut ts = TState::new(DeviceType::_9P, feats, 1, 16);
    ts.config = cfg.clone(); ts.cfg_schedule = sched.clone(); ts.fail_config_read_at = fail_at;
    let tries = simulate_tag(&cfg, &sched, fail_at);
    let (t, st) = ModelTransport::new(ts);
    let r = catch_unwind(AssertUnwindSafe(move || VirtIO9p::<LedgerHal, ModelTransport>::new(t)));
    let evs = hal::take_log();
    let mut ins = vec![tries.len() as u128];
    for (g1, len, bytes, g2) in &tries {
        ins.push(*g1 as u128);
        match len { Ok(l) => ins.extend([1, *l as u128]), Err(e) => ins.extend([0, *e]) }
        ins.push(bytes.len() as u128);
        for b in bytes { match b { Ok(v) => ins.extend([1, *v as u128]), Err(e) => ins.extend([0, *e]) } }
        ins.push(*g2 as u128);
    }
    let got: Vec<u8> = match &r { Ok(Ok(d)) => d.mount_tag().as_bytes().to_vec(), _ => vec![] };
    let (class, code) = match &r { Ok(Ok(_)) => (0u128, 0u128), Ok(Err(e)) => (1, err_code(e)), Err(_) => (2, 0) };
    let mut outs = vec![class, code, got.len() as u128];
    outs.extend(got.iter().map(|b| *b as u128));
    outs.push(99);
    for e in &evs { match e { Ev::ReadGen => outs.push(5), Ev::ReadConfig { off, len } => outs.extend([6, *off as u128, *len as u128]), _ => {} } }
    ctx.tr.line(2071, &ins, &outs);
    if tries.len() > 1 { ctx.tr.note("tag_config_changed_during_read"); }
    // the monitor: against the device's config space as it stands (skipped when reads were made to fail or the
    // device changed the tag without bumping the generation)
    if monitor_ok {
        let fin: Vec<u8> = st.borrow().config.clone();
        let exposed: Option<&[u8]> = if fin.len() >= 2 { let n = u16::from_le_bytes([fin[0], fin[1]]) as usize; if n != 0 && 2 + n <= fin.len() { Some(&fin[2..2 + n]) } else { None } } else { None };
        let rust_valid = exposed.map(|t| std::str::from_utf8(t).is_ok()).unwrap_or(false);
        let mut m = vec![class, code, rust_valid as u128, got.len() as u128];
        m.extend(got.iter().map(|b| *b as u128));
        m.extend(fin.iter().map(|b| *b as u128));
        ctx.tr.line(2096, &m, &[1]);
        ctx.tr.note(match (exposed.is_some(), rust_valid) { (false, _) => "tag_not_exposed", (true, true) => "tag_valid_utf8", (true, false) => "tag_invalid_utf8" });
        if let Some(t) = exposed { ctx.tr.note(if t.len() >= 256 { "tag_len_ge_256" } else { "tag_len_lt_256" }); }
    }
    ctx.tr.note(&format!("tag_class{}_code{}", class, code));
    drop(r);
    virtio_drivers::verif::set_observer(None);
    ledger_line(ctx);
}

pub fn run(ctx: &mut Ctx) {
    let ops = ctx.budget(400, 5) as usize;
    for (i, f) in FEATURE_SETS.iter().enumerate() {
        for rep in 0..2 {
            ctx.tr.scenario(&format!("c20misc-rng-{}-{}", i, rep)); rng_history(ctx, *f, ops / 2);
            ctx.tr.scenario(&format!("c20misc-rtc-{}-{}", i, rep)); rtc_history(ctx, *f, ops);
            #[cfg(feature = "alloc")]
            { ctx.tr.scenario(&format!("c20misc-9p-{}-{}", i, rep)); p9_history(ctx, *f, ops); }
        }
    }
    // short histories: the foreign-id / zero-length endings
    let short = ctx.budget(200, 5);
    for h in 0..short {
        let f = FEATURE_SETS[(h as usize) % FEATURE_SETS.len()];
        ctx.tr.scenario(&format!("c20misc-rng-short-{}", h)); { let k = 1 + ctx.rng.below(4) as usize; rng_history(ctx, f, k); }
        ctx.tr.scenario(&format!("c20misc-rtc-short-{}", h)); { let k = 1 + ctx.rng.below(4) as usize; rtc_history(ctx, f, k); }
        #[cfg(feature = "alloc")]
        { ctx.tr.scenario(&format!("c20misc-9p-short-{}", h)); { let k = 1 + ctx.rng.below(4) as usize; p9_history(ctx, f, k); } }
    }
    let tags = ctx.budget(2000, 6);
    #[cfg(feature = "alloc")]
    for i in 0..tags { ctx.tr.scenario(&format!("c20misc-tag-{}", i)); tag_case(ctx, false); }
    let bigs = ctx.budget(1, 4);
    #[cfg(feature = "alloc")]
    for i in 0..bigs { ctx.tr.scenario(&format!("c20misc-tag-big-{}", i)); tag_case(ctx, true); }
}
