//! C10: the real `MmioTransport` (and `SomeTransport::Mmio`) over an emulated register file.
//! The register window lives at a fake address that is never dereferenced: every access of the
//! transport goes through safe-mmio's custom backend (`crate::mmio`), is logged as `Ev::Mmio` in
//! program order and answered by the scenario. Per operation two trace lines are written:
//!   1010  arguments + device answers | result + ordered access list   (compared with the Coq model)
//!   1011  MONITOR: the property predicate `mmio_conform_b` evaluated on the OBSERVED access list
//! probing: 1001 / 1002 likewise; 1021 = MONITOR over a whole session (probe; operations; drop).
use crate::hal::{self, Ev};
use crate::mmio::{self, MmioDev};
use crate::Ctx;
use std::cell::RefCell;
use std::collections::VecDeque;
use std::panic::{catch_unwind, AssertUnwindSafe};
use std::ptr::NonNull;
use std::rc::Rc;
use virtio_drivers::device::common::Feature;
use virtio_drivers::transport::mmio::{MmioError, MmioTransport, MmioVersion, VirtIOHeader};
use virtio_drivers::transport::{DeviceStatus, DeviceTypeError, SomeTransport, Transport};

const VBASE: usize = 0x6000_0000_0000;
const REGION: u32 = 10;
const MAGIC: u32 = 0x7472_6976;

/// identification registers are constants of the device; every other read pops the answer stream
struct DevState { magic: u32, version: u32, device_id: u32, answers: VecDeque<u32> }
struct Dev(Rc<RefCell<DevState>>);
impl MmioDev for Dev {
    fn read(&mut self, off: u64, _width: u8) -> u64 {
        let mut s = self.0.borrow_mut();
        (match off { 0 => s.magic, 4 => s.version, 8 => s.device_id, _ => s.answers.pop_front().unwrap_or(0) }) as u64
    }
    fn write(&mut self, _off: u64, _width: u8, _val: u64) {}
}

#[derive(Clone, Copy, Debug)]
pub enum Op {
    DeviceType, ReadFeatures, WriteFeatures(u64), MaxQueueSize(u16), Notify(u16), GetStatus, SetStatus(u32),
    SetGuestPageSize(u32), RequiresLegacy, QueueSet(u16, u32, u64, u64, u64), QueueUnset(u16), QueueUsed(u16),
    AckInterrupt, ConfigGeneration, Drop, VendorId, BeginInit(u64), FinishInit,
}
impl Op {
    fn code(&self) -> u128 {
        match self { Op::DeviceType => 0, Op::ReadFeatures => 1, Op::WriteFeatures(_) => 2, Op::MaxQueueSize(_) => 3, Op::Notify(_) => 4,
            Op::GetStatus => 5, Op::SetStatus(_) => 6, Op::SetGuestPageSize(_) => 7, Op::RequiresLegacy => 8, Op::QueueSet(..) => 9,
            Op::QueueUnset(_) => 10, Op::QueueUsed(_) => 11, Op::AckInterrupt => 12, Op::ConfigGeneration => 13, Op::Drop => 14,
            Op::VendorId => 15, Op::BeginInit(_) => 16, Op::FinishInit => 17 }
    }
    fn args(&self) -> [u128; 5] {
        match *self {
            Op::WriteFeatures(f) => [f as u128, 0, 0, 0, 0],
            // what begin_init receives is a value of the flags type: undefined bits cannot be expressed
            Op::BeginInit(f) => [Feature::from_bits_truncate(f).bits() as u128, 0, 0, 0, 0],
            Op::MaxQueueSize(q) | Op::Notify(q) | Op::QueueUnset(q) | Op::QueueUsed(q) => [q as u128, 0, 0, 0, 0],
            Op::SetStatus(s) | Op::SetGuestPageSize(s) => [s as u128, 0, 0, 0, 0],
            Op::QueueSet(q, n, a, b, c) => [q as u128, n as u128, a as u128, b as u128, c as u128],
            _ => [0; 5],
        }
    }
    fn name(&self) -> &'static str {
        match self { Op::DeviceType => "device_type", Op::ReadFeatures => "read_device_features", Op::WriteFeatures(_) => "write_driver_features",
            Op::MaxQueueSize(_) => "max_queue_size", Op::Notify(_) => "notify", Op::GetStatus => "get_status", Op::SetStatus(_) => "set_status",
            Op::SetGuestPageSize(_) => "set_guest_page_size", Op::RequiresLegacy => "requires_legacy_layout", Op::QueueSet(..) => "queue_set",
            Op::QueueUnset(_) => "queue_unset", Op::QueueUsed(_) => "queue_used", Op::AckInterrupt => "ack_interrupt",
            Op::ConfigGeneration => "read_config_generation", Op::Drop => "drop", Op::VendorId => "vendor_id", Op::BeginInit(_) => "begin_init",
            Op::FinishInit => "finish_init" }
    }
}

fn apply<T: Transport>(t: &mut T, op: Op) -> u128 {
    match op {
        Op::DeviceType => t.device_type() as u8 as u128,
        Op::ReadFeatures => t.read_device_features() as u128,
        Op::WriteFeatures(f) => { t.write_driver_features(f); 0 }
        Op::MaxQueueSize(q) => t.max_queue_size(q) as u128,
        Op::Notify(q) => { t.notify(q); 0 }
        Op::GetStatus => t.get_status().bits() as u128,
        Op::SetStatus(s) => { t.set_status(DeviceStatus::from_bits_retain(s)); 0 }
        Op::SetGuestPageSize(p) => { t.set_guest_page_size(p); 0 }
        Op::RequiresLegacy => t.requires_legacy_layout() as u128,
        Op::QueueSet(q, n, a, b, c) => { t.queue_set(q, n, a, b, c); 0 }
        Op::QueueUnset(q) => { t.queue_unset(q); 0 }
        Op::QueueUsed(q) => t.queue_used(q) as u128,
        Op::AckInterrupt => t.ack_interrupt().bits() as u128,
        Op::ConfigGeneration => t.read_config_generation() as u128,
        Op::BeginInit(s) => t.begin_init(Feature::from_bits_truncate(s)).bits() as u128,
        Op::FinishInit => { t.finish_init(); 0 }
        Op::Drop | Op::VendorId => unreachable!(),
    }
}

enum Tp { M(MmioTransport<'static>), S(SomeTransport<'static>) }

/// the ordered register accesses in an event slice, flattened as (write, off, width, val)
fn enc_mmio(evs: &[Ev]) -> Vec<u128> {
    let mut o = vec![];
    for e in evs {
        if let Ev::Mmio { region, write, off, width, val } = e {
            // an access outside every window keeps its absolute address as the offset: no table has it
            let off = if *region == REGION { *off as u128 } else { (1u128 << 64) + *off as u128 };
            o.extend([*write as u128, off, *width as u128, *val as u128]);
        }
    }
    o
}

fn install(magic: u32, version: u32, device_id: u32, window: usize) -> Rc<RefCell<DevState>> {
    hal::reset();
    mmio::clear();
    let st = Rc::new(RefCell::new(DevState { magic, version, device_id, answers: VecDeque::new() }));
    mmio::register(REGION, VBASE, window, Box::new(Dev(st.clone())));
    st
}
fn header() -> NonNull<VirtIOHeader> { NonNull::new(VBASE as *mut VirtIOHeader).unwrap() }

fn enc_probe_result(r: &Result<MmioTransport<'static>, MmioError>) -> [u128; 3] {
    match r {
        Ok(t) => [0, match t.version() { MmioVersion::Legacy => 1, MmioVersion::Modern => 2 }, t.device_type() as u8 as u128],
        Err(MmioError::BadMagic(m)) => [1, 1, *m as u128],
        Err(MmioError::UnsupportedVersion(v)) => [1, 2, *v as u128],
        Err(MmioError::InvalidDeviceID(DeviceTypeError::InvalidDeviceType(d))) => [1, 3, *d as u128],
        Err(MmioError::MmioRegionTooSmall) => [1, 4, 0],
    }
}

/// one probe: `new` (or `new_from_unique` when `unique`), then the drop of an accepted transport
fn probe_case(ctx: &mut Ctx, size: usize, magic: u32, version: u32, device_id: u32, unique: bool) {
    let _st = install(magic, version, device_id, size.min(0x1000));
    let r = catch_unwind(AssertUnwindSafe(|| {
        if unique {
            // the two pointers `new` would build
            let h = unsafe { safe_mmio::UniqueMmioPointer::new(header()) };
            let cfg = NonNull::slice_from_raw_parts(NonNull::new((VBASE + 0x100) as *mut u8).unwrap(), size - 0x100);
            MmioTransport::new_from_unique(h, unsafe { safe_mmio::UniqueMmioPointer::new(cfg) })
        } else {
            unsafe { MmioTransport::new(header(), size) }
        }
    }));
    let log = hal::take_log();
    let tr = enc_mmio(&log);
    let ins = [size as u128, magic as u128, version as u128, device_id as u128];
    let res: [u128; 3] = match &r { Ok(r) => enc_probe_result(r), Err(_) => [2, 0, 0] };
    let mut outs = res.to_vec(); outs.extend(&tr);
    ctx.tr.line(1001, &ins, &outs);
    let mut mi = ins.to_vec(); mi.extend(res); mi.extend(&tr);
    ctx.tr.line(1002, &mi, &[1]);
    ctx.tr.note(match res[0] { 0 => "probe_accepted", 1 => match res[1] { 1 => "probe_bad_magic", 2 => "probe_bad_version", 3 => "probe_bad_device_id", _ => "probe_too_small" }, _ => "probe_panic" });
    if let Ok(Ok(t)) = r {
        let (ver, dt) = (res[1], res[2]);
        let _ = catch_unwind(AssertUnwindSafe(move || drop(t)));
        op_lines(ctx, false, ver, dt, Op::Drop, &[], &[0, 0], &hal::take_log());
    }
}

/// the two trace lines of one operation
fn op_lines(ctx: &mut Ctx, wrapped: bool, ver: u128, dt: u128, op: Op, answers: &[u32], res: &[u128; 2], log: &[Ev]) {
    let tr = enc_mmio(log);
    let mut ins = vec![wrapped as u128, ctx.release as u128, ver, dt, op.code()];
    ins.extend(op.args());
    ins.extend(answers.iter().map(|a| *a as u128));
    let mut outs = res.to_vec(); outs.extend(&tr);
    ctx.tr.line(1010, &ins, &outs);
    let mut mi = vec![ver, op.code()];
    mi.extend(op.args()); mi.extend(res); mi.extend(&tr);
    ctx.tr.line(1011, &mi, &[1]);
    ctx.tr.note(op.name());
    if res[0] == 2 { ctx.tr.note("op_panicked"); }
}

/// a transport on a fresh emulated device; `session` accumulates every access from the probe on
pub struct Rig { st: Rc<RefCell<DevState>>, t: Option<Tp>, ver: u128, dt: u128, wrapped: bool, session: Vec<Ev> }
impl Rig {
    pub fn new(ctx: &mut Ctx, version: u32, device_id: u32, wrapped: bool) -> Option<Rig> {
        let st = install(MAGIC, version, device_id, 0x200);
        let r = catch_unwind(AssertUnwindSafe(|| unsafe { MmioTransport::new(header(), 0x200) }));
        let session = hal::take_log();
        match r {
            Ok(Ok(t)) => {
                let ver = match t.version() { MmioVersion::Legacy => 1, MmioVersion::Modern => 2 };
                let dt = t.device_type() as u8 as u128;
                let t = if wrapped { Tp::S(t.into()) } else { Tp::M(t) };
                Some(Rig { st, t: Some(t), ver, dt, wrapped, session })
            }
            _ => {
                // the model accepts this header: report the disagreement as a probe line
                let res: [u128; 3] = match &r { Ok(r) => enc_probe_result(r), Err(_) => [2, 0, 0] };
                let mut outs = res.to_vec(); outs.extend(enc_mmio(&session));
                ctx.tr.line(1001, &[0x200, MAGIC as u128, version as u128, device_id as u128], &outs);
                None
            }
        }
    }
    pub fn op(&mut self, ctx: &mut Ctx, op: Op, answers: &[u32]) {
        self.st.borrow_mut().answers = answers.iter().copied().collect();
        let res: [u128; 2] = match op {
            Op::Drop => {
                let t = self.t.take();
                match catch_unwind(AssertUnwindSafe(move || drop(t))) { Ok(()) => [0, 0], Err(_) => [2, 0] }
            }
            Op::VendorId => {
                let t = self.t.as_ref().unwrap();
                match catch_unwind(AssertUnwindSafe(|| match t { Tp::M(m) => m.vendor_id(), Tp::S(SomeTransport::Mmio(m)) => m.vendor_id(), _ => 0 })) {
                    Ok(v) => [0, v as u128], Err(_) => [2, 0] }
            }
            _ => {
                let t = self.t.as_mut().unwrap();
                match catch_unwind(AssertUnwindSafe(|| match t { Tp::M(m) => apply(m, op), Tp::S(s) => apply(s, op) })) {
                    Ok(v) => [0, v], Err(_) => [2, 0] }
            }
        };
        let log = hal::take_log();
        op_lines(ctx, self.wrapped, self.ver, self.dt, op, answers, &res, &log);
        self.session.extend(log);
    }
    /// drop the transport (if still there) and evaluate the session monitor
    pub fn finish(mut self, ctx: &mut Ctx, session_monitor: bool) {
        if self.t.is_some() { self.op(ctx, Op::Drop, &[]); }
        if session_monitor {
            let mut mi = vec![self.ver]; mi.extend(enc_mmio(&self.session));
            ctx.tr.line(1021, &mi, &[1]);
        }
        for s in hal::violations() { ctx.tr.comment(&format!("LEDGER: {}", s)); }
        ctx.tr.line(1, &[], &[hal::violations().len() as u128]);
    }
}

/// one operation on a fresh transport, then the drop
fn single(ctx: &mut Ctx, version: u32, device_id: u32, wrapped: bool, op: Op, answers: &[u32]) {
    if let Some(mut r) = Rig::new(ctx, version, device_id, wrapped) {
        // a legacy queue may only be registered once the guest page size has been announced (begin_init does it)
        if version == 1 && matches!(op, Op::QueueSet(..)) { r.op(ctx, Op::SetGuestPageSize(4096), &[]); }
        r.op(ctx, op, answers);
        // (the legacy read_config_generation finding is reported once, by the operation monitor)
        r.finish(ctx, !(version == 1 && matches!(op, Op::ConfigGeneration)));
    }
}

fn bounds(bits: u32) -> Vec<u64> {
    let max = if bits >= 64 { u64::MAX } else { (1u64 << bits) - 1 };
    let mut v = vec![0u64, 1, 2, 3, max, max - 1, max / 2, max / 2 + 1];
    for k in [8u32, 12, 15, 16, 31, 32, 63] {
        if k < 64 { let b = 1u64 << k; for x in [b - 1, b, b.wrapping_add(1)] { if x <= max { v.push(x); } } }
    }
    v.sort(); v.dedup(); v
}

const DEV_IDS: [u32; 4] = [2, 1, 5, 25];

/// the layout a legacy queue of `n` entries at `desc` has according to the asserts in queue_set
fn legacy_layout(desc: u64, n: u32) -> (u64, u64) {
    let n = n as u64;
    (desc.wrapping_add(16 * n), desc.wrapping_add((16 * n + 2 * (n + 3) + 4096) & !4095))
}

fn answers_for(ctx: &mut Ctx, op: &Op) -> Vec<u32> {
    let pick = |ctx: &mut Ctx| -> u32 { ctx.rng.boundary(32) as u32 };
    match op {
        Op::ReadFeatures | Op::BeginInit(_) => vec![pick(ctx), pick(ctx)],
        Op::MaxQueueSize(_) | Op::GetStatus | Op::QueueUsed(_) | Op::AckInterrupt | Op::ConfigGeneration | Op::VendorId => vec![pick(ctx)],
        Op::QueueUnset(_) => {
            let k = ctx.rng.below(4);
            let mut v: Vec<u32> = (0..k).map(|_| (pick(ctx)).max(1)).collect(); v.push(0); v
        }
        _ => vec![],
    }
}

fn directed(ctx: &mut Ctx, version: u32, wrapped: bool) {
    let did = DEV_IDS[(version as usize + wrapped as usize) % DEV_IDS.len()];
    let b16 = bounds(16); let b32 = bounds(32); let b64 = bounds(64);
    // operations without arguments, with every boundary answer
    for a in &b32 {
        let a = *a as u32;
        for op in [Op::GetStatus, Op::AckInterrupt, Op::VendorId, Op::MaxQueueSize(3), Op::QueueUsed(1)] {
            single(ctx, version, did, wrapped, op, &[a]);
        }
        if version == 2 { single(ctx, version, did, wrapped, Op::ConfigGeneration, &[a]); }
        for b in [0u32, 1, a, !a, u32::MAX] { single(ctx, version, did, wrapped, Op::ReadFeatures, &[a, b]); }
    }
    for op in [Op::DeviceType, Op::RequiresLegacy, Op::FinishInit, Op::Drop] { single(ctx, version, did, wrapped, op, &[]); }
    for id in [1u32, 2, 3, 4, 5, 6, 7, 8, 9, 10, 11, 12, 13, 16, 17, 18, 19, 20, 21, 22, 23, 24, 25] {
        single(ctx, version, id, wrapped, Op::DeviceType, &[]);
    }
    // interrupt status: every combination of the two defined bits and neighbours
    for a in 0..=8u32 { single(ctx, version, did, wrapped, Op::AckInterrupt, &[a]); }
    for q in &b16 {
        let q = *q as u16;
        for op in [Op::MaxQueueSize(q), Op::Notify(q), Op::QueueUsed(q), Op::QueueUnset(q)] {
            let ans = answers_for(ctx, &op);
            single(ctx, version, did, wrapped, op, &ans);
        }
        single(ctx, version, did, wrapped, Op::QueueUsed(q), &[0]);
    }
    // queue_unset: the device takes 0..4 reads to report the queue stopped
    for k in 0..5u32 {
        let mut ans: Vec<u32> = (0..k).map(|i| if i % 2 == 0 { 1 } else { u32::MAX - i }).collect(); ans.push(0); ans.push(7);
        single(ctx, version, did, wrapped, Op::QueueUnset(k as u16), &ans);
    }
    single(ctx, version, did, wrapped, Op::QueueUnset(9), &[]);
    for s in &b32 {
        let s = *s as u32;
        single(ctx, version, did, wrapped, Op::SetStatus(s), &[]);
        single(ctx, version, did, wrapped, Op::SetGuestPageSize(s), &[]);
    }
    for s in [0u32, 1, 3, 11, 15, 64, 128, 0x8f] { single(ctx, version, did, wrapped, Op::SetStatus(s), &[]); }
    for f in &b64 {
        single(ctx, version, did, wrapped, Op::WriteFeatures(*f), &[]);
        // begin_init: device features x supported features around VERSION_1 (bit 32)
        for (lo, hi) in [(0u32, 0u32), (u32::MAX, u32::MAX), (0x3000_0000, 1), (0, 1), (*f as u32, (*f >> 32) as u32)] {
            single(ctx, version, did, wrapped, Op::BeginInit(*f), &[lo, hi]);
        }
    }
    // queue_set: each address over the boundary grid, the other two fixed / boundary
    let sizes: Vec<u32> = vec![0, 1, 2, 3, 8, 255, 256, 1365, 32768, 65535, 65536, 0x7fff_ffff, 0x8000_0000, u32::MAX];
    if version == 2 {
        for (i, a) in b64.iter().enumerate() {
            let n = sizes[i % sizes.len()]; let q = b16[i % b16.len()] as u16;
            single(ctx, version, did, wrapped, Op::QueueSet(q, n, *a, 0x1234_5678_9abc_def0, 0x0fed_cba9_8765_4321), &[]);
            single(ctx, version, did, wrapped, Op::QueueSet(q, n, 0x1_0000_0000, *a, b64[(i + 3) % b64.len()]), &[]);
            single(ctx, version, did, wrapped, Op::QueueSet(q, n, b64[(i + 5) % b64.len()], 0xffff_ffff, *a), &[]);
            single(ctx, version, did, wrapped, Op::QueueSet(q, n, *a, *a, *a), &[]);
        }
    } else {
        let mut descs: Vec<u64> = vec![0, 0x1000, 0x2000, 0x8000_0000, 0xffff_f000, 0x1_0000_0000, 0xffff_fffe_f000, 0xffff_ffff_f000,
            0x1000_0000_0000, 0x1000_0000_1000, 0xffff_ffff_ffff_f000, 0xffff_ffff_ffff_0000, 0x7fff_ffff_ffff_f000, 0x8000_0000_0000_0000];
        for a in &b64 { descs.push(*a); descs.push(*a & !0xfff); }
        for (i, d) in descs.iter().enumerate() {
            for (j, n) in sizes.iter().enumerate() {
                let q = b16[(i + j) % b16.len()] as u16;
                let (drv, dev) = legacy_layout(*d, *n);
                single(ctx, version, did, wrapped, Op::QueueSet(q, *n, *d, drv, dev), &[]);
                // one parameter off by one at a time (both directions), and the used ring at ALIGN instead of the asserted place
                match (i + j) % 7 {
                    0 => single(ctx, version, did, wrapped, Op::QueueSet(q, *n, *d, drv.wrapping_add(1), dev), &[]),
                    1 => single(ctx, version, did, wrapped, Op::QueueSet(q, *n, *d, drv.wrapping_sub(1), dev), &[]),
                    2 => single(ctx, version, did, wrapped, Op::QueueSet(q, *n, *d, drv, dev.wrapping_add(1)), &[]),
                    3 => single(ctx, version, did, wrapped, Op::QueueSet(q, *n, *d, drv, dev.wrapping_sub(4096)), &[]),
                    4 => single(ctx, version, did, wrapped, Op::QueueSet(q, *n, d.wrapping_add(1), drv.wrapping_add(1), dev.wrapping_add(1)), &[]),
                    5 => single(ctx, version, did, wrapped, Op::QueueSet(q, *n, d.wrapping_add(16), drv, dev), &[]),
                    _ => single(ctx, version, did, wrapped, Op::QueueSet(q, *n, *d, d.wrapping_sub(1), dev), &[]),
                }
            }
        }
        // subtraction wraps: areas below the table
        single(ctx, version, did, wrapped, Op::QueueSet(0, 1, u64::MAX - 15, 0, 4080), &[]);
        single(ctx, version, did, wrapped, Op::QueueSet(0, 8, 0x2000, 0x1000, 0x3000), &[]);
        single(ctx, version, did, wrapped, Op::QueueSet(0, 8, 0x2000, 0x2080, 0x1000), &[]);
    }
}

fn random_op(ctx: &mut Ctx, version: u32) -> Op {
    let q = ctx.rng.boundary(16) as u16;
    match ctx.rng.below(17) {
        0 => Op::DeviceType, 1 => Op::ReadFeatures, 2 => Op::WriteFeatures(ctx.rng.boundary(64)), 3 => Op::MaxQueueSize(q), 4 => Op::Notify(q),
        5 => Op::GetStatus, 6 => Op::SetStatus(ctx.rng.boundary(32) as u32), 7 => Op::SetGuestPageSize(ctx.rng.boundary(32) as u32),
        8 => Op::RequiresLegacy,
        9 | 10 => {
            let n = if ctx.rng.chance(1, 2) { 1u32 << ctx.rng.below(16) } else { ctx.rng.boundary(32) as u32 };
            if version == 2 || ctx.rng.chance(1, 5) {
                Op::QueueSet(q, n, ctx.rng.boundary(64), ctx.rng.boundary(64), ctx.rng.boundary(64))
            } else {
                let d = if ctx.rng.chance(4, 5) { (ctx.rng.next() >> ctx.rng.range(20, 44)) & !0xfff } else { ctx.rng.boundary(64) };
                let (drv, dev) = legacy_layout(d, n);
                Op::QueueSet(q, n, d, drv, dev)
            }
        }
        11 => Op::QueueUnset(q), 12 => Op::QueueUsed(q), 13 => Op::AckInterrupt,
        14 => if version == 2 { Op::ConfigGeneration } else { Op::VendorId },
        15 => Op::BeginInit(ctx.rng.boundary(64)),
        _ => Op::FinishInit,
    }
}

/// probe; begin_init; queues; finish_init; traffic; teardown; drop - as a driver would
fn session(ctx: &mut Ctx, version: u32, wrapped: bool, nqueues: u16) {
    let did = *ctx.rng.pick(&DEV_IDS);
    let Some(mut r) = Rig::new(ctx, version, did, wrapped) else { return };
    let feats = (ctx.rng.next() as u32, if version == 2 { 1 | (ctx.rng.next() as u32 & 0x7e) } else { 0 });
    let supported = ctx.rng.next() | (1 << 32);
    r.op(ctx, Op::BeginInit(supported), &[feats.0, feats.1]);
    for q in 0..nqueues {
        r.op(ctx, Op::QueueUsed(q), &[0]);
        let n = 1u32 << ctx.rng.below(16);
        r.op(ctx, Op::MaxQueueSize(q), &[n.max(8)]);
        let d = 0x4000_0000u64 + 0x10_0000 * q as u64;
        if version == 1 { let (drv, dev) = legacy_layout(d, n); r.op(ctx, Op::QueueSet(q, n, d, drv, dev), &[]); }
        else { r.op(ctx, Op::QueueSet(q, n, d, d + 16 * n as u64, 0x5_0000_0000 + 0x1000 * q as u64), &[]); }
    }
    r.op(ctx, Op::FinishInit, &[]);
    for _ in 0..ctx.rng.range(1, 6) {
        let op = match ctx.rng.below(5) { 0 => Op::Notify(ctx.rng.below(nqueues.max(1) as u64) as u16), 1 => Op::AckInterrupt, 2 => Op::GetStatus,
            3 => Op::QueueUsed(ctx.rng.below(nqueues.max(1) as u64) as u16), _ => if version == 2 { Op::ConfigGeneration } else { Op::GetStatus } };
        let ans = answers_for(ctx, &op);
        r.op(ctx, op, &ans);
    }
    for q in 0..nqueues { let ans = answers_for(ctx, &Op::QueueUnset(q)); r.op(ctx, Op::QueueUnset(q), &ans); }
    r.finish(ctx, true);
    ctx.tr.note(if version == 1 { "session_legacy" } else { "session_modern" });
}

fn probe_grid(ctx: &mut Ctx) {
    let magics = [MAGIC, MAGIC + 1, MAGIC - 1, MAGIC ^ 0x8000_0000, 0x7669_7274, 0, u32::MAX, MAGIC & 0xffff, MAGIC & 0xffff_0000];
    let versions = [0u32, 1, 2, 3, 4, 0x101, 0x102, 0x1_0001, 0x1_0002, 0x8000_0001, u32::MAX];
    let mut ids: Vec<u32> = (0..=34).collect();
    ids.extend([0xff, 0x100, 0x102, 0x1_0002, 0x8000_0001, u32::MAX - 1, u32::MAX]);
    // every class combination at the exact header size, one byte less, and a roomy region
    for size in [0xffusize, 0x100, 0x200] {
        for m in magics { for v in versions { for d in &ids { probe_case(ctx, size, m, v, *d, false); } } }
    }
    // region sizes around the header size with a valid header (both versions), and far away from it
    let sizes = [0usize, 1, 3, 4, 8, 0xc, 0x10, 0x70, 0x74, 0xfb, 0xfc, 0xfd, 0xfe, 0xff, 0x100, 0x101, 0x103, 0x104, 0x1ff, 0x200, 0x1000,
        0x1_0000_0000, usize::MAX / 2, usize::MAX - 0xff, usize::MAX];
    for s in sizes { for v in [1u32, 2, 3] { for d in [0u32, 2, 14, 19] { probe_case(ctx, s, MAGIC, v, d, false); probe_case(ctx, s, MAGIC + 1, v, d, false); } } }
    // new_from_unique directly (no size argument: header + config window)
    for cfg in [0usize, 1, 0x100] { for m in [MAGIC, 0] { for v in [0u32, 1, 2, 3] { for d in [0u32, 1, 15, 16, 26] { probe_case(ctx, 0x100 + cfg, m, v, d, true); } } } }
    let n = ctx.budget(600, 20);
    for _ in 0..n {
        let m = if ctx.rng.chance(3, 4) { MAGIC } else { ctx.rng.boundary(32) as u32 };
        let v = if ctx.rng.chance(3, 4) { ctx.rng.range(0, 3) as u32 } else { ctx.rng.boundary(32) as u32 };
        let d = if ctx.rng.chance(3, 4) { ctx.rng.range(0, 27) as u32 } else { ctx.rng.boundary(32) as u32 };
        let s = if ctx.rng.chance(1, 2) { ctx.rng.range(0xf0, 0x110) as usize } else { ctx.rng.boundary(20) as usize };
        probe_case(ctx, s, m, v, d, false);
    }
}

/// the directed register-level cases of both layouts (queue_set with addresses in different 4 GiB windows, queue_unset,
/// queue_used, ...): also run under C04 (the device is given the addresses DMA allocation returned) and C09 (queue_unset
/// really disables the queue before its memory is released)
pub fn run_directed(ctx: &mut Ctx) {
    for (version, vn) in [(1u32, "legacy"), (2u32, "modern")] {
        for wrapped in [false, true] {
            ctx.tr.scenario(&format!("c10-directed-{}{}", vn, if wrapped { "-some" } else { "" }));
            directed(ctx, version, wrapped);
        }
    }
}

pub fn run(ctx: &mut Ctx) {
    ctx.tr.scenario("c10-probe");
    probe_grid(ctx);
    for (version, vn) in [(1u32, "legacy"), (2u32, "modern")] {
        for wrapped in [false, true] {
            ctx.tr.scenario(&format!("c10-directed-{}{}", vn, if wrapped { "-some" } else { "" }));
            directed(ctx, version, wrapped);
        }
        ctx.tr.scenario(&format!("c10-random-{}", vn));
        let n = ctx.budget(1500, 20);
        for i in 0..n {
            let op = random_op(ctx, version);
            let ans = answers_for(ctx, &op);
            let did = *ctx.rng.pick(&DEV_IDS);
            single(ctx, version, did, i % 3 == 0, op, &ans);
        }
        ctx.tr.scenario(&format!("c10-session-{}", vn));
        let n = ctx.budget(40, 10);
        for i in 0..n { session(ctx, version, i % 2 == 1, (i % 4) as u16); }
    }
    // Repaired finding F8 (KNOWN_FINDINGS.jsonl, C10): read_config_generation used to read offset 0x0fc on a
    // legacy device, whose register layout (VirtIO 1.2, 4.2.4) has no such register. The scenario stays so
    // that the violation is reported again if it ever returns.
    ctx.tr.scenario("c10-legacy-config-generation");
    for wrapped in [false, true] { for a in [0u32, 1, u32::MAX] { single(ctx, 1, 2, wrapped, Op::ConfigGeneration, &[a]); } }
}
