//! C14: the block driver `VirtIOBlk<LedgerHal, ModelTransport>` in lock-step with Model/Blk.v.
//!  * reference device: an in-memory (sparse) disk that finds every request through device addresses
//!    only (hal::dev_read / dev_write), with its own decoder written from VirtIO 1.2 section 5.2.6;
//!    it fetches in available-ring order and publishes completions in ANY order;
//!  * blocking calls are co-simulated through the busy-wait hook (site 0) and Transport::notify;
//!  * non-blocking histories keep up to a queue-full of requests outstanding and complete them in
//!    PRNG order, with every status byte;
//!  * monitors 1450..1454 evaluate the property on what the implementation was seen to do.
use crate::hal::{self, Ev, LedgerHal};
use crate::scen::common::*;
use crate::scen::qrig::{self, QAddr, CURQ};
use crate::tport::{ModelTransport, TState};
use crate::Ctx;
use std::cell::RefCell;
use std::collections::HashMap;
use std::panic::{catch_unwind, AssertUnwindSafe};
use std::rc::Rc;
use virtio_drivers::device::blk::{BlkReq, BlkResp, VirtIOBlk};
use virtio_drivers::transport::DeviceType;
use virtio_drivers::verif::Event;
use zerocopy::IntoBytes;

type Blk = VirtIOBlk<LedgerHal, ModelTransport>;
const N: usize = 16;
const F_RO: u64 = 1 << 5;
const F_FLUSH: u64 = 1 << 9;
const F_IND: u64 = 1 << 28;
const F_EV: u64 = 1 << 29;
const F_V1: u64 = 1 << 32;
const F_AP: u64 = 1 << 33;

// ------------------------------------------------------------------------------------------------
// Reference device (specification side)
#[derive(Clone, Debug)]
pub struct Seen {
    pub head: u16,
    pub els: Vec<(u64, u32, bool)>,
    pub first: Vec<u8>,       // bytes of the first element, as read through its address
    pub ty: u32,
    pub reserved: u32,
    pub sector: u64,
    pub out_data: Vec<u8>,    // device-readable bytes after the header
    pub in_len: usize,        // device-writable bytes before the status byte
    pub payload: Vec<u8>,     // what the device wrote there
    pub status: u8,
    pub parse_ok: bool,
    pub write_ok: bool,
    pub checked: bool,        // the harness has emitted the wire monitor for it
}

pub struct BlkDev {
    pub a: QAddr,
    pub seen_idx: u16,
    pub used: u16,
    pub event_idx: bool,
    pub disk: HashMap<u64, [u8; 512]>,
    pub pending: Vec<Seen>,       // processed, completion not yet published
    pub done: Vec<Seen>,          // published (kept until the harness has looked at them)
    pub id: [u8; 20],
    pub force_status: Option<u8>, // answer the next requests with this status and do not touch the disk
    pub received: u64,
}

pub fn pristine(sector: u64) -> [u8; 512] {
    let mut r = crate::rng::Rng::new(sector ^ 0x5EC7_0A11);
    let mut b = [0u8; 512];
    for x in b.iter_mut() { *x = r.next() as u8; }
    b
}

fn rd_desc(b: &[u8]) -> (u64, u32, u16, u16) {
    (u64::from_le_bytes(b[0..8].try_into().unwrap()), u32::from_le_bytes(b[8..12].try_into().unwrap()),
     u16::from_le_bytes([b[12], b[13]]), u16::from_le_bytes([b[14], b[15]]))
}

impl BlkDev {
    pub fn new(a: QAddr, event_idx: bool) -> Self {
        BlkDev { a, seen_idx: 0, used: 0, event_idx, disk: HashMap::new(), pending: vec![], done: vec![],
            id: *b"verif-disk-0123\0\0\0\0\0", force_status: None, received: 0 }
    }
    pub fn sector(&self, s: u64) -> [u8; 512] { self.disk.get(&s).copied().unwrap_or_else(|| pristine(s)) }

    /// 2.7.5 / 2.7.5.3: follow the chain from `head` (direct or through an indirect table)
    fn walk(&self, head: u16) -> Option<Vec<(u64, u32, bool)>> {
        let mut els = vec![];
        if head as usize >= N { return None; }
        let (addr, len, flags, _) = rd_desc(&hal::dev_read(self.a.desc + 16 * head as u64, 16).ok()?);
        if flags & 4 != 0 {
            if flags & 3 != 0 || len % 16 != 0 || len == 0 { return None; }
            let tbl = hal::dev_read(addr, len as usize).ok()?;
            let n = len as usize / 16;
            let mut i = 0usize; let mut steps = 0;
            loop {
                if i >= n || steps > n { return None; }
                let (a, l, f, nx) = rd_desc(&tbl[16 * i..16 * i + 16]);
                if f & 4 != 0 { return None; }
                els.push((a, l, f & 2 != 0));
                steps += 1;
                if f & 1 == 0 { break; }
                i = nx as usize;
            }
        } else {
            let mut cur = head as usize; let mut steps = 0;
            loop {
                if cur >= N || steps > N { return None; }
                let (a, l, f, nx) = rd_desc(&hal::dev_read(self.a.desc + 16 * cur as u64, 16).ok()?);
                if f & 4 != 0 { return None; }
                els.push((a, l, f & 2 != 0));
                steps += 1;
                if f & 1 == 0 { break; }
                cur = nx as usize;
            }
        }
        Some(els)
    }

    /// fetch every new available entry, execute it against the disk and write the answer; the used
    /// element is NOT published yet
    pub fn fetch(&mut self, rng: &mut crate::rng::Rng) -> usize {
        let aidx = hal::dev_read_u16(self.a.drv + 2).unwrap();
        let mut count = 0;
        while self.seen_idx != aidx {
            let slot = (self.seen_idx as usize) & (N - 1);
            let head = hal::dev_read_u16(self.a.drv + 4 + 2 * slot as u64).unwrap();
            self.seen_idx = self.seen_idx.wrapping_add(1);
            self.received += 1; count += 1;
            let mut s = Seen { head, els: vec![], first: vec![], ty: 0, reserved: 0, sector: 0, out_data: vec![], in_len: 0,
                payload: vec![], status: 1, parse_ok: false, write_ok: false, checked: false };
            if let Some(els) = self.walk(head) {
                s.els = els.clone();
                // 2.7.4: readable elements first
                let first_w = els.iter().position(|e| e.2).unwrap_or(els.len());
                let ordered = els[first_w..].iter().all(|e| e.2);
                let mut rb = vec![]; let mut ok = ordered;
                for (k, e) in els.iter().enumerate() { if !e.2 {
                    match hal::dev_read(e.0, e.1 as usize) { Ok(b) => { if k == 0 { s.first = b.clone(); } rb.extend(b); } Err(_) => ok = false } } }
                let wl: usize = els.iter().filter(|e| e.2).map(|e| e.1 as usize).sum();
                if ok && rb.len() >= 16 && wl >= 1 {
                    s.ty = u32::from_le_bytes(rb[0..4].try_into().unwrap());
                    s.reserved = u32::from_le_bytes(rb[4..8].try_into().unwrap());
                    s.sector = u64::from_le_bytes(rb[8..16].try_into().unwrap());
                    s.out_data = rb[16..].to_vec();
                    s.in_len = wl - 1;
                    s.parse_ok = true;
                }
            }
            if s.parse_ok { self.execute(&mut s, rng); }
            self.pending.push(s);
        }
        if self.event_idx { hal::dev_write_u16(self.a.dev + 4 + 8 * N as u64, self.seen_idx).unwrap(); }
        count
    }

    fn execute(&mut self, s: &mut Seen, rng: &mut crate::rng::Rng) {
        let mut payload = rng.bytes(s.in_len);     // whatever the device leaves there when it fails
        let status: u8;
        if let Some(f) = self.force_status { status = f; }
        else {
            match s.ty {
                0 => { // IN
                    let n = s.in_len / 512;
                    if s.in_len % 512 != 0 || n == 0 || !s.out_data.is_empty() || s.sector.checked_add(n as u64).is_none() { status = 1; }
                    else { for i in 0..n { payload[512 * i..512 * i + 512].copy_from_slice(&self.sector(s.sector + i as u64)); } status = 0; }
                }
                1 => { // OUT
                    let n = s.out_data.len() / 512;
                    if s.out_data.len() % 512 != 0 || n == 0 || s.in_len != 0 || s.sector.checked_add(n as u64).is_none() { status = 1; }
                    else { for i in 0..n { let mut b = [0u8; 512]; b.copy_from_slice(&s.out_data[512 * i..512 * i + 512]); self.disk.insert(s.sector + i as u64, b); } status = 0; }
                }
                4 => { status = if s.in_len == 0 && s.out_data.is_empty() { 0 } else { 1 }; }
                8 => { if s.in_len == 20 && s.out_data.is_empty() {
                    // ids of every length: empty, partial, all 20 bytes used (no terminator)
                    let n = match rng.below(4) { 0 => 0, 1 => 20, 2 => 19, _ => rng.below(21) as usize };
                    for (i, b) in self.id.iter_mut().enumerate() { *b = if i < n { 1 + (rng.next() % 255) as u8 } else { 0 }; }
                    if n < 19 && rng.chance(1, 2) { self.id[19] = 7; }   // bytes after the terminator do not count
                    payload.copy_from_slice(&self.id); status = 0; } else { status = 1; } }
                _ => { status = 2; }
            }
        }
        // lay payload ++ [status] over the writable elements in order
        let mut bytes = payload.clone(); bytes.push(status);
        let mut off = 0; let mut ok = true;
        for e in s.els.iter().filter(|e| e.2) {
            let l = e.1 as usize;
            if hal::dev_write(e.0, &bytes[off..off + l]).is_err() { ok = false; }
            off += l;
        }
        s.payload = payload; s.status = status; s.write_ok = ok;
    }

    /// publish the completion of pending entry k
    pub fn publish(&mut self, k: usize) -> u16 {
        let s = self.pending.remove(k);
        let uslot = (self.used as usize) & (N - 1);
        hal::dev_write_u32(self.a.dev + 4 + 8 * uslot as u64, s.head as u32).unwrap();
        hal::dev_write_u32(self.a.dev + 8 + 8 * uslot as u64, (s.in_len + 1) as u32).unwrap();
        self.used = self.used.wrapping_add(1);
        hal::dev_write_u16(self.a.dev + 2, self.used).unwrap();
        let h = s.head;
        self.done.push(s);
        h
    }
    pub fn serve_all(&mut self, rng: &mut crate::rng::Rng) { self.fetch(rng); while !self.pending.is_empty() { self.publish(0); } }
}

// ------------------------------------------------------------------------------------------------
// co-simulation for the blocking calls
#[derive(Clone, Copy, PartialEq, Debug)]
pub enum Policy { OnNotify, Poll(u32), Late(u32) }
pub struct Sim { pub dev: BlkDev, pub policy: Policy, pub spins: u32, pub polls: Vec<u16>, pub notified: u32, pub rng: crate::rng::Rng, pub active: bool }
thread_local! { static SIM: RefCell<Option<Sim>> = RefCell::new(None); }

fn observer(e: Event) {
    match e {
        Event::Spin(_) => {
            let mut hopeless = false;
            SIM.with(|c| { if let Some(s) = c.borrow_mut().as_mut() {
                if !s.active { return; }
                s.polls.push(hal::dev_read_u16(s.dev.a.dev + 2).unwrap());
                s.spins += 1;
                match s.policy { Policy::Poll(k) | Policy::Late(k) => { if s.spins >= k { let mut r = s.rng.clone(); s.dev.serve_all(&mut r); s.rng = r; } } Policy::OnNotify => {} }
                if s.spins > 3000 { hopeless = true; }
            } });
            if hopeless { panic!("busy-wait can never end"); }
        }
        other => qrig::observer(other),
    }
}
fn sim_notify() {
    SIM.with(|c| { if let Some(s) = c.borrow_mut().as_mut() {
        s.notified += 1;
        if s.active && s.policy == Policy::OnNotify { let mut r = s.rng.clone(); s.dev.serve_all(&mut r); s.rng = r; }
    } });
}
fn with_sim<R>(f: impl FnOnce(&mut Sim) -> R) -> R { SIM.with(|c| f(c.borrow_mut().as_mut().unwrap())) }

// ------------------------------------------------------------------------------------------------
// event encoding: buffers the harness owns are known by address; the driver's own header / status
// temporaries are recognised by (length, direction); anything else is an indirect table
pub struct Ids { pub known: HashMap<usize, u64>, pub hdr: u64, pub resp: u64 }
fn buf_id(ids: &Ids, vaddr: usize, len: usize, dir: u8) -> Option<u64> {
    if let Some(id) = ids.known.get(&vaddr) { return Some(*id); }
    if len == 16 && dir == 0 { return Some(ids.hdr); }
    if len == 1 && dir == 1 { return Some(ids.resp); }
    None
}
fn enc_bevents(evs: &[Ev], ids: &Ids, head: u128) -> Vec<u128> {
    let mut o = vec![];
    for e in evs {
        match e {
            Ev::Share { vaddr, len, dir, paddr } => match buf_id(ids, *vaddr, *len, *dir) {
                Some(id) => o.extend([1, id as u128, *len as u128, (*dir == 1) as u128, *paddr as u128]),
                None => o.extend([2, head, (*len / 16) as u128, *paddr as u128]) },
            Ev::Unshare { paddr, vaddr, len, dir, .. } => match buf_id(ids, *vaddr, *len, *dir) {
                Some(id) => o.extend([3, *paddr as u128, id as u128, *len as u128, (*dir == 1) as u128]),
                None => o.extend([4, *paddr as u128, head, (*len / 16) as u128]) },
            Ev::StoreDesc { index, addr, len, flags, next } => o.extend([5, *index as u128, *addr as u128, *len as u128, *flags as u128, *next as u128]),
            Ev::Store { what: 1, index, val } => o.extend([6, *index as u128, *val as u128]),
            Ev::Fence => o.push(7),
            Ev::Store { what: 2, val, .. } => o.extend([8, *val as u128]),
            Ev::Store { what: 3, val, .. } => o.extend([9, *val as u128]),
            Ev::Store { what: 4, val, .. } => o.extend([10, *val as u128]),
            Ev::Notify(_) => o.push(11),
            _ => {}
        }
    }
    o
}
/// (hdr_addr, data_addr, resp_addr, table_addr) from the share events of a submission
fn share_addrs(evs: &[Ev], ids: &Ids, data_id: u64) -> (u64, u64, u64, u64) {
    let (mut h, mut d, mut r, mut t) = (0, 0, 0, 0);
    for e in evs { if let Ev::Share { vaddr, len, dir, paddr } = e {
        match buf_id(ids, *vaddr, *len, *dir) {
            Some(id) if id == ids.hdr => h = *paddr, Some(id) if id == ids.resp => r = *paddr,
            Some(id) if id == data_id => d = *paddr, Some(_) => {}, None => t = *paddr } } }
    (h, d, r, t)
}
fn ring_token(evs: &[Ev]) -> Option<u16> { evs.iter().find_map(|e| if let Ev::Store { what: 1, val, .. } = e { Some(*val as u16) } else { None }) }

// ------------------------------------------------------------------------------------------------
// the rig: a real VirtIOBlk over the logging transport, the reference device in SIM
pub struct Rig {
    pub blk: Option<Blk>,
    pub st: Rc<RefCell<TState>>,
    pub a: QAddr,
    pub dev_feats: u64,
    pub accepted: u64,
    pub indirect: bool,
    pub event_idx: bool,
    pub last_used: u16,
    pub next_id: u64,
    pub exp_disk: HashMap<u64, [u8; 512]>,
}
impl Rig {
    fn fresh_id(&mut self) -> u64 { let i = self.next_id; self.next_id += 1; i }
    fn exp_sector(&self, s: u64) -> [u8; 512] { self.exp_disk.get(&s).copied().unwrap_or_else(|| pristine(s)) }
    fn used_view(&self) -> (u16, u32, u32) {
        let ui = hal::dev_read_u16(self.a.dev + 2).unwrap();
        let slot = (self.last_used as usize) & (N - 1);
        (ui, hal::dev_read_u32(self.a.dev + 4 + 8 * slot as u64).unwrap(), hal::dev_read_u32(self.a.dev + 8 + 8 * slot as u64).unwrap())
    }
    fn suppression(&self) -> (u16, u16) {
        (hal::dev_read_u16(self.a.dev + 4 + 8 * N as u64).unwrap(), hal::dev_read_u16(self.a.dev).unwrap())
    }
}

fn rd_cfg(cfg: &[u8], off: usize) -> Option<u32> { if off + 4 <= cfg.len() { Some(u32::from_le_bytes(cfg[off..off + 4].try_into().unwrap())) } else { None } }

/// what ModelTransport will answer to the read_consistent loop (tport.rs: cfg_tick on every generation
/// or config read, scheduled changes applied when the access counter reaches their ordinal)
fn simulate_tries(cfg0: &[u8], sched: &[(usize, Vec<u8>, bool)], fail_at: Option<usize>) -> Vec<(u32, Option<u32>, Option<u32>, u32)> {
    let mut cfg = cfg0.to_vec(); let mut gen = 0u32; let mut acc = 0usize; let mut reads = 0usize; let mut out = vec![];
    let mut sched: Vec<(usize, Vec<u8>, bool)> = sched.to_vec();
    let mut tick = |cfg: &mut Vec<u8>, gen: &mut u32, acc: &mut usize| { *acc += 1; let mut i = 0; while i < sched.len() { if sched[i].0 == *acc { let (_, b, bump) = sched.remove(i); *cfg = b; if bump { *gen = gen.wrapping_add(1); } } else { i += 1; } } };
    for _ in 0..64 {
        tick(&mut cfg, &mut gen, &mut acc); let g1 = gen;
        tick(&mut cfg, &mut gen, &mut acc); let k = reads; reads += 1;
        let lo = if fail_at.map(|f| k >= f).unwrap_or(false) { None } else { rd_cfg(&cfg, 0) };
        let mut hi = None;
        if lo.is_some() { tick(&mut cfg, &mut gen, &mut acc); let k = reads; reads += 1; hi = if fail_at.map(|f| k >= f).unwrap_or(false) { None } else { rd_cfg(&cfg, 4) }; }
        tick(&mut cfg, &mut gen, &mut acc); let g2 = gen;
        out.push((g1, lo, hi, g2));
        if g1 == g2 { break; }
    }
    out
}

fn enc_tevents(evs: &[Ev]) -> Vec<u128> {
    let mut o = vec![]; let mut sep = false;
    for e in evs {
        match e {
            Ev::SetStatus(v) => o.extend([1, *v as u128]), Ev::ReadFeatures => o.push(2), Ev::WriteFeatures(v) => o.extend([3, *v as u128]),
            Ev::GuestPageSize(v) => o.extend([4, *v as u128]), Ev::ReadGen => o.push(5), Ev::ReadConfig { off, len } => o.extend([6, *off as u128, *len as u128]),
            Ev::MaxQueueSize(_) | Ev::QueueUsed(_) | Ev::Alloc { .. } | Ev::QueueSet { .. } => { if !sep { o.push(99); sep = true; } }
            _ => {}
        }
    }
    if !sep { o.push(99); }
    o
}

/// VirtIOBlk::new against a device offering `feats` with the given config space behaviour
fn make(ctx: &mut Ctx, feats: u64, cfg: Vec<u8>, sched: Vec<(usize, Vec<u8>, bool)>, fail_at: Option<usize>) -> Option<Rig> {
    hal::reset();
    qrig::BUFIDS.with(|b| b.borrow_mut().clear());
    CURQ.with(|c| *c.borrow_mut() = QAddr::default());
    SIM.with(|c| *c.borrow_mut() = None);
    virtio_drivers::verif::set_observer(Some(observer));
    let mut ts = TState::new(DeviceType::Block, feats, 1, N as u32);
    ts.config = cfg.clone(); ts.cfg_schedule = sched.clone(); ts.fail_config_read_at = fail_at;
    let tries = simulate_tries(&cfg, &sched, fail_at);
    let (t, st) = ModelTransport::new(ts);
    let r = catch_unwind(AssertUnwindSafe(move || Blk::new(t)));
    let evs = hal::take_log();
    let accepted = evs.iter().find_map(|e| if let Ev::WriteFeatures(v) = e { Some(*v) } else { None }).unwrap_or(0);
    let mut ins = vec![feats as u128, tries.len() as u128];
    for (g1, lo, hi, g2) in &tries { ins.extend([*g1 as u128, lo.is_some() as u128, lo.unwrap_or(0) as u128, hi.is_some() as u128, hi.unwrap_or(0) as u128, *g2 as u128]); }
    let (indirect, event_idx) = (accepted & F_IND != 0, accepted & F_EV != 0);
    let mut outs: Vec<u128> = match &r {
        Ok(Ok(b)) => vec![0, 0, b.capacity() as u128, b.readonly() as u128, indirect as u128, event_idx as u128],
        Ok(Err(e)) => vec![1, err_code(e), 0, 0, 0, 0], Err(_) => vec![2, 0, 0, 0, 0, 0] };
    outs.extend(enc_tevents(&evs));
    ctx.tr.line(1400, &ins, &outs);
    ctx.tr.note(match &r { Ok(Ok(_)) => "new_ok", Ok(Err(_)) => "new_err", Err(_) => "new_panic" });
    if tries.len() > 1 { ctx.tr.note("new_config_changed_during_read"); }
    let blk = match r { Ok(Ok(b)) => b, _ => { drop(r); ctx.tr.line(2, &[], &[(hal::live_regions() + hal::live_shares()) as u128]); ledger_line(ctx); return None; } };
    // the device's configuration as it stands when new() returns
    let (lo, hi) = { let t = st.borrow(); (rd_cfg(&t.config, 0), rd_cfg(&t.config, 4)) };
    ctx.tr.line(1452, &[lo.unwrap_or(0) as u128, hi.unwrap_or(0) as u128, blk.capacity() as u128, feats as u128, accepted as u128, blk.readonly() as u128], &[1]);
    let qi = st.borrow().queues[0];
    let a = QAddr { desc: qi.desc, drv: qi.drv, dev: qi.dev, size: N };
    CURQ.with(|c| *c.borrow_mut() = a);
    let seed = ctx.rng.next();
    SIM.with(|c| *c.borrow_mut() = Some(Sim { dev: BlkDev::new(a, event_idx), policy: Policy::OnNotify, spins: 0, polls: vec![], notified: 0,
        rng: crate::rng::Rng::new(seed), active: false }));
    st.borrow_mut().on_notify = Some(Box::new(|_q, _s| sim_notify()));
    // (the alloc-less build of the crate negotiates RING_INDIRECT_DESC like the default one, but its queue never uses a table)
    Some(Rig { blk: Some(blk), st, a, dev_feats: feats, accepted, indirect: indirect && crate::scen::qrig::HAVE_INDIRECT, event_idx, last_used: 0, next_id: 1, exp_disk: HashMap::new() })
}

fn finish(mut rig: Rig, ctx: &mut Ctx, outstanding: usize) {
    ctx.tr.line(1405, &[], &{ let b = rig.blk.as_ref().unwrap(); [b.capacity() as u128, b.readonly() as u128, b.virt_queue_size() as u128] });
    rig.st.borrow_mut().on_notify = None;
    drop(rig.blk.take());
    virtio_drivers::verif::set_observer(None);
    SIM.with(|c| *c.borrow_mut() = None);
    if outstanding == 0 { ctx.tr.line(2, &[], &[(hal::live_regions() + hal::live_shares()) as u128]); }
    ledger_line(ctx);
}

fn wire_monitor(ctx: &mut Ctx, s: &Seen, exp_ty: u32, exp_sector: u64, exp_len: usize, caller_data: Option<&[u8]>) {
    let data_ok = s.parse_ok && s.write_ok && match caller_data { Some(d) => s.out_data[..] == d[..], None => s.out_data.is_empty() };
    let mut m = vec![exp_ty as u128, exp_sector as u128, exp_len as u128, data_ok as u128, s.els.len() as u128];
    for e in &s.els { m.extend([e.1 as u128, e.2 as u128]); }
    for b in &s.first { m.push(*b as u128); }
    ctx.tr.line(1450, &m, &[1]);
}

/// compare the reference disk with the caller-side expectation on a sector range
fn disk_monitor(rig: &Rig, ctx: &mut Ctx, sector: u64, n: usize, also: Option<&[u8]>) {
    let mut eq = true;
    for i in 0..n as u64 {
        let s = sector.wrapping_add(i);
        let d = with_sim(|sim| sim.dev.sector(s));
        if d != rig.exp_sector(s) { eq = false; }
        if let Some(buf) = also { if buf[512 * i as usize..512 * i as usize + 512] != d[..] { eq = false; } }
    }
    ctx.tr.line(1454, &[n as u128, eq as u128], &[1]);
}

fn pick_sector(ctx: &mut Ctx) -> u64 {
    match ctx.rng.below(6) { 0 => ctx.rng.below(8), 1 => ctx.rng.boundary(64), 2 => u64::MAX - ctx.rng.below(10), 3 => (1u64 << 32) - 4 + ctx.rng.below(8),
        4 => 42, _ => ctx.rng.below(64) }
}

/// one blocking call: op 0 read_blocks, 1 write_blocks, 4 flush, 8 device_id
/// alloc-less build (kind 169, see qrig.rs): RING_INDIRECT_DESC negotiated or not, the driver's queue never shows an INDIRECT
/// descriptor and never shares a table. ins: [negotiated; buffers per request; head reads INDIRECT; flagged descriptors; table shares]
fn na_monitor(rig: &Rig, ctx: &mut Ctx, head: Option<u16>, taddr: u64) {
    if qrig::HAVE_INDIRECT { return; }
    let flagged = (0..rig.a.size).filter(|i| qrig::read_desc(&rig.a, *i).map(|d| d.2 & 4 != 0).unwrap_or(true)).count();
    let head_ind = head.and_then(|h| qrig::read_desc(&rig.a, h as usize % rig.a.size.max(1))).map(|d| (d.2 & 4 != 0) as u128).unwrap_or(0);
    ctx.tr.line(169, &[(rig.accepted & F_IND != 0) as u128, 3, head_ind, flagged as u128, (taddr != 0) as u128], &[1]);
}

fn blocking(rig: &mut Rig, ctx: &mut Ctx, op: u8, sector: u64, len: usize, policy: Policy, force: Option<u8>) -> bool {
    let did = rig.fresh_id(); let hid = rig.fresh_id(); let rid = rig.fresh_id();
    let mut data: Box<[u8]> = if op == 1 { ctx.rng.bytes(len).into_boxed_slice() } else { vec![0xA5u8; len].into_boxed_slice() };
    let mut idbuf = [0xA5u8; 20];
    let mut ids = Ids { known: HashMap::new(), hdr: hid, resp: rid };
    ids.known.insert(if op == 8 { idbuf.as_ptr() as usize } else { data.as_ptr() as usize }, did);
    // notification suppression as this device policy wants it
    let suppress = matches!(policy, Policy::Poll(_));
    if rig.event_idx { let seen = with_sim(|s| s.dev.seen_idx); hal::dev_write_u16(rig.a.dev + 4 + 8 * N as u64, if suppress { seen.wrapping_add(0x4000) } else { seen }).unwrap(); }
    hal::dev_write_u16(rig.a.dev, if rig.event_idx { ctx.rng.below(2) as u16 } else { suppress as u16 }).unwrap();
    let (ae, uf) = rig.suppression();
    let recv0 = with_sim(|s| { s.policy = policy; s.spins = 0; s.polls.clear(); s.notified = 0; s.active = true; s.dev.force_status = force; s.dev.received });
    let mark = hal::log_len();
    let blk = rig.blk.as_mut().unwrap();
    let r: std::thread::Result<Result<usize, virtio_drivers::Error>> = match op {
        0 => { let d = &mut data[..]; catch_unwind(AssertUnwindSafe(move || blk.read_blocks(sector as usize, d).map(|_| 0))) }
        1 => { let d = &data[..]; catch_unwind(AssertUnwindSafe(move || blk.write_blocks(sector as usize, d).map(|_| 0))) }
        4 => catch_unwind(AssertUnwindSafe(move || blk.flush().map(|_| 0))),
        _ => { let d = &mut idbuf; catch_unwind(AssertUnwindSafe(move || blk.device_id(d))) }
    };
    let evs = hal::log_since(mark);
    let (spins, mut polls, recv1) = with_sim(|s| { s.active = false; s.dev.force_status = None; (s.spins, s.polls.clone(), s.dev.received) });
    let (h, d, rr, t) = share_addrs(&evs, &ids, did);
    let token = ring_token(&evs);
    let (ui, uid, ulen) = rig.used_view();
    polls.push(ui);
    let seen: Option<Seen> = token.and_then(|tk| with_sim(|s| s.dev.done.iter().rposition(|x| x.head == tk).map(|p| s.dev.done.remove(p))));
    let st = seen.as_ref().map(|s| s.status).unwrap_or(0);
    let dlen = if op == 8 { 20 } else if op == 4 { 0 } else { len };
    let mut ins = vec![op as u128, sector as u128, t as u128, ae as u128, uf as u128, uid as u128, ulen as u128, st as u128,
        hid as u128, h as u128, did as u128, dlen as u128, d as u128, rid as u128, rr as u128, polls.len() as u128];
    ins.extend(polls.iter().map(|p| *p as u128));
    if op == 8 { ins.extend(idbuf.iter().map(|b| *b as u128)); }
    let (class, code) = match &r { Ok(Ok(v)) => (0u128, *v as u128), Ok(Err(e)) => (1, err_code(e)), Err(_) => (2, 0) };
    let mut outs = vec![class, code, spins as u128];
    outs.extend(enc_bevents(&evs, &ids, token.unwrap_or(0) as u128));
    ctx.tr.line(1403, &ins, &outs);
    na_monitor(rig, ctx, token, t);
    ctx.tr.note(&format!("blocking_op{}_class{}_st{}", op, class, if seen.is_some() { st.min(4) } else { 9 }));
    ctx.tr.note(match policy { Policy::OnNotify => "policy_on_notify", Policy::Poll(_) => "policy_poll", Policy::Late(_) => "policy_late" });
    let popped = evs.iter().any(|e| matches!(e, Ev::Unshare { .. }));
    if popped { rig.last_used = rig.last_used.wrapping_add(1); }
    if op == 4 {
        let ty = seen.as_ref().map(|s| s.ty).unwrap_or(0);
        ctx.tr.line(1453, &[rig.accepted as u128, (recv1 - recv0) as u128, ty as u128, class, code, st as u128], &[1]);
    }
    if let Some(s) = &seen {
        let caller: Option<&[u8]> = if op == 1 { Some(&data[..]) } else { None };
        wire_monitor(ctx, s, [0u32, 1, 0, 0, 4, 0, 0, 0, 8][op as usize], if op == 0 || op == 1 { sector } else { 0 }, dlen, caller);
        let data_ok = match op {
            0 => data[..] == s.payload[..],
            8 => idbuf[..] == s.payload[..] && (class != 0 || code as usize == s.payload.iter().position(|x| *x == 0).unwrap_or(20)),
            1 => true, _ => true };
        ctx.tr.line(1451, &[st as u128, class, code, data_ok as u128, 1, (hal::live_shares() == 0) as u128], &[1]);
        if op == 1 && class == 0 { for i in 0..len / 512 { let mut b = [0u8; 512]; b.copy_from_slice(&data[512 * i..512 * i + 512]); rig.exp_disk.insert(sector.wrapping_add(i as u64), b); } }
        if (op == 0 || op == 1) && class == 0 { disk_monitor(rig, ctx, sector, len / 512, if op == 0 { Some(&data[..]) } else { None }); }
    } else if class == 2 && len != 0 && len % 512 == 0 {
        // a panic that is not one of the documented length asserts: report it through the result monitor
        ctx.tr.line(1451, &[0, class, code, 0, 1, 0], &[1]);
    }
    class != 2
}

fn blocking_scenario(ctx: &mut Ctx, feats: u64, nops: usize) {
    let cap_lo = ctx.rng.boundary(32) as u32; let cap_hi = ctx.rng.boundary(32) as u32;
    let mut cfg = vec![0u8; 64]; cfg[0..4].copy_from_slice(&cap_lo.to_le_bytes()); cfg[4..8].copy_from_slice(&cap_hi.to_le_bytes());
    let mut rig = match make(ctx, feats, cfg, vec![], None) { Some(r) => r, None => return };
    for _ in 0..nops {
        let policy = match ctx.rng.below(3) { 0 => Policy::OnNotify, 1 => Policy::Poll(1 + ctx.rng.below(4) as u32), _ => Policy::Late(1 + ctx.rng.below(30) as u32) };
        let force = match ctx.rng.below(8) { 0 => Some(1u8), 1 => Some(2), 2 => Some(3), 3 => Some(*ctx.rng.pick(&[4u8, 5, 9, 127, 128, 254, 255])), _ => None };
        let nsec = match ctx.rng.below(5) { 0 => 1, 1 => 8, _ => 1 + ctx.rng.below(8) as usize };
        let op = match ctx.rng.below(10) { 0..=3 => 0u8, 4..=7 => 1, 8 => 4, _ => 8 };
        let mut sector = pick_sector(ctx);
        // the reference disk refuses ranges that wrap; keep most requests inside
        if ctx.rng.chance(7, 8) { sector = sector.min(u64::MAX - 16); }
        let ok = blocking(&mut rig, ctx, op, sector, nsec * 512, policy, force);
        if !ok { break; }
        if ctx.rng.chance(1, 10) {
            let en = ctx.rng.chance(1, 2); let mark = hal::log_len();
            if en { rig.blk.as_mut().unwrap().enable_interrupts() } else { rig.blk.as_mut().unwrap().disable_interrupts() }
            let ids = Ids { known: HashMap::new(), hdr: 0, resp: 0 };
            ctx.tr.line(1406, &[en as u128], &enc_bevents(&hal::log_since(mark), &ids, 0));
        }
    }
    // documented length asserts
    for bad in [0usize, 1, 511, 513, 1000] {
        if ctx.rng.chance(1, 2) { let op = ctx.rng.below(2) as u8; blocking(&mut rig, ctx, op, 3, bad, Policy::OnNotify, None); }
    }
    finish(rig, ctx, 0);
}

// ------------------------------------------------------------------------------------------------
// non-blocking histories
struct Slot { req: Box<BlkReq>, buf: Box<[u8]>, resp: Box<BlkResp>, token: u16, write: bool, sector: u64, hid: u64, did: u64, rid: u64, wire_checked: bool }
impl Slot {
    fn ids(&self) -> Ids {
        let mut known = HashMap::new();
        known.insert(self.req.as_bytes().as_ptr() as usize, self.hid);
        known.insert(self.buf.as_ptr() as usize, self.did);
        known.insert(self.resp.as_bytes().as_ptr() as usize, self.rid);
        Ids { known, hdr: self.hid, resp: self.rid }
    }
    fn snapshot(&self) -> (Vec<u8>, Vec<u8>, u8) { (self.req.as_bytes().to_vec(), self.buf.to_vec(), self.resp.as_bytes()[0]) }
}

fn overlaps(slots: &[Slot], sector: u64, n: u64) -> bool {
    slots.iter().any(|s| { let m = (s.buf.len() / 512) as u64; sector < s.sector.saturating_add(m) && s.sector < sector.saturating_add(n) })
}

fn nb_submit(rig: &mut Rig, ctx: &mut Ctx, slots: &mut Vec<Slot>, write: bool, sector: u64, len: usize) {
    let hid = rig.fresh_id(); let did = rig.fresh_id(); let rid = rig.fresh_id();
    let buf: Box<[u8]> = if write { ctx.rng.bytes(len).into_boxed_slice() } else { vec![0x5Au8; len].into_boxed_slice() };
    let mut slot = Slot { req: Box::new(BlkReq::default()), buf, resp: Box::new(BlkResp::default()), token: 0, write, sector, hid, did, rid, wire_checked: false };
    let ids = slot.ids();
    let (ae, uf) = rig.suppression();
    let before: Vec<(Vec<u8>, Vec<u8>, u8)> = slots.iter().map(|s| s.snapshot()).collect();
    let mark = hal::log_len();
    let blk = rig.blk.as_mut().unwrap();
    let r = { let (rq, b, rs) = (&mut *slot.req, &mut slot.buf[..], &mut *slot.resp);
        if write { catch_unwind(AssertUnwindSafe(move || unsafe { blk.write_blocks_nb(sector as usize, rq, b, rs) })) }
        else { catch_unwind(AssertUnwindSafe(move || unsafe { blk.read_blocks_nb(sector as usize, rq, b, rs) })) } };
    let evs = hal::log_since(mark);
    let (h, d, rr, t) = share_addrs(&evs, &ids, did);
    let ins = [write as u128, sector as u128, t as u128, ae as u128, uf as u128, hid as u128, h as u128, did as u128, len as u128, d as u128, rid as u128, rr as u128];
    let mut outs = enc_result(&r, |v| *v as u128).to_vec();
    if r.is_ok() { outs.extend(slot.req.as_bytes().iter().map(|b| *b as u128)); }
    let head = match &r { Ok(Ok(v)) => *v as u128, _ => 0 };
    outs.extend(enc_bevents(&evs, &ids, head));
    ctx.tr.line(1401, &ins, &outs);
    na_monitor(rig, ctx, match &r { Ok(Ok(v)) => Some(*v), _ => None }, t);
    ctx.tr.note(match &r { Ok(Ok(_)) => "nb_submit_ok", Ok(Err(_)) => "nb_submit_refused", Err(_) => "nb_submit_panic" });
    // a submission (successful or refused) leaves every outstanding request's buffers alone
    let same = slots.iter().zip(before.iter()).all(|(s, b)| s.snapshot() == *b);
    if !same { ctx.tr.line(1451, &[0, 0, 0, 1, 0, 1], &[1]); }
    if let Ok(Ok(tok)) = r { slot.token = tok; slots.push(slot); ctx.tr.note(&format!("nb_outstanding_{}", slots.len())); }
}

fn nb_device_fetch(ctx: &mut Ctx, slots: &mut Vec<Slot>, force: Option<u8>) {
    let news: Vec<Seen> = with_sim(|s| { s.dev.force_status = force; let mut r = s.rng.clone(); let n = s.dev.fetch(&mut r); s.rng = r; s.dev.force_status = None;
        let l = s.dev.pending.len(); s.dev.pending[l - n..].to_vec() });
    for s in &news {
        match slots.iter_mut().find(|x| x.token == s.head && !x.wire_checked) {
            Some(sl) => { sl.wire_checked = true;
                wire_monitor(ctx, s, sl.write as u32, sl.sector, sl.buf.len(), if sl.write { Some(&sl.buf[..]) } else { None }); }
            None => { ctx.tr.line(1450, &[0, 0, 0, 0, 0], &[1]); } // the device received something nobody submitted
        }
    }
}

/// complete_* for slot k; returns true if the request left the queue
fn nb_complete(rig: &mut Rig, ctx: &mut Ctx, slots: &mut Vec<Slot>, k: usize, present: Option<u16>) -> bool {
    let (ui, uid, ulen) = rig.used_view();
    let token = present.unwrap_or(slots[k].token);
    let rec: Option<Seen> = with_sim(|s| s.dev.done.iter().rev().chain(s.dev.pending.iter().rev()).find(|x| x.head == slots[k].token).cloned());
    let st = rec.as_ref().map(|s| s.status).unwrap_or(0);
    let before: Vec<(Vec<u8>, Vec<u8>, u8)> = slots.iter().map(|s| s.snapshot()).collect();
    let ids = slots[k].ids();
    let mark = hal::log_len();
    let blk = rig.blk.as_mut().unwrap();
    let r = { let sl = &mut slots[k]; let write = sl.write; let (rq, b, rs) = (&*sl.req, &mut sl.buf[..], &mut *sl.resp);
        if write { catch_unwind(AssertUnwindSafe(move || unsafe { blk.complete_write_blocks(token, rq, b, rs) })) }
        else { catch_unwind(AssertUnwindSafe(move || unsafe { blk.complete_read_blocks(token, rq, b, rs) })) } };
    let evs = hal::log_since(mark);
    let sl = &slots[k];
    let ins = [sl.write as u128, token as u128, ui as u128, uid as u128, ulen as u128, st as u128, sl.hid as u128, sl.did as u128, sl.buf.len() as u128, sl.rid as u128];
    let (class, code) = match &r { Ok(Ok(_)) => (0u128, 0u128), Ok(Err(e)) => (1, err_code(e)), Err(_) => (2, 0) };
    let mut outs = vec![class, code];
    outs.extend(enc_bevents(&evs, &ids, token as u128));
    ctx.tr.line(1402, &ins, &outs);
    let popped = evs.iter().any(|e| matches!(e, Ev::Unshare { .. }));
    let others_ok = slots.iter().zip(before.iter()).enumerate().all(|(j, (s, b))| (j == k && popped) || s.snapshot() == *b);
    if popped {
        rig.last_used = rig.last_used.wrapping_add(1);
        let sl = slots.remove(k);
        with_sim(|s| { if let Some(p) = s.dev.done.iter().rposition(|x| x.head == sl.token) { s.dev.done.remove(p); } });
        let per = 3 + if rig.indirect { 1 } else { 0 };
        let data_ok = match &rec { Some(s) => sl.write || sl.buf[..] == s.payload[..], None => false };
        // a written buffer and the header are never modified by the driver
        let intact = sl.req.as_bytes() == &before[k].0[..] && (!sl.write || sl.buf[..] == before[k].1[..]);
        ctx.tr.line(1451, &[st as u128, class, code, (data_ok && intact) as u128, others_ok as u128, (hal::live_shares() == per * slots.len()) as u128], &[1]);
        ctx.tr.note(&format!("nb_complete_st{}", st.min(4)));
        if class == 0 {
            if sl.write { for i in 0..sl.buf.len() / 512 { let mut b = [0u8; 512]; b.copy_from_slice(&sl.buf[512 * i..512 * i + 512]); rig.exp_disk.insert(sl.sector + i as u64, b); } }
            disk_monitor(rig, ctx, sl.sector, sl.buf.len() / 512, if sl.write { None } else { Some(&sl.buf[..]) });
        }
    } else {
        // refused (NotReady / WrongToken): nothing at all may have changed
        let per = 3 + if rig.indirect { 1 } else { 0 };
        ctx.tr.line(1451, &[0, (class == 1 && (code == 2 || code == 3)) as u128 ^ 1, 0, 1, others_ok as u128, (hal::live_shares() == per * slots.len()) as u128], &[1]);
        ctx.tr.note(if code == 2 { "nb_complete_notready" } else { "nb_complete_wrongtoken" });
    }
    popped
}

fn nb_history(ctx: &mut Ctx, feats: u64, nops: usize) {
    let mut cfg = vec![0u8; 64]; cfg[0..4].copy_from_slice(&0x1000u32.to_le_bytes());
    let mut rig = match make(ctx, feats, cfg, vec![], None) { Some(r) => r, None => return };
    let mut slots: Vec<Slot> = vec![];
    let mut completion_order_inversions = 0u64;
    for _ in 0..nops {
        let r = ctx.rng.below(100);
        if r < 38 {
            let write = ctx.rng.chance(1, 2);
            let nsec = match ctx.rng.below(4) { 0 => 1, 1 => 8, _ => 1 + ctx.rng.below(8) as usize };
            let mut sector = pick_sector(ctx).min(u64::MAX - 16);
            let mut tries = 0; while overlaps(&slots, sector, nsec as u64) && tries < 20 { sector = ctx.rng.below(4096); tries += 1; }
            if overlaps(&slots, sector, nsec as u64) { continue; }
            let len = if ctx.rng.chance(1, 40) { *ctx.rng.pick(&[0usize, 1, 511, 513]) } else { nsec * 512 };
            nb_submit(&mut rig, ctx, &mut slots, write, sector, len);
        } else if r < 55 {
            let force = match ctx.rng.below(8) { 0 => Some(1u8), 1 => Some(2), 2 => Some(3), 3 => Some(*ctx.rng.pick(&[4u8, 77, 255])), _ => None };
            nb_device_fetch(ctx, &mut slots, force);
        } else if r < 70 {
            // publish a random pending completion: the order is the device's business
            let n = with_sim(|s| s.dev.pending.len());
            if n > 0 { let k = ctx.rng.below(n as u64) as usize; if k != 0 { completion_order_inversions += 1; } with_sim(|s| s.dev.publish(k)); }
        } else if r < 92 {
            if slots.is_empty() { continue; }
            let (ui, uid, _) = rig.used_view();
            let ready = ui != rig.last_used;
            let right = if ready { slots.iter().position(|s| s.token == uid as u16) } else { None };
            match (right, ctx.rng.below(8)) {
                (Some(k), 0..=5) => { nb_complete(&mut rig, ctx, &mut slots, k, None); }
                _ => { let k = ctx.rng.below(slots.len() as u64) as usize; if Some(k) != right { nb_complete(&mut rig, ctx, &mut slots, k, None); } }
            }
        } else if r < 97 {
            let (ui, uid, _) = rig.used_view();
            let pk = rig.blk.as_mut().unwrap().peek_used();
            ctx.tr.line(1404, &[ui as u128, uid as u128], &match pk { Some(v) => [1, v as u128], None => [0, 0] });
        } else {
            // the device changes its notification wishes
            hal::dev_write_u16(rig.a.dev + 4 + 8 * N as u64, ctx.rng.boundary(16) as u16).unwrap();
            hal::dev_write_u16(rig.a.dev, ctx.rng.below(2) as u16).unwrap();
        }
    }
    // drain: the device serves everything, publishing in a shuffled order; the driver completes in used order
    nb_device_fetch(ctx, &mut slots, None);
    loop { let n = with_sim(|s| s.dev.pending.len()); if n == 0 { break; } let k = ctx.rng.below(n as u64) as usize; with_sim(|s| s.dev.publish(k)); }
    while !slots.is_empty() {
        let (ui, uid, _) = rig.used_view();
        if ui == rig.last_used { break; }
        match slots.iter().position(|s| s.token == uid as u16) { Some(k) => { if !nb_complete(&mut rig, ctx, &mut slots, k, None) { break; } } None => break }
    }
    ctx.tr.note_n("nb_out_of_order_publications", completion_order_inversions);
    let left = slots.len();
    // every submitted request must have come back
    ctx.tr.line(1451, &[0, 0, 0, 1, 1, (left == 0) as u128], &[1]);
    finish(rig, ctx, left);
    drop(slots);
}

/// fill the queue, complete in a full random permutation (directed form of the out-of-order clause)
fn nb_permutation(ctx: &mut Ctx, feats: u64) {
    let mut cfg = vec![0u8; 64]; cfg[0..4].copy_from_slice(&0x1000u32.to_le_bytes());
    let mut rig = match make(ctx, feats, cfg, vec![], None) { Some(r) => r, None => return };
    let mut slots: Vec<Slot> = vec![];
    for round in 0..3 {
        let cap = if rig.indirect { 16 } else { 5 };
        for i in 0..cap + 1 {
            let write = ctx.rng.chance(1, 2);
            let nsec = 1 + ctx.rng.below(4) as usize;
            nb_submit(&mut rig, ctx, &mut slots, write, (round * 1000 + i * 16) as u64, nsec * 512);
        }
        ctx.tr.note(&format!("nb_queue_full_at_{}", slots.len()));
        let force = if round == 1 { Some(*ctx.rng.pick(&[1u8, 2, 3, 200])) } else { None };
        nb_device_fetch(ctx, &mut slots, force);
        loop { let n = with_sim(|s| s.dev.pending.len()); if n == 0 { break; } let k = ctx.rng.below(n as u64) as usize; with_sim(|s| s.dev.publish(k)); }
        while !slots.is_empty() {
            let (ui, uid, _) = rig.used_view();
            if ui == rig.last_used { break; }
            // sometimes first present a token that is outstanding but not next
            if slots.len() > 1 && ctx.rng.chance(1, 3) { let k = ctx.rng.below(slots.len() as u64) as usize; if slots[k].token != uid as u16 { nb_complete(&mut rig, ctx, &mut slots, k, None); } }
            match slots.iter().position(|s| s.token == uid as u16) { Some(k) => { if !nb_complete(&mut rig, ctx, &mut slots, k, None) { break; } } None => break }
        }
    }
    let left = slots.len();
    ctx.tr.line(1451, &[0, 0, 0, 1, 1, (left == 0) as u128], &[1]);
    finish(rig, ctx, left);
    drop(slots);
}

/// new(): capacity halves, config changing under the reads, failing reads, feature sets
fn config_scenarios(ctx: &mut Ctx, n: u64) {
    for i in 0..n {
        ctx.tr.scenario(&format!("c14-config-{}", i));
        let lo = ctx.rng.boundary(32) as u32; let hi = ctx.rng.boundary(32) as u32;
        let mut cfg = vec![0u8; if ctx.rng.chance(1, 12) { *ctx.rng.pick(&[0usize, 3, 4, 7]) } else { 64 }];
        if cfg.len() >= 4 { cfg[0..4].copy_from_slice(&lo.to_le_bytes()); }
        if cfg.len() >= 8 { cfg[4..8].copy_from_slice(&hi.to_le_bytes()); }
        let mut sched = vec![];
        if cfg.len() == 64 && ctx.rng.chance(1, 2) {
            // the device changes the capacity while it is being read: between the halves, before, after; several times
            for _ in 0..1 + ctx.rng.below(3) {
                let at = 1 + ctx.rng.below(10) as usize;
                let mut c2 = cfg.clone();
                c2[0..4].copy_from_slice(&(ctx.rng.boundary(32) as u32).to_le_bytes()); c2[4..8].copy_from_slice(&(ctx.rng.boundary(32) as u32).to_le_bytes());
                if !sched.iter().any(|(a, _, _): &(usize, Vec<u8>, bool)| *a == at) { sched.push((at, c2, true)); }
            }
        }
        let fail_at = if ctx.rng.chance(1, 10) { Some(ctx.rng.below(3) as usize) } else { None };
        let mut feats = 0u64;
        for b in [F_RO, F_FLUSH, F_IND, F_EV, F_V1, F_AP] { if ctx.rng.chance(1, 2) { feats |= b; } }
        if ctx.rng.chance(1, 2) { feats |= ctx.rng.next() & !(F_V1); }   // bits this driver does not know
        if let Some(mut rig) = make(ctx, feats, cfg, sched, fail_at) {
            // flush gating on exactly what was negotiated
            blocking(&mut rig, ctx, 4, 0, 0, Policy::OnNotify, None);
            if ctx.rng.chance(1, 2) { blocking(&mut rig, ctx, 0, 1, 512, Policy::Late(2), None); }
            finish(rig, ctx, 0);
        }
    }
}

pub fn run(ctx: &mut Ctx) {
    let n = ctx.budget(240, 12);
    config_scenarios(ctx, n);
    let feature_sets = [0u64, F_IND, F_EV, F_IND | F_EV, F_FLUSH | F_V1, F_IND | F_FLUSH | F_RO | F_V1, F_EV | F_FLUSH | F_AP | F_V1, F_IND | F_EV | F_FLUSH | F_RO | F_V1 | F_AP];
    let ops = ctx.budget(250, 12) as usize;
    for (i, f) in feature_sets.iter().enumerate() {
        ctx.tr.scenario(&format!("c14-blocking-{}", i)); blocking_scenario(ctx, *f, ops);
    }
    let hist = ctx.budget(64, 10);
    for h in 0..hist {
        let f = feature_sets[(h as usize) % feature_sets.len()];
        ctx.tr.scenario(&format!("c14-nb-history-{}", h)); nb_history(ctx, f, 220);
    }
    for (i, f) in feature_sets.iter().enumerate() {
        ctx.tr.scenario(&format!("c14-nb-permutation-{}", i)); nb_permutation(ctx, *f);
    }
}
